"""Normalisation pass: functions that did not exist in the reference tree are inlined into their callers.

Most rules anchor on a function of the reference tree and look at the shape of its body.  "Extract a block into a helper" is the
commonest behaviour-preserving edit, and it moves exactly the constructs a rule looks for out of the anchored function.  Rather
than teaching every rule to follow helpers, the loader undoes the extraction: a module-level function whose id is not in
``baseline_functions.json`` (the function ids of the tree the rules were written against) and whose every use is a plain call in
statement position is substituted back at each call site and removed from its module.  On the reference tree this is the identity.

What is inlined (all-or-nothing per helper; anything else is left alone and analysed as an ordinary function):
  * module-level ``def`` without decorators, ``*args``/``**kwargs``, ``yield``, ``global``/``nonlocal`` or nested defs that capture;
  * every reference to it in the package is a call ``H(...)`` (same module, or imported with ``from .m import H``) with plain
    positional / keyword arguments, and the call is the whole right-hand side of an assignment, a ``return`` value, or an expression
    statement;
  * it has at most one ``return`` and that is its last statement -- or all its call sites are ``return H(...)``, in which case its
    ``return`` statements can stay as they are (guard-clause helpers), provided none sits inside a ``finally``.
Arguments that are names / constants / attribute chains are substituted for parameters the helper never assigns; other arguments
are bound by an assignment in front.  Helper locals keep their names unless they collide with a name of the caller.
The semantics of the program are unchanged by construction (argument evaluation order is kept; a helper's locals never escape).
"""
import ast
import copy
import json
import os

FuncTypes = (ast.FunctionDef, ast.AsyncFunctionDef)
_BASELINE = os.path.join(os.path.dirname(os.path.abspath(__file__)), 'baseline_functions.json')


def load_baseline():
    try:
        with open(_BASELINE, encoding='utf8') as f:
            return set(json.load(f))
    except OSError:
        return None


_FEATURES = os.path.join(os.path.dirname(os.path.abspath(__file__)), 'baseline_features.json')


def load_features():
    try:
        with open(_FEATURES, encoding='utf8') as f:
            return json.load(f)
    except OSError:
        return None


def function_features(fn):
    """What a module-level function looks like regardless of its own name and of the names of its locals: arity, and the bag of names it
    refers to that it does not bind itself (callees, globals, attributes, string constants)."""
    bound = {a.arg for a in fn.args.args + fn.args.kwonlyargs} | {n.id for n in ast.walk(fn) if isinstance(n, ast.Name) and isinstance(n.ctx, (ast.Store, ast.Del))}
    names = set()
    for n in ast.walk(fn):
        if isinstance(n, ast.Name) and n.id not in bound and n.id != fn.name:
            names.add(n.id)
        elif isinstance(n, ast.Attribute):
            names.add('.' + n.attr)
        elif isinstance(n, ast.Constant) and isinstance(n.value, str) and 0 < len(n.value) < 40 and n is not (fn.body[0].value if fn.body and isinstance(fn.body[0], ast.Expr) else None):
            names.add('"' + n.value)
    return {'arity': len(fn.args.args), 'names': sorted(names), 'size': sum(1 for _ in ast.walk(fn))}


def rename_back(modules, baseline, features, log=None):
    """A module-level function of the reference tree that is gone, and a new one in the same module that looks like it (same arity, mostly
    the same outside names, similar size), are one function under a new name: give it its old name back, in the module and in every
    `from <module> import` of it.  Pairs are taken only when they are unambiguous; anything else is left to the inliner / the anchors."""
    if baseline is None or not features:
        return []
    done = []
    for m in modules.values():
        defs = {st.name: st for st in m.tree.body if isinstance(st, ast.FunctionDef)}
        gone = [fid.split(':', 1)[1] for fid in features if fid.startswith(m.name + ':') and fid.split(':', 1)[1] not in defs]
        new = [nm for nm in defs if '%s:%s' % (m.name, nm) not in baseline]
        if not gone or not new:
            continue
        # a name that is still bound in the module (imported back from a sibling) is a MOVE, not a rename
        bound_here = set()
        for st in m.tree.body:
            if isinstance(st, ast.ImportFrom):
                bound_here |= {a.asname or a.name for a in st.names}
            elif isinstance(st, ast.Assign):
                bound_here |= {t.id for t in st.targets if isinstance(t, ast.Name)}
        gone = [g for g in gone if g not in bound_here]
        score = {}
        for g in gone:
            fg = features['%s:%s' % (m.name, g)]
            for nm in new:
                fn_ = function_features(defs[nm])
                if fn_['arity'] != fg['arity']:
                    continue
                a, b = set(fg['names']), set(fn_['names'])
                jac = len(a & b) / float(len(a | b) or 1)
                size = min(fg['size'], fn_['size']) / float(max(fg['size'], fn_['size']) or 1)
                if jac >= 0.6 and size >= 0.5:
                    score[(g, nm)] = jac
        for (g, nm), sc in sorted(score.items(), key=lambda kv: -kv[1]):
            if sum(1 for (g2, n2) in score if g2 == g) != 1 or sum(1 for (g2, n2) in score if n2 == nm) != 1:
                continue        # ambiguous
            # rename nm -> g everywhere it is visible
            defs[nm].name = g
            for x in ast.walk(m.tree):
                if isinstance(x, ast.Name) and x.id == nm:
                    x.id = g
            for m2 in modules.values():
                if m2 is m:
                    continue
                for st in ast.walk(m2.tree):
                    if isinstance(st, ast.ImportFrom) and any(a.name == nm for a in st.names):
                        mod = st.module or ''
                        if m.name.endswith(mod.lstrip('.')) or mod.split('.')[-1] == m.name.split('.')[-1]:
                            for a in st.names:
                                if a.name == nm:
                                    local = a.asname or a.name
                                    a.name = g
                                    if a.asname is None and local == nm:
                                        for x in ast.walk(m2.tree):
                                            if isinstance(x, ast.Name) and x.id == nm:
                                                x.id = g
                for x in ast.walk(m2.tree):
                    if isinstance(x, ast.Attribute) and x.attr == nm and isinstance(x.value, ast.Name) and x.value.id == m.name.split('.')[-1]:
                        x.attr = g
            done.append('%s:%s -> %s' % (m.name, nm, g))
    if log is not None and done:
        log(done)
    return done


def _blocks(node):
    """Yield every statement list inside node (body/orelse/finalbody/handler bodies), recursively, without entering nested defs' headers."""
    for n in ast.walk(node):
        for field in ('body', 'orelse', 'finalbody'):
            blk = getattr(n, field, None)
            if isinstance(blk, list) and blk and isinstance(blk[0], ast.stmt):
                yield blk


def _bound_names(fn):
    out = set()
    for n in ast.walk(fn):
        if isinstance(n, ast.Name) and isinstance(n.ctx, (ast.Store, ast.Del)):
            out.add(n.id)
        elif isinstance(n, ast.ExceptHandler) and n.name:
            out.add(n.name)
        elif isinstance(n, (ast.Import, ast.ImportFrom)):
            for a in n.names:
                out.add((a.asname or a.name).split('.')[0])
    return out


def _comp_scoped(fn):
    """names bound only inside comprehensions (own scope): never renamed/substitution targets"""
    out = set()
    for n in ast.walk(fn):
        if isinstance(n, (ast.ListComp, ast.SetComp, ast.DictComp, ast.GeneratorExp)):
            for g in n.generators:
                for x in ast.walk(g.target):
                    if isinstance(x, ast.Name):
                        out.add(x.id)
    return out


def _simple_arg(e):
    if isinstance(e, (ast.Name, ast.Constant)):
        return True
    if isinstance(e, ast.Attribute):
        return _simple_arg(e.value)
    return False


class _Subst(ast.NodeTransformer):
    def __init__(self, mapping, rename):
        self.mapping, self.rename = mapping, rename

    def visit_Name(self, n):
        if n.id in self.mapping and isinstance(n.ctx, ast.Load):
            return copy.deepcopy(self.mapping[n.id])
        if n.id in self.rename:
            return ast.copy_location(ast.Name(id=self.rename[n.id], ctx=n.ctx), n)
        return n

    def visit_ExceptHandler(self, n):
        if n.name in self.rename:
            n.name = self.rename[n.name]
        self.generic_visit(n)
        return n


def _shape_ok(fn):
    a = fn.args
    if fn.decorator_list or a.vararg or a.kwarg or a.posonlyargs or isinstance(fn, ast.AsyncFunctionDef):
        return False
    for n in ast.walk(fn):
        if isinstance(n, (ast.Yield, ast.YieldFrom, ast.Await, ast.Global, ast.Nonlocal)):
            return False
        if n is not fn and isinstance(n, FuncTypes + (ast.ClassDef,)):
            return False
    # no return inside a finally
    for n in ast.walk(fn):
        if isinstance(n, ast.Try):
            for st in n.finalbody:
                if any(isinstance(x, ast.Return) for x in ast.walk(st)):
                    return False
    return True


def _returns(fn):
    return [n for n in ast.walk(fn) if isinstance(n, ast.Return)]


def _single_tail_return(fn):
    rs = _returns(fn)
    if not rs:
        return True
    return len(rs) == 1 and fn.body and fn.body[-1] is rs[0]


def inline_new_functions(modules, baseline, log=None):
    """modules: {name: Module(tree, imports-not-yet-built)}.  Mutates the trees.  Returns the list of inlined function ids."""
    if baseline is None:
        return []
    done = []
    for _pass in range(3):
        cands = {}
        for m in modules.values():
            for st in m.tree.body:
                if isinstance(st, ast.FunctionDef) and '%s:%s' % (m.name, st.name) not in baseline and _shape_ok(st):
                    cands[(m.name, st.name)] = (m, st)
        # new METHODS of existing classes, used only as self.m(...) inside that class
        if _pass == 0:
            for m in modules.values():
                for cls in [c for c in m.tree.body if isinstance(c, ast.ClassDef)]:
                    for meth in [f for f in cls.body if isinstance(f, ast.FunctionDef)]:
                        if '%s:%s.%s' % (m.name, cls.name, meth.name) in baseline or not _shape_ok(meth) or not meth.args.args:
                            continue
                        if _inline_method(modules, m, cls, meth):
                            done.append('%s:%s.%s' % (m.name, cls.name, meth.name))
        if _pass == 0:
            done.extend(_inline_closures(modules, baseline))
        if not cands:
            break
        cand_names = {k[1] for k in cands}
        progressed = False
        for (mname, hname), (hm, h) in sorted(cands.items()):
            # helpers that still call other candidates wait for the next pass
            if any(isinstance(c, ast.Call) and isinstance(c.func, ast.Name) and c.func.id in cand_names and c.func.id != hname for c in ast.walk(h)):
                if _pass < 2:
                    continue
            if any(isinstance(c, ast.Call) and isinstance(c.func, ast.Name) and c.func.id == hname for c in ast.walk(h)):
                continue        # recursive
            sites = _find_sites(modules, hm, h)
            if not sites:
                continue
            single = _single_tail_return(h)
            h1 = h
            if not single and any(kind not in ('return', 'exprsub') for (_m, _blk, _st, kind, _call) in sites):
                h1 = _single_exit_copy(h)       # guard-clause helper used as a value: single-exit form
                if h1 is None:
                    continue
                single = True
            if not all(kind is not None and (single or kind in ('return', 'exprsub')) for (_m, _blk, _st, kind, _call) in sites):
                continue
            if not all(_bindable(h, call) for (_m, _blk, _st, _k, call) in sites):
                continue
            for (m2, blk, st, kind, call) in sites:
                new = _expand(h if kind == 'return' else h1, call, kind, st, _enclosing_names(m2, st))
                i = next(i for i, s in enumerate(blk) if s is st)
                blk[i:i + 1] = new
                if m2 is not hm:
                    _share_imports(hm, m2, h)
            hm.tree.body = [s for s in hm.tree.body if s is not h]
            done.append('%s:%s' % (mname, hname))
            progressed = True
        if not progressed:
            break
    if log is not None and done:
        log(done)
    return done


def _inline_method(modules, m, cls, meth):
    selfp = meth.args.args[0].arg
    if meth.name.startswith('__') or any(isinstance(x, ast.Call) and isinstance(x.func, ast.Attribute) and x.func.attr == meth.name for x in ast.walk(meth)):
        return False
    # the name must not be used anywhere else in the package (subclass overrides, getattr, other receivers)
    sites = []
    for m2 in modules.values():
        for n in ast.walk(m2.tree):
            if isinstance(n, ast.FunctionDef) and n.name == meth.name and n is not meth:
                return False
            if isinstance(n, ast.Constant) and n.value == meth.name:
                return False
    allowed_attr = set()
    for caller in [f for f in cls.body if isinstance(f, ast.FunctionDef) and f is not meth and f.args.args]:
        cself = caller.args.args[0].arg
        for blk in _blocks(caller):
            for st in blk:
                if isinstance(st, FuncTypes + (ast.ClassDef,)):
                    continue
                for c in _stmt_exprs(st):
                    if isinstance(c, ast.Call) and isinstance(c.func, ast.Attribute) and c.func.attr == meth.name and isinstance(c.func.value, ast.Name) and c.func.value.id == cself:
                        kind = None
                        if isinstance(st, ast.Expr) and st.value is c:
                            kind = 'expr'
                        elif isinstance(st, ast.Assign) and st.value is c:
                            kind = 'assign'
                        elif isinstance(st, ast.Return) and st.value is c:
                            kind = 'return'
                        elif isinstance(st, (ast.Return, ast.Assign, ast.Expr, ast.AugAssign)) and _hoistable(st, c, None):
                            kind = 'embedded'
                        sites.append((caller, blk, st, kind, c, cself))
                        allowed_attr.add(id(c.func))
    if not sites:
        return False
    for m2 in modules.values():
        for n in ast.walk(m2.tree):
            if isinstance(n, ast.Attribute) and n.attr == meth.name and id(n) not in allowed_attr:
                return False
    single = _single_tail_return(meth)
    h1 = meth
    if not single and any(k not in ('return',) for (_c, _b, _s, k, _call, _cs) in sites):
        h1 = _single_exit_copy(meth)
        if h1 is None:
            return False
        single = True
    if not all(k is not None and (single or k == 'return') for (_c, _b, _s, k, _call, _cs) in sites):
        return False
    # as a plain function: drop the self parameter, substitute the caller's self
    for (caller, blk, st, kind, call, cself) in sites:
        h = copy.deepcopy(meth if kind == 'return' else h1)
        h.args.args = h.args.args[1:]
        if len(h.args.defaults) > len(h.args.args):
            return False
        if selfp != cself:
            h.body = [_Subst({selfp: ast.Name(id=cself, ctx=ast.Load())}, {}).visit(s) for s in h.body]
        fake = copy.copy(call)
        fake.func = ast.Name(id=meth.name, ctx=ast.Load())
        if not _bindable(h, fake):
            return False
    for (caller, blk, st, kind, call, cself) in sites:
        h = copy.deepcopy(meth if kind == 'return' else h1)
        h.args.args = h.args.args[1:]
        if selfp != cself:
            h.body = [_Subst({selfp: ast.Name(id=cself, ctx=ast.Load())}, {}).visit(s) for s in h.body]
        names = {x.id for x in ast.walk(caller) if isinstance(x, ast.Name)} | {a.arg for a in caller.args.args}
        new = _expand(h, call, kind, st, names)
        i = next(i for i, s_ in enumerate(blk) if s_ is st)
        blk[i:i + 1] = new
    cls.body = [f for f in cls.body if f is not meth] or [ast.Pass()]
    return True


def _owned_blocks(F):
    """statement lists of F itself, not those of defs/classes nested in it"""
    out = []
    stack = [F]
    while stack:
        n = stack.pop()
        for field in ('body', 'orelse', 'finalbody', 'handlers'):
            blk = getattr(n, field, None)
            if isinstance(blk, list) and blk and isinstance(blk[0], (ast.stmt, ast.ExceptHandler)):
                if isinstance(blk[0], ast.stmt):
                    out.append(blk)
                for st in blk:
                    if not isinstance(st, FuncTypes + (ast.ClassDef,)):
                        stack.append(st)
    return out


def _inline_closures(modules, baseline):
    """A local function that the reference tree does not have, and that is only ever CALLED (statement, assignment, return position or
    hoistable) by the function that defines it, is substituted back.  Captured names are read at call time either way, so the inlined
    body sees the same values; a closure that rebinds enclosing names (nonlocal) is left alone."""
    done = []

    def funcs(node, qual):
        for st in getattr(node, 'body', []):
            if isinstance(st, FuncTypes):
                yield st, qual + [st.name]
                yield from funcs(st, qual + [st.name])
            elif isinstance(st, ast.ClassDef):
                yield from funcs(st, qual + [st.name])
    for m in modules.values():
        for F, qual in list(funcs(m.tree, [])):
            for _round in range(3):
                changed = False
                for blk in _owned_blocks(F):
                    for h in [st for st in blk if isinstance(st, ast.FunctionDef)]:
                        hid = '%s:%s.%s' % (m.name, '.'.join(qual), h.name)
                        if hid in baseline or not _shape_ok(h):
                            continue
                        # defaults are evaluated where the def stands, the inlined body where the call stands: only constants are the same at both
                        if not all(d is None or isinstance(d, ast.Constant) for d in list(h.args.defaults) + list(h.args.kw_defaults)):
                            continue
                        if any(isinstance(c, ast.Call) and isinstance(c.func, ast.Name) and c.func.id == h.name for c in ast.walk(h)):
                            continue
                        sites, call_funcs = [], set()
                        for blk2 in _owned_blocks(F):
                            for st in blk2:
                                if isinstance(st, FuncTypes + (ast.ClassDef,)):
                                    continue
                                for c in [c for c in _stmt_exprs(st) if isinstance(c, ast.Call) and isinstance(c.func, ast.Name) and c.func.id == h.name]:
                                    call_funcs.add(id(c.func))
                                    kind = None
                                    if isinstance(st, ast.Expr) and st.value is c:
                                        kind = 'expr'
                                    elif isinstance(st, ast.Assign) and st.value is c:
                                        kind = 'assign'
                                    elif isinstance(st, ast.Return) and st.value is c:
                                        kind = 'return'
                                    elif _is_expr_helper(h) and all(_simple_arg(a) for a in c.args) and all(_simple_arg(k.value) for k in c.keywords):
                                        kind = 'exprsub'
                                    elif isinstance(st, (ast.Return, ast.Assign, ast.Expr, ast.AugAssign)) and _hoistable(st, c, h.name):
                                        kind = 'embedded'
                                    sites.append((blk2, st, kind, c))
                        # any other mention of the name in F (passed around, called from another closure, rebound) disables inlining
                        if any(isinstance(n, ast.Name) and n.id == h.name and id(n) not in call_funcs and not _inside(n, h) for n in ast.walk(F)):
                            continue
                        if not sites:
                            continue
                        single = _single_tail_return(h)
                        h1 = h
                        if not single and any(kind not in ('return', 'exprsub') for (_b, _s, kind, _c) in sites):
                            h1 = _single_exit_copy(h)
                            if h1 is None:
                                continue
                            single = True
                        if not all(kind is not None and (single or kind in ('return', 'exprsub')) for (_b, _s, kind, _c) in sites):
                            continue
                        if not all(_bindable(h, c) for (_b, _s, _k, c) in sites):
                            continue
                        names = {x.id for x in ast.walk(F) if isinstance(x, ast.Name) and not _inside(x, h)} | {a.arg for a in F.args.args + F.args.kwonlyargs}
                        for (blk2, st, kind, c) in sites:
                            newst = _expand(h if kind == 'return' else h1, c, kind, st, names)
                            i = next(i for i, s_ in enumerate(blk2) if s_ is st)
                            blk2[i:i + 1] = newst
                        blk[:] = [s_ for s_ in blk if s_ is not h] or [ast.copy_location(ast.Pass(), h)]
                        done.append(hid)
                        changed = True
                        break
                    if changed:
                        break
                if not changed:
                    break
    return done


def _find_sites(modules, hm, h):
    """[(module, block, stmt, kind, call)] for every use of h; kind None = not an inlinable position.  [] if h is used as a value."""
    out = []
    for m in modules.values():
        visible = m is hm
        if not visible:
            for st in ast.walk(m.tree):
                if isinstance(st, ast.ImportFrom) and any((a.asname or a.name) == h.name and a.name == h.name for a in st.names):
                    mod = st.module or ''
                    if hm.name.endswith(mod.lstrip('.')) or mod.split('.')[-1] == hm.name.split('.')[-1]:
                        visible = True
        if not visible:
            # attribute use  utils.H(...)  -> treat as a value use (not inlined)
            for n in ast.walk(m.tree):
                if isinstance(n, ast.Attribute) and n.attr == h.name and isinstance(n.value, ast.Name) and n.value.id == hm.name.split('.')[-1]:
                    return []
            continue
        call_funcs = set()
        for blk in _blocks(m.tree):
            for st in blk:
                if isinstance(st, FuncTypes + (ast.ClassDef,)) or st is h:
                    continue
                calls = [c for c in _stmt_exprs(st) if isinstance(c, ast.Call) and isinstance(c.func, ast.Name) and c.func.id == h.name]
                for c in calls:
                    call_funcs.add(id(c.func))
                    kind = None
                    if isinstance(st, ast.Expr) and st.value is c:
                        kind = 'expr'
                    elif isinstance(st, ast.Assign) and st.value is c:
                        kind = 'assign'
                    elif isinstance(st, ast.Return) and st.value is c:
                        kind = 'return'
                    elif _is_expr_helper(h) and all(_simple_arg(a) for a in c.args) and all(_simple_arg(k.value) for k in c.keywords):
                        kind = 'exprsub'
                    elif isinstance(st, (ast.Return, ast.Assign, ast.Expr, ast.AugAssign)) and _hoistable(st, c, h.name):
                        kind = 'embedded'
                    out.append((m, blk, st, kind, c))
        # any other reference (passed around, stored) disables inlining
        for n in ast.walk(m.tree):
            if isinstance(n, ast.Name) and n.id == h.name and isinstance(n.ctx, ast.Load) and id(n) not in call_funcs:
                if not _inside(n, h):
                    return []
    return out


def _eliminate_returns(stmts, res):
    """Rewrite a guard-clause body (returns only as the last statement of possibly nested if-arms, never inside a loop, try or with) into a
    single-exit body that assigns `res` instead.  Returns the new statement list, or None when the shape is not that simple."""
    out = []
    for i, st in enumerate(stmts):
        if isinstance(st, ast.Return):
            out.append(ast.copy_location(ast.Assign(targets=[ast.Name(id=res, ctx=ast.Store())], value=st.value or ast.Constant(value=None)), st))
            return out
        if isinstance(st, ast.If) and any(isinstance(x, ast.Return) for x in ast.walk(st)):
            rest = stmts[i + 1:]
            body_ret = st.body and isinstance(st.body[-1], (ast.Return, ast.Raise)) or _all_paths_leave(st.body)
            b = _eliminate_returns(st.body, res)
            if b is None:
                return None
            if _all_paths_leave(st.body):
                e = _eliminate_returns(list(st.orelse) + rest, res)
                if e is None:
                    return None
                out.append(ast.copy_location(ast.If(test=st.test, body=b, orelse=e), st))
                return out
            if st.orelse and _all_paths_leave(st.orelse):
                e = _eliminate_returns(st.orelse, res)
                b2 = _eliminate_returns(list(st.body) + rest, res)
                if e is None or b2 is None:
                    return None
                out.append(ast.copy_location(ast.If(test=st.test, body=b2, orelse=e), st))
                return out
            return None
        if isinstance(st, ast.Try) and i == len(stmts) - 1 and not st.finalbody and not st.orelse and any(isinstance(x, ast.Return) for x in ast.walk(st)):
            # a try in tail position: each of its blocks is a tail block of its own
            b = _eliminate_returns(st.body, res)
            hs = []
            for h_ in st.handlers:
                hb = _eliminate_returns(h_.body, res)
                if hb is None:
                    return None
                hs.append(ast.copy_location(ast.ExceptHandler(type=h_.type, name=h_.name, body=hb), h_))
            if b is None:
                return None
            out.append(ast.copy_location(ast.Try(body=b, handlers=hs, orelse=[], finalbody=[]), st))
            return out
        if isinstance(st, ast.With) and i == len(stmts) - 1 and any(isinstance(x, ast.Return) for x in ast.walk(st)):
            b = _eliminate_returns(st.body, res)
            if b is None:
                return None
            out.append(ast.copy_location(ast.With(items=st.items, body=b), st))
            return out
        if any(isinstance(x, ast.Return) for x in ast.walk(st)):
            return None         # a return inside a loop / a try or with that is not in tail position
        out.append(st)
    # fell off the end
    out.append(ast.Assign(targets=[ast.Name(id=res, ctx=ast.Store())], value=ast.Constant(value=None)))
    return out


def _all_paths_leave(stmts):
    if not stmts:
        return False
    last = stmts[-1]
    if isinstance(last, (ast.Return, ast.Raise)):
        return True
    if isinstance(last, ast.If) and last.orelse:
        return _all_paths_leave(last.body) and _all_paths_leave(last.orelse)
    return False


def _single_exit_copy(h):
    res = '_res__' + h.name.strip('_')
    h2 = copy.deepcopy(h)
    body = h2.body
    doc = []
    if body and isinstance(body[0], ast.Expr) and isinstance(body[0].value, ast.Constant) and isinstance(body[0].value.value, str):
        doc, body = body[:1], body[1:]
    nb = _eliminate_returns(body, res)
    if nb is None:
        return None
    nb.append(ast.Return(value=ast.Name(id=res, ctx=ast.Load())))
    h2.body = doc + nb
    for n in ast.walk(h2):
        if not hasattr(n, 'lineno'):
            ast.copy_location(n, h)
    ast.fix_missing_locations(h2)
    return h2


def _is_expr_helper(h):
    body = h.body
    if body and isinstance(body[0], ast.Expr) and isinstance(body[0].value, ast.Constant) and isinstance(body[0].value.value, str):
        body = body[1:]
    return len(body) == 1 and isinstance(body[0], ast.Return) and body[0].value is not None and \
        not any(isinstance(x, (ast.NamedExpr, ast.Lambda, ast.ListComp, ast.SetComp, ast.DictComp, ast.GeneratorExp)) for x in ast.walk(body[0].value))


def _hoistable(st, call, hname=None):
    """The call sits inside a larger expression of a simple statement and nothing with a side effect is evaluated before it: every other
    call in the statement is an ancestor of it (evaluated after its arguments) or comes later in the source."""
    anc = set()

    def find(node, path):
        if node is call:
            anc.update(id(p) for p in path)
            return True
        for ch in ast.iter_child_nodes(node):
            if not isinstance(ch, ast.stmt) and find(ch, path + [node]):
                return True
        return False
    anc_nodes = []

    def find2(node, path):
        if node is call:
            anc_nodes.extend(path)
            return True
        for ch in ast.iter_child_nodes(node):
            if not isinstance(ch, ast.stmt) and find2(ch, path + [node]):
                return True
        return False
    if not find(st, []):
        return False
    find2(st, [])
    # an ancestor that evaluates the call conditionally or repeatedly forbids hoisting
    if any(isinstance(a, (ast.IfExp, ast.BoolOp, ast.Lambda, ast.ListComp, ast.SetComp, ast.DictComp, ast.GeneratorExp, ast.comprehension)) for a in anc_nodes):
        return False
    pos = (call.lineno, call.col_offset)
    for n in _stmt_exprs(st):
        if n is call or id(n) in anc:
            continue
        if isinstance(n, (ast.Call, ast.Await, ast.Yield, ast.YieldFrom, ast.NamedExpr, ast.Lambda, ast.ListComp, ast.SetComp, ast.DictComp, ast.GeneratorExp,
                          ast.IfExp, ast.BoolOp)):
            if isinstance(n, (ast.IfExp, ast.BoolOp, ast.Lambda, ast.ListComp, ast.SetComp, ast.DictComp, ast.GeneratorExp)):
                if any(x is call for x in ast.walk(n)):
                    return False        # conditionally / repeatedly evaluated: hoisting would change that
                continue
            if (n.lineno, n.col_offset) < pos and not any(x is call for x in ast.walk(n)):
                if isinstance(n, ast.Call) and isinstance(n.func, ast.Name) and n.func.id == hname:
                    continue        # an earlier call of the same helper is hoisted first, in source order
                return False
    return True


def _inside(node, fn):
    return any(x is node for x in ast.walk(fn))


def _stmt_exprs(st):
    """expression nodes belonging to this statement itself (not to nested statements)"""
    stack = [v for f, v in ast.iter_fields(st)]
    while stack:
        v = stack.pop()
        if isinstance(v, list):
            stack.extend(v)
        elif isinstance(v, ast.stmt) or isinstance(v, ast.ExceptHandler):
            continue
        elif isinstance(v, ast.AST):
            yield v
            stack.extend(val for f, val in ast.iter_fields(v))


def _bindable(h, call):
    if any(isinstance(a, ast.Starred) for a in call.args) or any(k.arg is None for k in call.keywords):
        return False
    params = [a.arg for a in h.args.args] + [a.arg for a in h.args.kwonlyargs]
    if len(call.args) > len(h.args.args):
        return False
    given = set(params[:len(call.args)]) | {k.arg for k in call.keywords}
    if not {k.arg for k in call.keywords} <= set(params):
        return False
    nd = len(h.args.defaults)
    with_default = set(a.arg for a in h.args.args[len(h.args.args) - nd:]) | {a.arg for a, d in zip(h.args.kwonlyargs, h.args.kw_defaults) if d is not None}
    return set(params) <= given | with_default


def _enclosing_names(m, st):
    """names used anywhere in the function (or module) that contains st: collision set for helper locals"""
    best = None
    for n in ast.walk(m.tree):
        if isinstance(n, FuncTypes) and any(x is st for x in ast.walk(n)):
            best = n            # innermost wins because ast.walk is breadth first and nested defs come later
    scope = best if best is not None else m.tree
    return {x.id for x in ast.walk(scope) if isinstance(x, ast.Name)} | ({a.arg for a in scope.args.args} if best is not None else set())


def _expand(h, call, kind, st, caller_names):
    params = [a.arg for a in h.args.args]
    binding = {}
    for p, a in zip(params, call.args):
        binding[p] = a
    for k in call.keywords:
        binding[k.arg] = k.value
    nd = len(h.args.defaults)
    for a, d in zip(h.args.args[len(h.args.args) - nd:], h.args.defaults):
        binding.setdefault(a.arg, d)
    for a, d in zip(h.args.kwonlyargs, h.args.kw_defaults):
        if d is not None:
            binding.setdefault(a.arg, d)
    assigned = _bound_names(h) - _comp_scoped(h)
    mapping, pre, rename = {}, [], {}
    allp = params + [a.arg for a in h.args.kwonlyargs]
    for p in allp:
        arg = binding[p]
        if _simple_arg(arg) and p not in assigned:
            mapping[p] = arg
        else:
            newp = p if p not in caller_names else p + '__' + h.name.strip('_')
            rename[p] = newp
            pre.append(ast.copy_location(ast.Assign(targets=[ast.Name(id=newp, ctx=ast.Store())], value=copy.deepcopy(arg)), st))
    for nm in assigned - set(allp):
        if nm in caller_names:
            rename[nm] = nm + '__' + h.name.strip('_')
    # `t = H(...)` where H ends in `return v` (v a local of H): let v BE t, so that no alias assignment separates the construction of the
    # value from the name the caller knows it by
    direct = None
    if kind == 'assign' and len(st.targets) == 1 and isinstance(st.targets[0], ast.Name) and h.body and isinstance(h.body[-1], ast.Return) and \
            isinstance(h.body[-1].value, ast.Name) and h.body[-1].value.id in assigned - set(allp):
        t, v = st.targets[0].id, h.body[-1].value.id
        arg_names = {x.id for a in binding.values() for x in ast.walk(a) if isinstance(x, ast.Name)}
        if t not in arg_names and (t == v or t not in assigned):
            rename[v] = t
            direct = t
    body = [copy.deepcopy(s) for s in h.body]
    if body and isinstance(body[0], ast.Expr) and isinstance(body[0].value, ast.Constant) and isinstance(body[0].value.value, str):
        body = body[1:]
    sub = _Subst(mapping, rename)
    body = [sub.visit(s) for s in body]
    out = pre + body
    if kind == 'exprsub':
        val = out[-1].value

        class _R2(ast.NodeTransformer):
            def visit_Call(self, n):
                if n is call:
                    return ast.copy_location(copy.deepcopy(val), n)
                self.generic_visit(n)
                return n

            def generic_visit(self, node):
                # do not descend into nested statements: only this statement's own expressions
                for field, old_value in ast.iter_fields(node):
                    if isinstance(old_value, list):
                        new_values = []
                        for value in old_value:
                            if isinstance(value, ast.AST) and not isinstance(value, (ast.stmt, ast.ExceptHandler)):
                                value = self.visit(value)
                            new_values.append(value)
                        old_value[:] = new_values
                    elif isinstance(old_value, ast.AST) and not isinstance(old_value, (ast.stmt, ast.ExceptHandler)):
                        setattr(node, field, self.visit(old_value))
                return node
        _R2().generic_visit(st)
        ast.fix_missing_locations(st)
        return [st]
    if kind == 'embedded':
        ret = out[-1] if out and isinstance(out[-1], ast.Return) else None
        if ret is not None:
            out = out[:-1]
        val = ret.value if ret is not None and ret.value is not None else ast.Constant(value=None)
        if not isinstance(val, (ast.Name, ast.Constant)):
            tmp = '_ret__' + h.name.strip('_')
            out.append(ast.copy_location(ast.Assign(targets=[ast.Name(id=tmp, ctx=ast.Store())], value=val), st))
            val = ast.Name(id=tmp, ctx=ast.Load())

        class _R(ast.NodeTransformer):
            def visit_Call(self, n):
                if n is call:
                    return ast.copy_location(copy.deepcopy(val), n)
                self.generic_visit(n)
                return n
        out.append(_R().visit(st))
    elif kind == 'return':
        # the helper's own returns are the caller's returns; a helper that falls off its end returns None
        if not out or not isinstance(out[-1], (ast.Return, ast.Raise)):
            out.append(ast.copy_location(ast.Return(value=ast.Constant(value=None)), st))
    else:
        ret = out[-1] if out and isinstance(out[-1], ast.Return) else None
        if ret is not None:
            out = out[:-1]
        val = ret.value if ret is not None and ret.value is not None else ast.Constant(value=None)
        if kind == 'assign':
            if not (direct is not None and isinstance(val, ast.Name) and val.id == direct):
                out.append(ast.copy_location(ast.Assign(targets=st.targets, value=val), st))
        elif ret is not None and not isinstance(val, (ast.Name, ast.Constant)):
            out.append(ast.copy_location(ast.Expr(value=val), st))
    if not out:
        out = [ast.copy_location(ast.Pass(), st)]
    # inlined statements take the line of the call they replace: rules that compare positions then see them where they execute
    ln = getattr(st, 'lineno', 1)
    for s in out:
        for x in ast.walk(s):
            if hasattr(x, 'lineno'):
                x.lineno = ln
                if hasattr(x, 'end_lineno'):
                    x.end_lineno = ln
        ast.fix_missing_locations(s)
    return out


def _share_imports(hm, m2, h):
    """Names the helper body takes from its own module must resolve in the caller's module too: copy the import statements that bind them
    (analysis-only; nothing is written back)."""
    used = {x.id for x in ast.walk(h) if isinstance(x, ast.Name)}
    have = set()
    for st in m2.tree.body:
        if isinstance(st, (ast.Import, ast.ImportFrom)):
            have |= {(a.asname or a.name).split('.')[0] for a in st.names}
        elif isinstance(st, FuncTypes + (ast.ClassDef,)):
            have.add(st.name)
        elif isinstance(st, ast.Assign):
            have |= {t.id for t in st.targets if isinstance(t, ast.Name)}
    extra = []
    for st in hm.tree.body:
        if isinstance(st, ast.Import):
            for a in st.names:
                nm = (a.asname or a.name).split('.')[0]
                if nm in used and nm not in have:
                    extra.append(ast.Import(names=[a]))
                    have.add(nm)
        elif isinstance(st, ast.ImportFrom):
            for a in st.names:
                nm = a.asname or a.name
                if nm in used and nm not in have:
                    level = st.level
                    module = st.module
                    if level:
                        # make the relative import absolute from the helper's package
                        parts = hm.name.split('.')[:-1]
                        if level > 1:
                            parts = parts[:len(parts) - (level - 1)]
                        module = '.'.join(parts + ([st.module] if st.module else []))
                        level = 0
                    extra.append(ast.ImportFrom(module=module, names=[a], level=level))
                    have.add(nm)
        elif isinstance(st, (ast.FunctionDef, ast.ClassDef)) and st.name in used and st.name not in have and st is not h:
            extra.append(ast.ImportFrom(module=hm.name, names=[ast.alias(name=st.name, asname=None)], level=0))
            have.add(st.name)
        elif isinstance(st, ast.Assign):
            for t in st.targets:
                if isinstance(t, ast.Name) and t.id in used and t.id not in have:
                    extra.append(ast.ImportFrom(module=hm.name, names=[ast.alias(name=t.id, asname=None)], level=0))
                    have.add(t.id)
    for e in extra:
        ast.fix_missing_locations(e)
    m2.tree.body = extra + m2.tree.body
