"""Statement-level control-flow graph for one function, with branch-edge nodes.

Nodes are ast statements (simple statements, and the *header* of compound ones), plus
synthetic nodes:
  ENTRY, EXIT (normal completion: return / fall off the end), RAISE (exception leaves),
  Branch(stmt, label): the edge leaving a test.  label True/False for if/while tests,
  'iter'/'done' for for-loops, ('except', i) for entering handler i of a try.

Dominance / must-pass-through questions are answered by reachability in the graph with
some nodes removed (a dominates b  <=>  b unreachable from ENTRY once a is removed).

Implicit exceptions are modelled only inside ``try`` bodies (every statement of the body
may jump to every handler, and to the finally block); explicit ``raise`` goes to the
innermost handlers or RAISE.  ``assert`` may fall through or raise.
"""
import ast


class Special:
    def __init__(self, name):
        self.name = name

    def __repr__(self):
        return self.name


class Branch:
    def __init__(self, stmt, label):
        self.stmt = stmt
        self.label = label

    def __repr__(self):
        return 'Branch(%s@%s,%r)' % (type(self.stmt).__name__, getattr(self.stmt, 'lineno', '?'), self.label)


class CFG:
    def __init__(self, func):
        self.func = func
        self.ENTRY = Special('ENTRY')
        self.EXIT = Special('EXIT')
        self.RAISE = Special('RAISE')
        self.succ = {}
        self.branches = {}          # (stmt, label) -> Branch node
        self.nodes = []
        for n in (self.ENTRY, self.EXIT, self.RAISE):
            self._add(n)
        first = self._block(func.body, self.EXIT, _Ctx([self.RAISE]))
        self._edge(self.ENTRY, first)

    # ---------------------------------------------------------------- building
    def _add(self, n):
        if n not in self.succ:
            self.succ[n] = []
            self.nodes.append(n)

    def _edge(self, a, b):
        self._add(a)
        self._add(b)
        if b not in self.succ[a]:
            self.succ[a].append(b)

    def branch(self, stmt, label):
        k = (stmt, label)
        if k not in self.branches:
            self.branches[k] = Branch(stmt, label)
            self._add(self.branches[k])
        return self.branches[k]

    def _block(self, stmts, succ, ctx):
        """Wire a statement list; return its entry node (== succ for an empty list)."""
        nxt = succ
        for st in reversed(stmts):
            nxt = self._stmt(st, nxt, ctx)
        return nxt

    def _stmt(self, st, succ, ctx):
        self._add(st)
        if ctx.implicit:                 # implicit exception inside a try construct
            for h in ctx.exc:
                self._edge(st, h)
        ret = ctx.on_return if ctx.on_return is not None else self.EXIT
        if isinstance(st, ast.Return):
            self._edge(st, ret)
        elif isinstance(st, ast.Raise):
            for h in ctx.exc:
                self._edge(st, h)
        elif isinstance(st, ast.Assert):
            self._edge(st, succ)
            for h in ctx.exc:
                self._edge(st, h)
        elif isinstance(st, ast.If):
            t = self.branch(st, True)
            f = self.branch(st, False)
            self._edge(st, t)
            self._edge(st, f)
            self._edge(t, self._block(st.body, succ, ctx))
            self._edge(f, self._block(st.orelse, succ, ctx))
        elif isinstance(st, (ast.While, ast.For, ast.AsyncFor)):
            t = self.branch(st, True)
            f = self.branch(st, False)
            self._edge(st, t)
            self._edge(st, f)
            after = self._block(st.orelse, succ, ctx)
            inner = ctx.sub(brk=succ, cont=st)
            self._edge(t, self._block(st.body, st, inner))
            self._edge(f, after)
        elif isinstance(st, ast.Break):
            self._edge(st, ctx.brk)
        elif isinstance(st, ast.Continue):
            self._edge(st, ctx.cont)
        elif isinstance(st, (ast.With, ast.AsyncWith)):
            self._edge(st, self._block(st.body, succ, ctx))
        elif isinstance(st, ast.Try):
            if st.finalbody:
                fin_join = Special('finally-exit@%d' % st.lineno)
                self._add(fin_join)
                for t in [succ, ret] + list(ctx.exc):
                    self._edge(fin_join, t)
                fin_entry = self._block(st.finalbody, fin_join, ctx)
                after, inner_ret, exc_after = fin_entry, fin_entry, [fin_entry]
            else:
                after, inner_ret, exc_after = succ, ctx.on_return, list(ctx.exc)
            implicit_after = ctx.implicit or bool(st.finalbody)
            hctx = ctx.sub(on_return=inner_ret, exc=exc_after, implicit=implicit_after)
            hentries = []
            for i, h in enumerate(st.handlers):
                b = self.branch(st, ('except', i))
                self._edge(b, self._block(h.body, after, hctx))
                hentries.append(b)
            catches_all = any(
                h.type is None or (isinstance(h.type, ast.Name) and
                                   h.type.id in ('Exception', 'BaseException'))
                for h in st.handlers)
            body_exc = list(hentries) + ([] if catches_all else exc_after)
            bctx = ctx.sub(on_return=inner_ret, exc=body_exc, implicit=True)
            else_entry = self._block(st.orelse, after, hctx)
            self._edge(st, self._block(st.body, else_entry, bctx))
        else:
            self._edge(st, succ)
        return st

    # ---------------------------------------------------------------- queries
    def reachable(self, start, removed=()):
        removed = set(removed)
        seen = set()
        if start in removed:
            return seen
        stack = [start]
        while stack:
            n = stack.pop()
            if n in seen:
                continue
            seen.add(n)
            for s in self.succ.get(n, ()):
                if s not in removed and s not in seen:
                    stack.append(s)
        return seen

    def dominated_by(self, node, doms):
        """True iff every path ENTRY -> node passes through at least one node in doms."""
        doms = [d for d in doms if d is not None]
        if node in doms:
            return True
        return node not in self.reachable(self.ENTRY, removed=doms)

    def always_passes(self, start, through, end=None):
        """True iff every path start -> end (default EXIT) passes through a node in `through`."""
        end = self.EXIT if end is None else end
        return end not in self.reachable(start, removed=through)

    def live(self, node):
        return node in self.reachable(self.ENTRY)

    def stmts(self):
        return [n for n in self.nodes if isinstance(n, ast.stmt)]


class _Ctx:
    def __init__(self, exc, on_return=None, implicit=False, brk=None, cont=None):
        self.exc = list(exc)
        self.on_return = on_return
        self.implicit = implicit
        self.brk = brk
        self.cont = cont

    def sub(self, **kw):
        d = dict(exc=self.exc, on_return=self.on_return, implicit=self.implicit,
                 brk=self.brk, cont=self.cont)
        d.update(kw)
        return _Ctx(**d)


def cond_guards(cfg, stmt):
    """List of (test_expr, polarity) such that stmt executes only if test evaluated to polarity.

    Computed by branch-node dominance (works across else-if nesting and early exits):
    the Branch(if, True) node dominating stmt means test is true at stmt.
    """
    out = []
    for (s, label), b in cfg.branches.items():
        if isinstance(s, (ast.If, ast.While)) and label in (True, False):
            if b is not stmt and cfg.dominated_by(stmt, [b]):
                out.append((s.test, label))
    return out
