"""Common-prefix / common-suffix trimming: the two scans must not overlap.

An optimisation that pairs up equal items at both ends of two sequences before running the quadratic alignment counts a
head `h` and a tail `t`.  Both counters are bounded by min(len(a), len(b)), but the tail scan must stop where the head
scan ended (`t < n - h`): with `t < n` the two runs overlap whenever the sequences differ only by an item equal to its
neighbour (a duplicated line or cell), the same items are claimed twice, and the diff of two different documents comes out
empty.  The rule looks for the pattern -- a forward scan `while h < B and ...x[h]...: h += 1` and a backward scan
`while t < B' and ...x[-1 - t]...: t += 1` in one function -- and requires B' to depend on h.
"""
import ast

from .core import walk_no_nested
from .util import local_defs


def _counter_loops(fn):
    out = []
    for w in walk_no_nested(fn):
        if not isinstance(w, ast.While):
            continue
        incs = [s.target.id for s in w.body if isinstance(s, ast.AugAssign) and isinstance(s.op, ast.Add) and isinstance(s.target, ast.Name)
                and isinstance(s.value, ast.Constant) and s.value.value == 1]
        for c in incs:
            bound = None
            for cmp_ in ast.walk(w.test):
                if isinstance(cmp_, ast.Compare) and len(cmp_.ops) == 1 and isinstance(cmp_.left, ast.Name) and cmp_.left.id == c and \
                        isinstance(cmp_.ops[0], (ast.Lt, ast.LtE)):
                    bound = cmp_.comparators[0]
            if bound is None:
                continue
            fwd = back = False
            for sub in ast.walk(w.test):
                if isinstance(sub, ast.Subscript) and not isinstance(sub.slice, ast.Slice):
                    sl = sub.slice
                    if isinstance(sl, ast.Name) and sl.id == c:
                        fwd = True
                    elif any(isinstance(x, ast.Name) and x.id == c for x in ast.walk(sl)) and \
                            (any(isinstance(x, ast.UnaryOp) and isinstance(x.op, ast.USub) for x in ast.walk(sl)) or
                             any(isinstance(x, ast.BinOp) and isinstance(x.op, ast.Sub) for x in ast.walk(sl))):
                        back = True
            if fwd or back:
                out.append((w, c, bound, 'head' if fwd and not back else 'tail'))
    return out


def check_trims(ctx, rule, module_prefixes):
    repo = ctx.repo
    n_fn = n_pat = 0
    for fid, fn in sorted(repo.functions.items()):
        mod = fid.split(':')[0]
        if not any(mod == p or mod.startswith(p) for p in module_prefixes) or isinstance(fn, ast.Lambda):
            continue
        n_fn += 1
        loops = _counter_loops(fn)
        heads = [l for l in loops if l[3] == 'head']
        tails = [l for l in loops if l[3] == 'tail']
        if not (heads and tails):
            continue
        defs = local_defs(fn)
        for w, c, bound, kind in tails:
            n_pat += 1
            hnames = {h[1] for h in heads}

            def mentions(e, seen=()):
                for x in ast.walk(e):
                    if isinstance(x, ast.Name):
                        if x.id in hnames:
                            return True
                        if x.id not in seen:
                            for v, k, st in defs.get(x.id, []):
                                if k == 'assign' and st.lineno > min(h[0].lineno for h in heads) and mentions(v, seen + (x.id,)):
                                    return True
                return False
            ok = mentions(bound)
            ctx.inst(rule, fid, 'tail scan `while %s < %s`' % (c, ast.unparse(bound)), ok,
                     'the tail scan stops where the head scan (%s) ended' % sorted(hnames) if ok else
                     'the tail scan is bounded by %s, which does not take the head count %s into account: head and tail overlap when the sequences differ by an item equal '
                     'to its neighbour, the shared items are claimed twice and the diff of two different documents is empty' % (ast.unparse(bound), sorted(hnames)), w)
    ctx.inst(rule, ','.join(module_prefixes), '%d function(s) scanned, %d head/tail trimming pattern(s)' % (n_fn, n_pat), True,
             'every tail scan is bounded by the head count' if n_pat else 'no common-prefix/suffix trimming in these modules', None, nontrivial=False)
