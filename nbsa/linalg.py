"""Tiny linear normaliser for index arithmetic cross-checks: expr -> {term: coeff} (term '' = constant)."""
import ast


def lin(e, env=None, depth=0):
    """Return dict term->int coefficient, or None if e is not linear over +,-,unary -, ints, names, len()/attribute atoms."""
    env = env or {}
    if isinstance(e, ast.Constant) and isinstance(e.value, int) and not isinstance(e.value, bool):
        return {'': e.value} if e.value else {}
    if isinstance(e, ast.UnaryOp) and isinstance(e.op, ast.USub):
        v = lin(e.operand, env, depth)
        return None if v is None else {k: -c for k, c in v.items()}
    if isinstance(e, ast.BinOp) and isinstance(e.op, (ast.Add, ast.Sub)):
        l, r = lin(e.left, env, depth), lin(e.right, env, depth)
        if l is None or r is None:
            return None
        out = dict(l)
        sign = 1 if isinstance(e.op, ast.Add) else -1
        for k, c in r.items():
            out[k] = out.get(k, 0) + sign * c
        return {k: c for k, c in out.items() if c}
    if isinstance(e, ast.Name) and e.id in env and depth < 4:
        vals = env[e.id]
        if len(vals) == 1:
            v = lin(vals[0], env, depth + 1)
            if v is not None:
                return v
    if isinstance(e, (ast.Name, ast.Attribute, ast.Call, ast.Subscript)):
        return {' '.join(ast.unparse(e).split()): 1}
    return None


def eq(a, b):
    return a is not None and b is not None and {k: c for k, c in a.items() if c} == {k: c for k, c in b.items() if c}


def sub(a, b):
    if a is None or b is None:
        return None
    out = dict(a)
    for k, c in b.items():
        out[k] = out.get(k, 0) - c
    return {k: c for k, c in out.items() if c}


def fmt(a):
    if a is None:
        return '?'
    if not a:
        return '0'
    return ' '.join('%+d*%s' % (c, k or '1') for k, c in sorted(a.items()))


def seq_len(e, env=None):
    """Symbolic length of a list-valued expression: literal list, slice X[a:b], name (-> len(name))."""
    env = env or {}
    if e is None or (isinstance(e, ast.Constant) and e.value is None):
        return {}
    if isinstance(e, (ast.List, ast.Tuple)):
        return {'': len(e.elts)} if e.elts else {}
    if isinstance(e, ast.Subscript) and isinstance(e.slice, ast.Slice) and e.slice.lower is not None and e.slice.upper is not None and e.slice.step is None:
        return sub(lin(e.slice.upper, env), lin(e.slice.lower, env))
    if isinstance(e, ast.Name) and e.id in env:
        vals = env[e.id]
        lens = [seq_len(v, env) for v in vals]
        if lens and all(eq(l, lens[0]) for l in lens):
            # all definitions have the same symbolic length only if trivially so; otherwise keep it opaque
            if len(vals) == 1:
                return lens[0]
        return {'len(%s)' % e.id: 1}
    if isinstance(e, (ast.Name, ast.Attribute)):
        return {'len(%s)' % ' '.join(ast.unparse(e).split()): 1}
    return None
