"""Mutants (must fire) and benign twins (must stay silent) for the rule-sensitivity self-test."""
from .selftest import Variant

VARIANTS = []


def M(prop, name, file, old, new, rule, where=None, count=1, edits=None):
    VARIANTS.append(Variant(prop, name, 'mutant', file, old, new, rule, where, count, edits))


def T(prop, name, file, old, new, count=1, edits=None):
    VARIANTS.append(Variant(prop, name, 'twin', file, old, new, None, None, count, edits))


UT = 'nbdime/utils.py'
GF = 'nbdime/gitfiles.py'
GEN = 'nbdime/diffing/generic.py'
NBD = 'nbdime/diffing/notebooks.py'
MG = 'nbdime/merging/generic.py'
DEC = 'nbdime/merging/decisions.py'
STR = 'nbdime/merging/strategies.py'
MNB = 'nbdime/merging/notebooks.py'
PP = 'nbdime/prettyprint.py'
SRV = 'nbdime/webapp/nbdimeserver.py'
APP = 'nbdime/nbmergeapp.py'
DRV = 'nbdime/vcs/git/mergedriver.py'
DDR = 'nbdime/vcs/git/diffdriver.py'
DT = 'nbdime/vcs/git/difftool.py'
MT = 'nbdime/vcs/git/mergetool.py'
MAIN = 'nbdime/__main__.py'
ARGS = 'nbdime/args.py'
CFGPY = 'nbdime/config.py'
PATCH = 'nbdime/patching.py'
DU = 'nbdime/diff_utils.py'
DF = 'nbdime/diff_format.py'

# ------------------------------------------------------------------------------------------ C17
M('C17', 'pushd-saves-curdir', UT, 'old = os.getcwd()', 'old = os.curdir', 'R17.1')
M('C17', 'pushd-restore-outside-finally', UT,
  '    try:\n        os.chdir(path)\n        yield\n    finally:\n        os.chdir(old)',
  '    os.chdir(path)\n    yield\n    os.chdir(old)', 'R17.1')
M('C17', 'pushd-save-after-chdir', UT,
  '    old = os.getcwd()\n    try:\n        os.chdir(path)\n        yield',
  '    try:\n        os.chdir(path)\n        old = os.getcwd()\n        yield', 'R17.1')
M('C17', 'bare-chdir-in-changed-notebooks', GF,
  '    repo, popped = get_repo(repo_dir or os.curdir)\n    if repo_dir is None:',
  '    repo, popped = get_repo(repo_dir or os.curdir)\n    os.chdir(repo.working_tree_dir)\n    if repo_dir is None:', 'R17.1')
M('C17', 'drop-continue-for-b-side', GF,
  '        if fb is None:\n            continue\n', '        if fb is None:\n            pass\n', 'R17.2')
M('C17', 'missing-blob-returns-none', GF,
  "            # added. Workaround for GitPython issue #749.\n            return EXPLICIT_MISSING_FILE",
  "            # added. Workaround for GitPython issue #749.\n            return None", 'R17.2')
M('C17', 'skip-by-extra-filter', GF,
  '        fa = _get_diff_entry_stream(\n            entry.a_path, entry.a_blob, ref_base, repo_dir)',
  '        if entry.renamed_file:\n            continue\n        fa = _get_diff_entry_stream(\n            entry.a_path, entry.a_blob, ref_base, repo_dir)', 'R17.2')
M('C17', 'mixed-sides', GF, 'entry.b_path, entry.b_blob, ref_remote, repo_dir', 'entry.b_path, entry.a_blob, ref_remote, repo_dir', 'R17.2')
M('C17', 'paths-not-forwarded', GF, 'diff = tree_base.diff(tree_remote, paths)', 'diff = tree_base.diff(tree_remote)', 'R17.3')
M('C17', 'prefix-twice', GF,
  '        paths = [os.path.join(*(popped + (p,))) for p in paths]\n',
  '        paths = [os.path.join(*(popped + (p,))) for p in paths]\n        paths = [os.path.join(*(popped + (p,))) for p in paths]\n', 'R17.3')
M('C17', 'is-gitref-drops-null-file-test', GF, '        candidate != EXPLICIT_MISSING_FILE and\n', '', 'R17.4')
M('C17', 'ipynb-filter-inverted', GF, "if not path.endswith('.ipynb'):", "if path.endswith('.ipynb'):", 'R17.2')
T('C17', 'twin-rename-old', UT, 'old = os.getcwd()\n    try:\n        os.chdir(path)\n        yield\n    finally:\n        os.chdir(old)',
  'previous = os.getcwd()\n    try:\n        os.chdir(path)\n        yield\n    finally:\n        os.chdir(previous)')
T('C17', 'twin-skip-both-in-one-helper-order', GF,
  '        if fa is None:\n            continue\n', '        if fa is None:\n            # not a notebook\n            continue\n')
T('C17', 'twin-getcwd-via-abspath', UT, 'old = os.getcwd()', 'old = os.path.abspath(os.getcwd())')

# ------------------------------------------------------------------------------------------ C18
M('C18', 'mergetool-unset-unconditional', MT,
  "        if tool == 'nbdime':\n            try:\n                check_call(cmd + ['--unset', 'merge.tool'])\n            except CalledProcessError:\n                # already unset\n                pass",
  "        try:\n            check_call(cmd + ['--unset', 'merge.tool'])\n        except CalledProcessError:\n            pass", 'R18.2')
M('C18', 'difftool-unset-unconditional', DT, "        if tool == 'nbdime':\n", "        if tool:\n", 'R18.2')
M('C18', 'mergetool-default-without-flag', MT,
  "    if set_default:\n        # Set default tool to webapp\n        check_call(cmd + ['merge.tool', 'nbdime'])",
  "    check_call(cmd + ['merge.tool', 'nbdime'])", 'R18.1')
M('C18', 'enable-writes-foreign-key', DDR,
  "    gitattributes = locate_gitattributes(scope)\n    if gitattributes is None:\n        assert scope is None, \"No gitattributes found for scope: %s\" % scope\n        print(\"No .git directory in %s, skipping git attributes\" % os.curdir, file=sys.stderr)\n        return\n\n    if os.path.exists(gitattributes):\n        with io.open(gitattributes, encoding=\"utf8\") as f:\n",
  "    check_call(cmd + ['core.attributesfile', '~/.gitattributes'])\n    gitattributes = locate_gitattributes(scope)\n    if gitattributes is None:\n        assert scope is None, \"No gitattributes found for scope: %s\" % scope\n        print(\"No .git directory in %s, skipping git attributes\" % os.curdir, file=sys.stderr)\n        return\n\n    if os.path.exists(gitattributes):\n        with io.open(gitattributes, encoding=\"utf8\") as f:\n", 'R18.1')
M('C18', 'attributes-mode-w', DRV, "io.open(gitattributes, 'a', encoding=\"utf8\")", "io.open(gitattributes, 'w', encoding=\"utf8\")", 'R18.4')
M('C18', 'attributes-wrong-marker-tested', DDR, "            if any('diff=jupyternotebook' in line.split()", "            if any('nbdime' in line.split()", 'R18.4')
M('C18', 'attributes-marker-substring-test', DDR, "            if any('diff=jupyternotebook' in line.split()\n                   for line in f.read().splitlines()\n                   if not line.lstrip().startswith('#')):", "            if 'diff=jupyternotebook' in f.read():", 'R18.4')
M('C18', 'attributes-two-lines', DRV, "f.write(u'\\n*.ipynb\\tmerge=jupyternotebook\\n')",
  "f.write(u'\\n*.ipynb\\tmerge=jupyternotebook\\n*.ipynb\\tdiff=jupyternotebook\\n')", 'R18.4')
M('C18', 'attributes-append-without-test', DDR,
  "                   if not line.lstrip().startswith('#')):\n                # already written, nothing to do\n                return",
  "                   if not line.lstrip().startswith('#')):\n                # already written\n                pass", 'R18.4')
M('C18', 'disable-removes-wrong-section', DRV, "'--remove-section', 'merge.jupyternotebook'", "'--remove-section', 'merge'", 'R18.2')
M('C18', 'driver-section-mismatch', DDR, "'--remove-section', 'diff.jupyternotebook'", "'--remove-section', 'difftool.nbdime'", 'R18.3')
M('C18', 'config-git-skips-mergetool', MAIN, "            diff_tool(args) or\n            merge_tool(args)\n", "            diff_tool(args)\n", 'R18.5')
M('C18', 'enable-uses-add', DRV, "check_call(cmd + ['merge.jupyternotebook.name', 'jupyter notebook merge driver'])",
  "check_call(cmd + ['--add', 'merge.jupyternotebook.name', 'jupyter notebook merge driver'])", 'R18.1')
T('C18', 'twin-reorder-enable-writes', MT,
  "    check_call(cmd + ['mergetool.nbdime.cmd', 'git-nbmergetool merge \"$BASE\" \"$LOCAL\" \"$REMOTE\" \"$MERGED\"'])\n\n    # Common setting:\n    check_call(cmd + ['mergetool.prompt', 'false'])\n",
  "    # Common setting:\n    check_call(cmd + ['mergetool.prompt', 'false'])\n\n    check_call(cmd + ['mergetool.nbdime.cmd', 'git-nbmergetool merge \"$BASE\" \"$LOCAL\" \"$REMOTE\" \"$MERGED\"'])\n")
T('C18', 'twin-elif-set-default', DT, "    if set_default:\n        check_call(cmd + ['diff.guitool', 'nbdime'])",
  "    if not set_default:\n        pass\n    else:\n        check_call(cmd + ['diff.guitool', 'nbdime'])")
T('C18', 'twin-compare-reversed', MT, "if tool == 'nbdime':", "if 'nbdime' == tool:")

# ------------------------------------------------------------------------------------------ C12
M('C12', 'defaultdict2-stores-on-lookup', UT,
  "            return self.default_values[key]\n        except KeyError:\n            if self.default_factory is None:\n                raise KeyError(key)\n            return self.default_factory()",
  "            v = self.default_values[key]\n            self[key] = v\n            return v\n        except KeyError:\n            return super(defaultdict2, self).__missing__(key)", 'R12.1')
M('C12', 'module-cache-keyed-by-id', 'nbdime/diffing/snakes.py',
  "def compute_snakes(A, B, compare, rect=None):\n    if rect is None:",
  "_snake_cache = {}\n\n\ndef compute_snakes(A, B, compare, rect=None):\n    _snake_cache[(id(A), id(B))] = rect\n    if rect is None:", 'R12.1')
M('C12', 'predicate-appends-to-module-list', NBD,
  "def compare_cell_by_ids(x, y):\n    \"\"\"Compare cells x,y strictly using cell IDs\"\"\"\n",
  "_seen_ids = []\n\n\ndef compare_cell_by_ids(x, y):\n    \"\"\"Compare cells x,y strictly using cell IDs\"\"\"\n    _seen_ids.append(x.get('id'))\n", 'R12.1')
M('C12', 'diff-notebooks-configures-targets', NBD,
  "        raise TypeError(\"Expected inputs to be dicts, got %r and %r\" % (a, b))\n    return diff(a, b, path=\"\", config=notebook_config)",
  "        raise TypeError(\"Expected inputs to be dicts, got %r and %r\" % (a, b))\n    set_notebook_diff_targets()\n    return diff(a, b, path=\"\", config=notebook_config)", 'R12.5')
M('C12', 'recursion-flag-no-finally', MG,
  "            try:\n                decisions = _merge_lists(\n                    base_lines, local_diff, remote_diff,\n                    path, parent_decisions, strategies)\n            finally:\n                # Ensure recursion stops even in case of exceptions\n                _merge_strings.recursion = False",
  "            decisions = _merge_lists(\n                base_lines, local_diff, remote_diff,\n                path, parent_decisions, strategies)\n            _merge_strings.recursion = False", 'R12.2')
M('C12', 'cached-fn-reads-rebindable-global', NBD,
  "    shortlen = 10  # TODO: Add this to configuration framework\n",
  "    shortlen = SHORTLEN\n", 'R12.3',
  edits=[(NBD, "STREAM_MAX_COMPARE_LENGTH = 1000\n", "STREAM_MAX_COMPARE_LENGTH = 1000\nSHORTLEN = 10\n\n\ndef set_shortlen(n):\n    global SHORTLEN\n    SHORTLEN = n\n")])
M('C12', 'reset-clears-defaults', NBD,
  "    for key in tuple(notebook_differs.keys()):\n        del notebook_differs[key]",
  "    for key in tuple(notebook_differs.keys()):\n        del notebook_differs[key]\n    notebook_differs.default_values.clear()", 'R12.4')
M('C12', 'merge-handler-reparses-every-request', SRV,
  "        if merge_args is None:\n            merge_args = build_merge_parser().parse_args(['', '', ''])",
  "        if True:\n            merge_args = build_merge_parser().parse_args(['', '', ''])", 'R12.5')
M('C12', 'diff-handler-processes-flags', SRV,
  "        base_nb = self.get_notebook_argument('base')\n        remote_nb = self.get_notebook_argument('remote')\n\n        try:\n            thediff",
  "        base_nb = self.get_notebook_argument('base')\n        remote_nb = self.get_notebook_argument('remote')\n        from ..diffing.notebooks import set_notebook_diff_targets\n        set_notebook_diff_targets(metadata=False)\n\n        try:\n            thediff", 'R12.5')
M('C12', 'global-stats-counter', GEN,
  "def diff_dicts(a, b, path=\"\", config=None):",
  "_stats = {'dicts': 0}\n\n\ndef diff_dicts(a, b, path=\"\", config=None):\n    _stats['dicts'] += 1", 'R12.1',
  edits=[])
T('C12', 'twin-module-constant-tuple', NBD, "STREAM_MAX_COMPARE_LENGTH = 1000\n", "STREAM_MAX_COMPARE_LENGTH = 1000\n_KNOWN_TYPES = ('stream', 'error')\n")
T('C12', 'twin-read-global-without-write', GEN,
  "def diff_dicts(a, b, path=\"\", config=None):", "_limits = {'depth': 100}\n\n\ndef diff_dicts(a, b, path=\"\", config=None):\n    _ = _limits['depth']")
T('C12', 'twin-local-dict-cache', 'nbdime/diffing/snakes.py',
  "def compute_snakes(A, B, compare, rect=None):\n    if rect is None:",
  "def compute_snakes(A, B, compare, rect=None):\n    cache = {}\n    cache[(id(A), id(B))] = rect\n    if rect is None:")

# ------------------------------------------------------------------------------------------ C20
M('C20', 'store-path-from-body', SRV,
  "        body = json.loads(escape.to_unicode(self.request.body))\n        merged = body['merged']",
  "        body = json.loads(escape.to_unicode(self.request.body))\n        path = os.path.join(self.curdir, body.get('path', fn))\n        merged = body['merged']", 'R20.1')
M('C20', 'store-dir-from-query-argument', SRV, "        path = os.path.join(self.curdir, fn)\n        logger.info('Saving merge result in %s', path)",
  "        path = os.path.join(self.get_argument('dir', self.curdir), fn)\n        logger.info('Saving merge result in %s', path)", 'R20.1')
M('C20', 'store-no-refusal', SRV,
  "        if not fn:\n            raise web.HTTPError(400, 'Server does not accept storing merge result.')\n",
  "        if not fn:\n            fn = 'merged.ipynb'\n", 'R20.2')
M('C20', 'stop-before-gate', SRV,
  "        # Only allow closing, if started as tool\n        if self.params.get('closable', False) is not True:",
  "        ioloop.IOLoop.current().stop()\n        # Only allow closing, if started as tool\n        if self.params.get('closable', False) is not True:", 'R20.3')
M('C20', 'closable-default-true', SRV, "def init_app(on_port=None, closable=False, **params):", "def init_app(on_port=None, closable=True, **params):", 'R20.3')
M('C20', 'diff-endpoint-writes-cache-file', SRV,
  "        data = {\n            'base': base_nb,\n            'diff': thediff,\n            }\n        self.finish(data)\n\n    def get_notebook_argument(self, argname):\n        if 'difftool_args' in self.params:",
  "        with io.open(os.path.join(self.curdir, '.nbdime-last-diff.json'), 'w') as f:\n            json.dump(thediff, f)\n        data = {\n            'base': base_nb,\n            'diff': thediff,\n            }\n        self.finish(data)\n\n    def get_notebook_argument(self, argname):\n        if 'difftool_args' in self.params:", 'R20.4')
M('C20', 'diff-endpoint-returns-remote-as-base', SRV, "            'base': base_nb,\n            'diff': thediff,", "            'base': remote_nb,\n            'diff': thediff,", 'R20.5')
M('C20', 'diff-arguments-swapped', SRV, "thediff = diff_notebooks(base_nb, remote_nb)", "thediff = diff_notebooks(remote_nb, base_nb)", 'R20.5')
M('C20', 'merge-endpoint-filters-decisions', SRV, "            'merge_decisions': decisions\n", "            'merge_decisions': [d for d in decisions if d.conflict]\n", 'R20.5')
M('C20', 'prefix-skips-api-routes', SRV, "            for (path, cls, params) in handlers\n", "            for (path, cls, params) in handlers if not path.startswith('/api')\n", 'R20.5')
M('C20', 'swallow-read-error', SRV,
  "        except Exception as e:\n            self.log.exception(e)\n            raise web.HTTPError(422, 'Invalid notebook: %s' % arg)",
  "        except Exception as e:\n            self.log.exception(e)\n            nb = nbformat.v4.new_notebook()", 'R20.6')
M('C20', 'diff-error-as-200', SRV,
  "            logger.exception('Error diffing documents:')\n            raise web.HTTPError(500, 'Error while attempting to diff documents')",
  "            logger.exception('Error diffing documents:')\n            thediff = []", 'R20.6')
M('C20', 'handler-mutates-params', SRV,
  "        fn = self.params.get('outputfilename', None)\n        if not fn:\n            raise web.HTTPError(400",
  "        self.params['closable'] = True\n        fn = self.params.get('outputfilename', None)\n        if not fn:\n            raise web.HTTPError(400", 'R20.3')
T('C20', 'twin-rename-fn', SRV,
  "        fn = self.params.get('outputfilename', None)\n        if not fn:\n            raise web.HTTPError(400, 'Server does not accept storing merge result.')\n        path = os.path.join(self.curdir, fn)",
  "        target = self.params.get('outputfilename', None)\n        if not target:\n            raise web.HTTPError(400, 'Server does not accept storing merge result.')\n        path = os.path.join(self.curdir, target)")
T('C20', 'twin-gate-positive-form', SRV,
  "        if self.params.get('closable', False) is not True:\n            raise web.HTTPError(\n                400, 'This server cannot be closed remotely.')\n",
  "        if self.params.get('closable', False) is True:\n            pass\n        else:\n            raise web.HTTPError(\n                400, 'This server cannot be closed remotely.')\n")
T('C20', 'twin-body-read-for-content-only', SRV, "        merged = body['merged']\n", "        merged = body['merged']\n        _conflicts = body.get('conflicts')\n")

# ------------------------------------------------------------------------------------------ C08
M('C08', 'status-always-zero', APP, "    returncode = 1 if conflicted else 0", "    returncode = 0", 'R08.1')
M('C08', 'status-inverted', APP, "    returncode = 1 if conflicted else 0", "    returncode = 0 if conflicted else 1", 'R08.1')
M('C08', 'main-drops-status', APP, "    return main_merge(arguments)", "    main_merge(arguments)", 'R08.2')
M('C08', 'driver-returns-zero', DRV, "        return nbmergeapp.main_merge(opts)", "        nbmergeapp.main_merge(opts)\n        return 0", 'R08.2')
M('C08', 'swallow-merge-exception', APP,
  "    merged, decisions = merge_notebooks(b, l, r, args)\n",
  "    try:\n        merged, decisions = merge_notebooks(b, l, r, args)\n    except Exception:\n        logger.error('merge failed')\n        merged, decisions = l, []\n", 'R08.3')
M('C08', 'output-truncated-first', APP,
  "    # Git seems to give empty base file for double insertions\n",
  "    if mfn:\n        io.open(mfn, 'w').close()\n    # Git seems to give empty base file for double insertions\n", 'R08.4')
M('C08', 'write-before-merge', APP,
  "    merged, decisions = merge_notebooks(b, l, r, args)\n",
  "    if mfn:\n        nbformat.write(l, mfn)\n    merged, decisions = merge_notebooks(b, l, r, args)\n", 'R08.4')
M('C08', 'driver-out-prefers-P', DRV, "        opts.out = opts.local", "        opts.out = opts.out or opts.local", 'R08.5')
M('C08', 'driver-placeholders-permuted', DRV, "git-nbmergedriver merge %O %A %B %L %P", "git-nbmergedriver merge %A %O %B %L %P", 'R08.5')
M('C08', 'early-success-on-missing-file', APP,
  "            logger.error(\"Cannot find file '%s'\", fn)\n            return 1", "            logger.error(\"Cannot find file '%s'\", fn)\n            return 0", 'R08.1')
M('C08', 'read-notebook-swallows-always', UT,
  "            if on_empty is None:\n                raise\n            # Reraise if file is not empty\n            if isinstance(f, str):\n                with io.open(f, encoding='utf-8') as fo:\n                    if len(fo.read(10)) != 0:\n                        raise\n",
  "            if on_empty is None:\n                raise\n", 'R08.3')
M('C08', 'work-after-write', APP,
  "        _write_output(mfn, text)\n        logger.info(\"Merge result written to %s\", mfn)",
  "        _write_output(mfn, text)\n        nbformat.validate(merged)", 'R08.4')
T('C08', 'twin-int-bool', APP, "    returncode = 1 if conflicted else 0", "    returncode = int(bool(conflicted))")
T('C08', 'twin-rename-returncode', APP, "    returncode = 1 if conflicted else 0\n", "    status = 1 if conflicted else 0\n",
  edits=[(APP, "    return returncode\n", "    return status\n")])
T('C08', 'twin-extra-logging-after-write', APP,
  "        logger.info(\"Merge result written to %s\", mfn)", "        logger.info(\"Merge result written to %s\", mfn)\n        logger.debug(\"done\")")

# ------------------------------------------------------------------------------------------ C03
M('C03', 'drop-A/AR-from-last-arm', MG, 'elif chunktype in ("AR/A", "A/AR", "A/A", "AR/AR"):', 'elif chunktype in ("AR/A", "A/A", "AR/AR"):', 'R03.1', "'A/AR'")
M('C03', 'A/R-not-handled', MG, 'elif chunktype in ("A/P", "A/R"):', 'elif chunktype in ("A/P",):', 'R03.1', "'A/R'")
M('C03', 'delete-R/R-arm', MG,
  '        elif chunktype == "R/R":\n            nbdime.log.error("Not expecting conflicting two-sided removal at this point.")\n', '', 'R03.1', "'R/R'")
M('C03', 'thediff-unbound-for-R/P', MG, '                elif p1[0].op == DiffOp.PATCH:\n                    thediff = p1[0].diff',
  '                elif p1[0].op == DiffOp.ADDRANGE:\n                    thediff = p1[0].diff', 'R03.1', "'R/P'")
M('C03', 'pchunktype-misses-R/P', MG, 'elif pchunktype in ("P/P", "P/R", "R/P"):', 'elif pchunktype in ("P/P", "P/R"):', 'R03.1')
M('C03', 'dicts-delete-replace-arm', MG,
  '        elif ld.op == DiffOp.REPLACE:\n            # (7) Replace in both local and remote, values are different,\n            #     record a conflict against original base value\n            decisions.conflict(path, [ld], [rd], item_strategy)\n', '', 'R03.2', 'replace, replace')
M('C03', 'dicts-parent-deleted-assert-wrong', MG, '            assert rd.op == DiffOp.PATCH\n', '            assert rd.op == DiffOp.REPLACE\n', 'R03.2')
M('C03', 'resolve-action-drops-take-max', DEC,
  '    elif a == "take_max":\n', '    elif a == "take_maximum":\n', 'R03.3', "'take_max'")
M('C03', 'tryresolve-emits-unknown-action', DEC, '                action = "local_then_remote"\n            elif strategy == "clear":',
  '                action = "union_all"\n            elif strategy == "clear":', 'R03.3', "'union_all'")
M('C03', 'fail-on-execution-count', MNB, '        "/cells/*/cell_type": "fail",\n', '        "/cells/*/cell_type": "fail",\n        "/cells/*/execution_count": "fail",\n', 'R03.4', '/cells/*/execution_count')
M('C03', 'fail-on-minor-version', MNB, '        "/nbformat_minor": "take-max",', '        "/nbformat_minor": "fail",', 'R03.4', '/nbformat_minor')
M('C03', 'second-producer-of-pseudo-op', STR, '    decisions_by_index = defaultdict(list)\n    level = len(base_path)',
  '    decisions_by_index = defaultdict(list)\n    marker = dict(op="parent_deleted", key=0)\n    level = len(base_path)', 'R03.5')
M('C03', 'patch-before-sentinel-test', STR,
  '    decisions = MergeDecisionBuilder()\n\n    if local_diff is ParentDeleted:',
  '    decisions = MergeDecisionBuilder()\n    local = patch(base, local_diff)\n\n    if local_diff is ParentDeleted:', 'R03.5')
M('C03', 'no-builtin-fallback', PP, '    # is not a merge result\n    return builtin_merge_render(b, l, r, strategy)',
  '    # is not a merge result\n    raise RuntimeError("no text merge tool available")', 'R03.6')
M('C03', 'renderer-returns-text-only', PP, '    merged, status = external_merge_render(cmd.split(), b, l, r)\n    return merged, status\n',
  '    merged, status = external_merge_render(cmd.split(), b, l, r)\n    return merged\n', 'R03.6')
M('C03', 'which-tests-other-tool', PP, "elif config.use_diff and which('diff3'):\n        merged, status = merge_render_with_diff3", "elif config.use_diff and which('diff'):\n        merged, status = merge_render_with_diff3", 'R03.6')
T('C03', 'twin-tuples-to-sets', MG, 'elif chunktype in ("AR/A", "A/AR", "A/A", "AR/AR"):', 'elif chunktype in {"AR/A", "A/AR", "A/A", "AR/AR"}:')
T('C03', 'twin-split-arm', MG, '        elif chunktype in ("AR/R", "R/AR"):\n            # Identical (ensured by chunking) twosided removal with insertion just before one of them\n            decisions.onesided(path, a0, a1)\n            decisions.agreement(path, p0, p1)\n',
  '        elif chunktype == "AR/R":\n            decisions.onesided(path, a0, a1)\n            decisions.agreement(path, p0, p1)\n        elif chunktype == "R/AR":\n            decisions.onesided(path, a0, a1)\n            decisions.agreement(path, p0, p1)\n')
T('C03', 'twin-reorder-disjoint-arms', MG,
  '        elif chunktype in ("A/P", "A/R"):\n            action = decisions.tryresolve(path, d0, d1, item_strategy)\n            if not action:\n                decisions.local_then_remote(path, d0, d1, conflict=True)\n        elif chunktype in ("P/A", "R/A"):\n            action = decisions.tryresolve(path, d0, d1, item_strategy)\n            if not action:\n                decisions.remote_then_local(path, d0, d1, conflict=True)\n',
  '        elif chunktype in ("P/A", "R/A"):\n            action = decisions.tryresolve(path, d0, d1, item_strategy)\n            if not action:\n                decisions.remote_then_local(path, d0, d1, conflict=True)\n        elif chunktype in ("A/P", "A/R"):\n            action = decisions.tryresolve(path, d0, d1, item_strategy)\n            if not action:\n                decisions.local_then_remote(path, d0, d1, conflict=True)\n')
T('C03', 'twin-new-sanity-assert', MG, '            decisions.onesided(path, d0, d1)\n', '            assert len(d0) + len(d1) <= 2\n            decisions.onesided(path, d0, d1)\n')

# ------------------------------------------------------------------------------------------ C05
M('C05', 'agreement-test-after-P/P-arm', MG,
  '        # Exactly the same modifications\n        elif strict_equal(d0, d1):\n            decisions.agreement(path, d0, d1)\n\n        # Should always agree above because of chunking\n        elif chunktype == "R/R":',
  '        # Should always agree above because of chunking\n        elif chunktype == "R/R" and not strict_equal(d0, d1):', 'R05.1',
  edits=[(MG, '        elif chunktype in ("AR/A", "A/AR", "A/A", "AR/AR"):', '        elif strict_equal(d0, d1):\n            decisions.agreement(path, d0, d1)\n        elif chunktype in ("AR/A", "A/AR", "A/A", "AR/AR"):')])
M('C05', 'onesided-arm-consults-strategy', MG,
  '        elif not (bool(d0) and bool(d1)):\n            decisions.onesided(path, d0, d1)',
  '        elif not (bool(d0) and bool(d1)):\n            if list_strategy == "use-base":\n                decisions.base(path, d0, d1)\n            else:\n                decisions.onesided(path, d0, d1)', 'R05.1')
M('C05', 'onesided-defaults-to-conflict', DEC, '    def onesided(self, path, local_diff, remote_diff, conflict=False):', '    def onesided(self, path, local_diff, remote_diff, conflict=True):', 'R05.1')
M('C05', 'dict-agreement-after-add-arm', MG,
  '        elif strict_equal(ld, rd):\n            # If inserting/replacing/patching produces the same value, just use\n            # it\n            decisions.agreement(path, ld, rd)\n        elif ld.op == DiffOp.ADD:',
  '        elif ld.op == DiffOp.ADD:', 'R05.1',
  edits=[(MG, '        elif ld.op == DiffOp.REPLACE:\n            # (7)', '        elif strict_equal(ld, rd):\n            decisions.agreement(path, ld, rd)\n        elif ld.op == DiffOp.REPLACE:\n            # (7)')])
M('C05', 'union-without-conflict-guard', STR,
  "        for d in decisions:\n            if d.conflict:\n                # do not to apply to subdecisions on dicts\n                if not isinstance(",
  "        for d in decisions:\n            if True:\n                # do not to apply to subdecisions on dicts\n                if not isinstance(", 'R05.2')
M('C05', 'list-resolver-loses-entry-guard', STR,
  'def resolve_conflicted_decisions_list(path, base, decisions, strategy):\n    if not (strategy and strategy != "mergetool" and decisions.has_conflicted()):\n        return\n',
  'def resolve_conflicted_decisions_list(path, base, decisions, strategy):\n    if not (strategy and strategy != "mergetool"):\n        return\n', 'R05.2')
M('C05', 'generic-resolves-unconflicted', STR, '            if d.conflict and not d.get("strategy"):\n                d.action = action\n                d.conflict = False',
  '            if not d.get("strategy"):\n                d.action = action\n                d.conflict = False', 'R05.2')
M('C05', 'transient-arm-picks-wrong-side', MG,
  '                elif p1[0].op == DiffOp.REMOVERANGE and is_transient:\n                    # Patch contains only transient changes, pick deletion\n                    decisions.remote(path, p0, p1)',
  '                elif p1[0].op == DiffOp.REMOVERANGE and is_transient:\n                    # Patch contains only transient changes, pick deletion\n                    decisions.local(path, p0, p1)', 'R05.3')
M('C05', 'R/A-dropped-from-tuple', MG, 'elif chunktype in ("P/A", "R/A"):', 'elif chunktype in ("P/A",):', 'R05.3')
M('C05', 'P/A-arm-uses-local-first', MG, '                decisions.remote_then_local(path, d0, d1, conflict=True)', '                decisions.local_then_remote(path, d0, d1, conflict=True)', 'R05.3')
M('C05', 'dict-remote-remove-not-transient-checked', MG,
  '            elif rd.op == DiffOp.REMOVE and is_diff_all_transients([ld], path, transients):', '            elif rd.op == DiffOp.REMOVE:', 'R05.3')
M('C05', 'git-theirs-for-local', PP, '        cmd += " --ours"', '        cmd += " --theirs"', 'R05.3')
M('C05', 'remote-deleted-marker-not-conflicted', STR,
  '        decisions.remote_then_local(path, local_diff, remote_diff, conflict=True, strategy=strategy)',
  '        decisions.remote_then_local(path, local_diff, remote_diff, conflict=False, strategy=strategy)', 'R05.3')
T('C05', 'twin-rename-ld-rd', MG, 'ld, rd = counterdiff, thediff', 'ld, rd = (counterdiff, thediff)')
T('C05', 'twin-reorder-conjuncts', MG, 'if p0[0].op == DiffOp.REMOVERANGE and is_transient:', 'if is_transient and p0[0].op == DiffOp.REMOVERANGE:')
T('C05', 'twin-compare-operands-swapped', MG, '        elif strict_equal(d0, d1):\n            decisions.agreement(path, d0, d1)', '        elif strict_equal(d1, d0):\n            decisions.agreement(path, d0, d1)')
M('C05', 'agreement-by-loose-equality', MG, '        elif strict_equal(ld, rd):\n', '        elif ld == rd:\n', 'R05.6')
M('C05', 'conflict-assert-by-loose-inequality', DEC, "    def similar_insert(self, path, local_diff, remote_diff, similar_insert, strategy=None):\n        assert local_diff and remote_diff, 'should have two diffs for conflicted merge decisions'\n        assert not strict_equal(local_diff, remote_diff), 'agreed merges should not be conflicted'" if False else "        assert not strict_equal(local_diff, remote_diff), 'agreed merges should not be conflicted'\n", "        assert local_diff != remote_diff, 'agreed merges should not be conflicted'\n", 'R05.6', count=3)
T('C05', 'twin-mirror-arms-swapped-order', MG,
  '        elif chunktype in ("A/P", "A/R"):\n            action = decisions.tryresolve(path, d0, d1, item_strategy)\n            if not action:\n                decisions.local_then_remote(path, d0, d1, conflict=True)\n        elif chunktype in ("P/A", "R/A"):\n            action = decisions.tryresolve(path, d0, d1, item_strategy)\n            if not action:\n                decisions.remote_then_local(path, d0, d1, conflict=True)\n',
  '        elif chunktype in ("R/A", "P/A"):\n            action = decisions.tryresolve(path, d0, d1, item_strategy)\n            if not action:\n                decisions.remote_then_local(path, d0, d1, conflict=True)\n        elif chunktype in ("A/R", "A/P"):\n            action = decisions.tryresolve(path, d0, d1, item_strategy)\n            if not action:\n                decisions.local_then_remote(path, d0, d1, conflict=True)\n')
T('C05', 'twin-extra-log-in-both-mirror-arms', MG,
  '                    decisions.local(path, p0, p1)\n                elif p1[0].op == DiffOp.REMOVERANGE and is_transient:\n                    # Patch contains only transient changes, pick deletion\n                    decisions.remote(path, p0, p1)',
  '                    nbdime.log.debug("transient")\n                    decisions.local(path, p0, p1)\n                elif p1[0].op == DiffOp.REMOVERANGE and is_transient:\n                    nbdime.log.debug("transient")\n                    decisions.remote(path, p0, p1)')

# ------------------------------------------------------------------------------------------ C09
SCH = 'nbdime/merge_format.schema.json'
DSCH = 'nbdime/diff_format.schema.json'
M('C09', 'schema-drops-take-max', SCH, '            "custom",\n            "take_max"\n', '            "custom"\n', 'R09.1', 'take_max')
M('C09', 'emit-clear-parent', DEC, '                action = "clear"\n', '                action = "clear_parent"\n', 'R09.1', 'clear_parent')
M('C09', 'rename-either', DEC, '            action="either",', '            action="agreed",', 'R09.1', 'agreed')
M('C09', 'extra-note-field', DEC, '            custom_diff=custom_diff,\n            strategy=strategy\n            )',
  '            custom_diff=custom_diff,\n            strategy=strategy,\n            note="custom"\n            )', 'R09.2')
M('C09', 'validated-keeps-strategy', DEC, '            if "strategy" in d:\n                del d["strategy"]', '            if "strategy" in d:\n                pass', 'R09.2')
M('C09', 'producer-bypasses-validated', MG, '    return decisions.validated(base)', '    return decisions.decisions', 'R09.2')
M('C09', 'validated-not-reversed', DEC, 'return sorted(self.decisions, key=_sort_key, reverse=True)', 'return sorted(self.decisions, key=_sort_key)', 'R09.3')
M('C09', 'producer-reorders-after-sort', MNB, '    return decisions\n\n\ndef merge_notebooks', '    decisions.sort(key=lambda d: d.conflict)\n    return decisions\n\n\ndef merge_notebooks', 'R09.3')
M('C09', 'apply-sorts-decisions', DEC, '    for md in decisions:\n        path, line = split_string_path(merged, md.common_path)',
  '    for md in sorted(decisions, key=lambda d: len(d.common_path)):\n        path, line = split_string_path(merged, md.common_path)', 'R09.3')
M('C09', 'op-addrange-extra-field', DF, 'return DiffEntry(op=DiffOp.ADDRANGE, key=key, valuelist=valuelist)', 'return DiffEntry(op=DiffOp.ADDRANGE, key=key, valuelist=valuelist, source=None)', 'R09.4')
M('C09', 'hand-built-entry', STR, '            custom_diff = [op_removerange(key, 1)]', '            custom_diff = [DiffEntry(op="removerange", key=key, length=1, why="conflict")]', 'R09.4',
  edits=[(STR, 'from ..diff_format import (\n    DiffOp, ParentDeleted,', 'from ..diff_format import (\n    DiffOp, ParentDeleted, DiffEntry,')])
T('C09', 'twin-validated-pop', DEC, '            if "strategy" in d:\n                del d["strategy"]', '            d.pop("strategy", None)')
T('C09', 'twin-producer-temp-name', MG, '    return decisions.validated(base)', '    result = decisions.validated(base)\n    return result')

# ------------------------------------------------------------------------------------------ C15
TSDEC = 'packages/nbdime/src/merge/decisions.ts'
TSUTIL = 'packages/nbdime/src/common/util.ts'
TSGEN = 'packages/nbdime/src/patch/generic.ts'
TSDE = 'packages/nbdime/src/diff/diffentries.ts'
TSDU = 'packages/nbdime/src/diff/util.ts'
M('C15', 'ts-whitelist-drops-either', TSDEC, "      'take_max',\n      'either',\n    ])", "      'take_max',\n    ])", 'R15.1')
M('C15', 'ts-whitelist-drops-take-max', TSDEC, "      'clear_parent',\n      'take_max',\n      'either',\n    ])", "      'clear_parent',\n      'either',\n    ])", 'R15.1')
M('C15', 'ts-clear-arm-always-replaces', TSDEC, "      let d = opAdd(key, makeClearedValue(added));", "      let d = opReplace(key, makeClearedValue(added));", 'R15.8')
M('C15', 'python-only-action', DEC, '                action = "clear"\n', '                action = "clear_value"\n', 'R15.1', 'clear_value')
M('C15', 'ts-resolve-loses-custom-arm', TSDEC, "  } else if (a === 'custom') {", "  } else if (a === 'customized') {", 'R15.1')
M('C15', 'ts-patch-sequence-loses-removerange', TSGEN, "    } else if (e.op === 'removerange') {\n      // Delete a number of values by skipping", "    } else if (e.op === 'remove_range') {\n      // Delete a number of values by skipping", 'R15.2')
M('C15', 'ts-diffop-union-loses-replace', TSDE, "  | 'replace'\n  | 'patch'", "  | 'patch'", 'R15.2')
M('C15', 'ts-regex-changed', TSUTIL, 'multiline.match(/^.*(\\r\\n|\\r|\\n|$)/gm)', 'multiline.match(/^.*(\\r\\n|\\n|$)/gm)', 'R15.3')
M('C15', 'python-site-splits-on-newline-only', 'nbdime/diffing/sequences.py', '    lines_a = a.splitlines(True)\n', "    lines_a = a.split('\\n')\n", 'R15.3')
M('C15', 'ts-flatten-without-sort', TSDU, "  return sortByKey(flattened, 'key');", '  return flattened;', 'R15.4')
M('C15', 'py-flatten-without-sort', DU, '    combined.sort(key=lambda x: x.key)\n', '', 'R15.4')
T('C15', 'twin-ts-whitelist-reordered', TSDEC, "      'base',\n      'local',\n      'remote',\n      'local_then_remote',", "      'local',\n      'base',\n      'remote',\n      'local_then_remote',")
T('C15', 'twin-ts-comment-with-quotes', TSDEC, "function validateAction(action: string): Action {", "// validates the 'action' field; see \"Action\"\nfunction validateAction(action: string): Action {")

# ------------------------------------------------------------------------------------------ C10
M('C10', 'tryresolve-use-base-means-local', DEC, '            elif strategy == "use-base":\n                action = "base"', '            elif strategy == "use-base":\n                action = "local"', 'R10.1')
M('C10', 'git-ours-theirs-swapped', PP, '    if strategy == "use-local":\n        cmd += " --ours"\n    elif strategy == "use-remote":\n        cmd += " --theirs"',
  '    if strategy == "use-local":\n        cmd += " --theirs"\n    elif strategy == "use-remote":\n        cmd += " --ours"', 'R10.1')
M('C10', 'diff3-use-local-returns-remote', PP, '    if strategy == "use-local":\n        return l, 0\n    elif strategy == "use-remote":\n        return r, 0',
  '    if strategy == "use-local":\n        return r, 0\n    elif strategy == "use-remote":\n        return l, 0', 'R10.1')
M('C10', 'list-arm-use-remote-picks-local', MG, '                elif list_strategy == "use-remote":\n                    # Not sure if this will be used, it just makes sense here\n                    decisions.remote(path, p0, p1)',
  '                elif list_strategy == "use-remote":\n                    # Not sure if this will be used, it just makes sense here\n                    decisions.local(path, p0, p1)', 'R10.1')
M('C10', 'git-cmd-file-order-changed', PP, "git_mergefile_print_cmd = 'git merge-file -p local base remote'", "git_mergefile_print_cmd = 'git merge-file -p remote base local'", 'R10.1')
M('C10', 'temp-file-holds-other-side', PP, "        with io.open(os.path.join(td, 'local'), 'w', encoding=\"utf8\",\n                     errors=\"surrogatepass\") as f:\n            f.write(l)",
  "        with io.open(os.path.join(td, 'local'), 'w', encoding=\"utf8\",\n                     errors=\"surrogatepass\") as f:\n            f.write(r)", 'R10.1')
M('C10', 'generic-keeps-conflict-flag', STR, '                d.action = action\n                d.conflict = False\n    else:', '                d.action = action\n    else:', 'R10.2')
M('C10', 'root-strategy-not-applied', MG, '    strategy = strategies.get("/")\n    resolve_strategy_generic(path, decisions, strategy)\n', '    strategy = strategies.get("/")\n', 'R10.3')
M('C10', 'use-strategies-not-root', MNB, '    else:\n        strategies["/"] = merge_strategy', '    else:\n        strategies["/cells"] = merge_strategy', 'R10.3')
M('C10', 'input-strategy-no-default', MNB, '    input_strategy = input_strategy or merge_strategy', '    input_strategy = input_strategy or "inline"', 'R10.3')
T('C10', 'twin-elif-to-if-return', PP, '    if strategy == "use-local":\n        return l, 0\n    elif strategy == "use-remote":\n        return r, 0', '    if strategy == "use-local":\n        return l, 0\n    if strategy == "use-remote":\n        return r, 0')
T('C10', 'twin-tryresolve-dict-order', DEC, '            if strategy == "use-local":\n                action = "local"\n            elif strategy == "use-remote":\n                action = "remote"',
  '            if strategy == "use-remote":\n                action = "remote"\n            elif strategy == "use-local":\n                action = "local"')

# ------------------------------------------------------------------------------------------ C07
M('C07', 'conflict-flag-constant-false', STR, '        conflict = status != 0\n', '        conflict = False\n', 'R07.1')
M('C07', 'conflict-flag-status-gt-1', STR, '        conflict = status != 0\n', '        conflict = status > 1\n', 'R07.1')
M('C07', 'source-gets-header-line', STR, '        custom_diff = [op_replace(path[-1], merged)]', '        custom_diff = [op_replace(path[-1], "# merged by nbdime\\n" + merged)]', 'R07.1')
M('C07', 'renderer-fed-base-twice', STR, '        remote = patch(base, remote_diff)\n        merged, status', '        remote = patch(base, local_diff)\n        merged, status', 'R07.1')
M('C07', 'builtin-markers-with-status-0', PP, '    merged = "".join(lines)\n    return merged, 1', '    merged = "".join(lines)\n    return merged, 0', 'R07.2')
M('C07', 'git-status-reset', PP, '    if lines and "\\n" in lines[-1] and (">"*7) in lines[-1]:\n        merged = merged.rstrip()\n    return merged, status',
  '    if lines and "\\n" in lines[-1] and (">"*7) in lines[-1]:\n        merged = merged.rstrip()\n        status = 0\n    return merged, status', 'R07.2')
M('C07', 'external-status-always-zero', PP, '        status = p.returncode\n        output = output.decode(\'utf8\', errors=\'surrogatepass\')\n        # normalize newlines', '        status = 0\n        output = output.decode(\'utf8\', errors=\'surrogatepass\')\n        # normalize newlines', 'R07.2')
M('C07', 'deleted-marker-not-marker-shaped', STR, '["<<<<<<< REMOTE CELL DELETED >>>>>>>\\n"]', '["(cell deleted on remote)\\n"]', 'R07.3')
M('C07', 'builtin-adds-explanatory-line', PP, '    sep2 = "%s\\n" % (sep2,)\n    lines.append(sep2)', '    sep2 = "%s\\n" % (sep2,)\n    lines.append("both sides changed these lines\\n")\n    lines.append(sep2)', 'R07.3')
M('C07', 'cell-marker-plain-text', STR, '    cells.append(cell_marker("%s" % (m1,), with_id))', '    cells.append(cell_marker("or", with_id))', 'R07.3')
M('C07', 'transient-guard-dropped', MG, '                if p0[0].op == DiffOp.REMOVERANGE and is_transient:', '                if p0[0].op == DiffOp.REMOVERANGE:', 'R07.4')
M('C07', 'dict-removal-wins', MG, '            elif ld.op == DiffOp.REMOVE and is_diff_all_transients([rd], path, transients):', '            elif ld.op == DiffOp.REMOVE:', 'R07.4')
T('C07', 'twin-bool-status', STR, '        conflict = status != 0\n', '        conflict = bool(status)\n')
T('C07', 'twin-marker-size-8', PP, '    marker_size = 7  # git uses 7 by default', '    marker_size = 8  # wider')
T('C07', 'twin-rename-merged', STR, '        merged, status = merge_render(base, local, remote, None)\n        conflict = status != 0\n\n        assert path[-1] == "source"\n        custom_diff = [op_replace(path[-1], merged)]',
  '        text, status = merge_render(base, local, remote, None)\n        conflict = status != 0\n\n        assert path[-1] == "source"\n        custom_diff = [op_replace(path[-1], text)]')

# ------------------------------------------------------------------------------------------ C11
LCS = 'nbdime/diffing/lcs.py'
SDL = 'nbdime/diffing/seq_difflib.py'
SNK = 'nbdime/diffing/snakes.py'
M('C11', 'lcs-returns-hand-built-list', LCS, '    return di.validated()', '    return list(reversed(di._diff))', 'R11.1')
M('C11', 'opcodes-returns-reversed', SDL, '    return di.validated()', '    return di._diff[::-1]', 'R11.1')
M('C11', 'attachments-hand-list', NBD, '    for key in sorted(bkeys - akeys):\n        di.add(key, b[key])\n    return di.validated()\n\n\ndef diff_mime_bundle',
  '    out = di.validated()\n    for key in sorted(bkeys - akeys):\n        out.append(op_add(key, b[key]))\n    return out\n\n\ndef diff_mime_bundle', 'R11.1',
  edits=[(NBD, 'from ..diff_format import MappingDiffBuilder, DiffOp', 'from ..diff_format import MappingDiffBuilder, DiffOp, op_add')])
M('C11', 'addrange-tiebreak-changed', DF, '            while pos > 0 and self._diff[pos-1].key >= entry.key:', '            while pos > 0 and self._diff[pos-1].key > entry.key:', 'R11.1')
M('C11', 'mapping-builder-allows-duplicates', DF, '        assert entry.key not in self._diff\n', '', 'R11.1')
M('C11', 'differ-builds-patch-directly', GEN, '                if cd:\n                    di.patch(i + k, cd)  # FIXME', '                di.append(op_patch(i + k, cd))  # FIXME', 'R11.2',
  edits=[(GEN, 'from ..diff_format import SequenceDiffBuilder, MappingDiffBuilder, validate_diff', 'from ..diff_format import SequenceDiffBuilder, MappingDiffBuilder, validate_diff, op_patch')])
M('C11', 'builder-patch-without-guard', DF, '    def patch(self, key, diff):\n        if diff:\n            self.append(op_patch(key, diff))\n\n    def addrange',
  '    def patch(self, key, diff):\n        self.append(op_patch(key, diff))\n\n    def addrange', 'R11.2')
M('C11', 'push-patch-wraps-empty', DEC, '        dec.local_diff = [op_patch(key, dec.local_diff)] if dec.local_diff else []', '        dec.local_diff = [op_patch(key, dec.local_diff)]', 'R11.2')
M('C11', 'recursion-into-atomic', GEN, '            if not config.is_atomic(aval, subpath):\n                cd = diffit', '            if True:\n                cd = diffit', 'R11.3')
M('C11', 'dict-recursion-ignores-type', GEN, '        if type(avalue) is type(bvalue) and (\n                subpath in config.differs or\n                not config.is_atomic(avalue, path=subpath)):',
  '        if (subpath in config.differs or\n                not config.is_atomic(avalue, path=subpath)):', 'R11.3')
M('C11', 'dict-recursion-into-any-atomic', GEN, '                subpath in config.differs or\n                not config.is_atomic(avalue, path=subpath)):',
  '                subpath in config.differs or\n                config.is_atomic(avalue, path=subpath)):', 'R11.3')
M('C14', 'ignore-not-consulted-for-atomic-paths', GEN, '        if type(avalue) is type(bvalue) and (\n                subpath in config.differs or\n                not config.is_atomic(avalue, path=subpath)):',
  '        if type(avalue) is type(bvalue) and not config.is_atomic(avalue, path=subpath):', 'R14.5')
M('C14', 'source-made-atomic', NBD, '        "/cells/*/id": True\n', '        "/cells/*/id": True,\n        "/cells/*/source": True,\n', 'R14.5', count=1,
  edits=[(GEN, '                subpath in config.differs or\n', '')])
T('C14', 'twin-explicit-differ-test-hoisted', GEN, '        if type(avalue) is type(bvalue) and (\n                subpath in config.differs or\n                not config.is_atomic(avalue, path=subpath)):',
  '        configured = subpath in config.differs\n        if type(avalue) is type(bvalue) and (\n                configured or\n                not config.is_atomic(avalue, path=subpath)):')
M('C11', 'is-atomic-treats-str-atomic', 'nbdime/diffing/config.py', 'return not isinstance(x, (str, list, dict))', 'return not isinstance(x, (list, dict))', 'R11.3')
M('C11', 'output-differ-patches-other-key', NBD, '            di.patch("data", dd)', '            di.patch("metadata", dd)', 'R11.4')
T('C11', 'twin-builder-temp', LCS, '    return di.validated()', '    result = di.validated()\n    return result')
T('C11', 'twin-early-empty', SNK, '    subpath = "/".join((path, "*"))\n    diffit = config.differs[subpath]\n\n    di = SequenceDiffBuilder()\n    i0, j0',
  '    if not a and not b:\n        return []\n    subpath = "/".join((path, "*"))\n    diffit = config.differs[subpath]\n\n    di = SequenceDiffBuilder()\n    i0, j0')

# ------------------------------------------------------------------------------------------ C14
M('C14', 'table-misses-output-metadata', NBD, "        '/cells/*/outputs/*/metadata': not metadata,\n", '', 'R14.1')
M('C14', 'execution-count-misspelled', NBD, "        '/cells/*/outputs/*': False if details else ('execution_count',),", "        '/cells/*/outputs/*': False if details else ('execution_counts',),", 'R14.1')
M('C14', 'flags-swapped', ARGS, '            args.sources, args.outputs, args.attachments, args.metadata,', '            args.outputs, args.sources, args.attachments, args.metadata,', 'R14.2')
M('C14', 'output-differ-drops-config', NBD, '        dd_conj = diff(a_conj, b_conj, path=path, config=config)', '        dd_conj = diff(a_conj, b_conj)', 'R14.3')
M('C14', 'output-differ-drops-path-only', NBD, '        dd_conj = diff(a_conj, b_conj, path=path, config=config)', '        dd_conj = diff(a_conj, b_conj, config=config)', 'R14.3')
M('C14', 'dict-differ-drops-config', GEN, '            dd = diffit(avalue, bvalue, path=subpath, config=config)', '            dd = diffit(avalue, bvalue, path=subpath)', 'R14.3')
M('C14', 'true-installs-default-differ', NBD, '        if subkeys is True:\n            notebook_differs[path] = diff_ignore', '        if subkeys is True:\n            notebook_differs[path] = diff', 'R14.4')
M('C14', 'key-filter-inverted', NBD, '            if e.key not in ignore_keys:', '            if e.key in ignore_keys:', 'R14.4')
M('C14', 'ignore-returns-shared-list', 'nbdime/diffing/generic.py', '    """Always returns an empty diff"""\n    return []', '    """Always returns an empty diff"""\n    return _EMPTY', 'R14.4',
  edits=[('nbdime/diffing/generic.py', 'def diff_ignore(*args, **kwargs):', '_EMPTY = []\n\n\ndef diff_ignore(*args, **kwargs):')])
T('C14', 'twin-positional-forward', NBD, '        dd_conj = diff(a_conj, b_conj, path=path, config=config)', '        dd_conj = diff(a_conj, b_conj, path, config)')
T('C14', 'twin-keyword-call', ARGS, '        set_notebook_diff_targets(\n            args.sources, args.outputs, args.attachments, args.metadata,\n            args.id, args.details)',
  '        set_notebook_diff_targets(\n            sources=args.sources, outputs=args.outputs, attachments=args.attachments, metadata=args.metadata,\n            identifier=args.id, details=args.details)')

# ------------------------------------------------------------------------------------------ C16
M('C16', 'highlight-without-use-color', PP, '    if config.use_color and not prefix.strip() and (is_markdown or config.language):', '    if not prefix.strip() and (is_markdown or config.language):', 'R16.1')
M('C16', 'colorama-used-directly', PP, '    config.out.write("%s%s %s:%s\\n" % (config.INFO, msg, path, config.RESET))',
  '    config.out.write("%s%s %s:%s\\n" % (colorama.Fore.BLUE, msg, path, config.RESET))', 'R16.1')
M('C16', 'git-color-words-kept', PP, '    if not config.use_color:\n        # Explicitly, or git\'s own color.ui / color.diff setting decides\n        cmd = cmd.replace(" --color-words", " --no-color")\n    elif not config.color_words:',
  '    if not config.color_words:', 'R16.1')
M('C16', 'col-const-indexed-by-true', PP, '    def INFO(self):\n        return col_const[self.use_color].INFO', '    def INFO(self):\n        return col_const[True].INFO', 'R16.1')
M('C16', 'literal-escape-code', PP, "    config.out.write(\"%s%s: %s\\n\" % (prefix, k, v))", "    config.out.write(\"\\x1b[1m%s%s: %s\\n\" % (prefix, k, v))", 'R16.1')
M('C16', 'entry-printer-loses-replace-arm', PP, '    elif op == DiffOp.REPLACE:\n        if config.should_ignore_path(nextpath):', '    elif op == "replaced":\n        if config.should_ignore_path(nextpath):', 'R16.2')
M('C16', 'diff-render-no-fallback', PP, '    else:\n        return diff_render_with_difflib(a, b, config)', '    else:\n        raise RuntimeError("no diff tool")', 'R16.2')
M('C16', 'header-printed-for-empty-diff', PP,
  '    if di:\n        path = ""\n        atime = "  " + file_timestamp(afn)\n        btime = "  " + file_timestamp(bfn)\n        config.out.write(notebook_diff_header.format(\n            afn=afn, bfn=bfn, atime=atime, btime=btime))\n        pretty_print_diff(a, di, path, config)',
  '    path = ""\n    atime = "  " + file_timestamp(afn)\n    btime = "  " + file_timestamp(bfn)\n    config.out.write(notebook_diff_header.format(\n        afn=afn, bfn=bfn, atime=atime, btime=btime))\n    if di:\n        pretty_print_diff(a, di, path, config)', 'R16.3')
M('C16', 'rmtree-not-in-finally', PP,
  "        # tool prints without any prefix in word-diff mode; leave it all in)\n    finally:\n        shutil.rmtree(td)",
  "        # tool prints without any prefix in word-diff mode; leave it all in)\n    except OSError:\n        raise\n    shutil.rmtree(td)", 'R16.4')
M('C16', 'which-diff-launches-git', PP, "    elif config.use_diff and which('diff'):\n        return diff_render_with_diff(a, b)", "    elif config.use_diff and which('diff'):\n        return diff_render_with_git(a, b, config)", 'R16.4')
T('C16', 'twin-use-color-last-conjunct', PP, '    if config.use_color and not prefix.strip() and (is_markdown or config.language):', '    if not prefix.strip() and (is_markdown or config.language) and config.use_color:')
T('C16', 'twin-new-plain-constant', PP, "DIFF_ENTRY_END = '\\n'", "DIFF_ENTRY_END = '\\n'\nSECTION_RULE = '-' * 20")

# ------------------------------------------------------------------------------------------ C19
RST = 'docs/source/config.rst'
M('C19', 'difftool-loses-webtool', CFGPY, 'class NbDiffTool(GitDiff, WebTool):', 'class NbDiffTool(GitDiff):', 'R19.1')
M('C19', 'gitmerge-not-a-merge', CFGPY, 'class GitMerge(Merge):\n    pass', 'class GitMerge(_Diffing):\n    pass', 'R19.1')
M('C19', 'docs-claim-extra-member', RST, '    Options to web tool commands (NbDiffTool, NbMergeTool).', '    Options to web tool commands (NbDiffTool, NbMergeTool, NbDiffWeb).', 'R19.1')
M('C19', 'web-before-own-port', CFGPY, 'class NbMergeTool(GitMerge, WebTool):\n    pass', 'class NbMergeTool(WebTool, GitMerge):\n    pass', 'R19.2',
  edits=[(CFGPY, 'class WebTool(Web):\n    pass', 'class WebTool(Web):\n    details = Bool(None, allow_none=True, help="x").tag(config=True)')])
M('C19', 'mro-not-reversed', CFGPY, '    for c in reversed(configurable.mro()):', '    for c in configurable.mro():', 'R19.3')
M('C19', 'files-not-reversed', CFGPY, '    for path in path[::-1]:', '    for path in path:', 'R19.3')
M('C19', 'cwd-lowest-priority', CFGPY, '    path.insert(0, os.getcwd())', '    path.append(os.getcwd())', 'R19.3')
M('C19', 'defaults-after-disk', CFGPY,
  '            recursive_update(config, config_instance(c).configured_traits(c), include_none)\n            if (c.__name__ in disk_config):\n                recursive_update(config, disk_config[c.__name__], include_none)',
  '            if (c.__name__ in disk_config):\n                recursive_update(config, disk_config[c.__name__], include_none)\n            recursive_update(config, config_instance(c).configured_traits(c), include_none)', 'R19.3')
M('C19', 'nested-dicts-replaced', CFGPY, '            recursive_update(target[k], v, include_none)\n', '            target[k] = dict(v)\n', 'R19.3')
M('C19', 'config-applied-after-parse', ARGS,
  '        return super(ConfigBackedParser, self).parse_known_args(args=args, namespace=namespace)',
  '        ns, rest = super(ConfigBackedParser, self).parse_known_args(args=args, namespace=namespace)\n        for k, v in self._defaults.items():\n            setattr(ns, k, v)\n        return ns, rest', 'R19.4')
M('C19', 'entry-key-renamed', CFGPY, "    'nbdiff-web': NbDiffWeb,", "    'nbdiffweb': NbDiffWeb,", 'R19.5')
M('C19', 'driver-parser-wrong-prog', DDR, "    parser = ConfigBackedParser('git-nbdiffdriver',", "    parser = ConfigBackedParser('git-nbdiff',", 'R19.5')
T('C19', 'twin-redefine-port-in-tool', CFGPY, 'class NbDiffTool(GitDiff, WebTool):\n    pass', 'class NbDiffTool(GitDiff, WebTool):\n    port = Integer(0, help="port").tag(config=True)')
T('C19', 'twin-docs-reordered-members', RST, '    Options to web tool commands (NbDiffTool, NbMergeTool).', '    Options to web tool commands (NbMergeTool, NbDiffTool).')

# ------------------------------------------------------------------------------------------ C13
M('C13', 'output-data-popped-and-restored', NBD, "        b_conj = copy.deepcopy({k: v for k, v in b.items() if k != 'data'})\n", "        tmp_data = b.pop('data')\n        b_conj = copy.deepcopy(b)\n        b.data = tmp_data\n", 'R13.1')
M('C13', 'output-data-popped-not-restored', NBD, "        b_conj = copy.deepcopy({k: v for k, v in b.items() if k != 'data'})\n", "        b_conj = copy.deepcopy(b)\n        b_conj.pop('data')\n        b.pop('data', None)\n", 'R13.1')
M('C13', 'apply-without-deepcopy', DEC, '    merged = copy.deepcopy(base)\n', '    merged = base\n', 'R13.1')
M('C13', 'resolve-action-extends-decision-diff', DEC, '    elif a == "local_then_remote":\n        return decision.local_diff + decision.remote_diff',
  '    elif a == "local_then_remote":\n        decision.local_diff.extend(decision.remote_diff)\n        return decision.local_diff', 'R13.1')
M('C13', 'printer-sorts-diff-in-place', PP, '    for key, e in sorted([(e.key, e) for e in di], key=lambda x: x[0]):\n        pretty_print_diff_entry(a, e, path, config)',
  '    di.sort(key=lambda e: e.key)\n    for e in di:\n        pretty_print_diff_entry(a, e, path, config)', 'R13.1')
M('C13', 'patch-dict-deletes-from-obj', PATCH, '        elif op == DiffOp.REMOVE:\n            deleted_keys.add(key)', '        elif op == DiffOp.REMOVE:\n            deleted_keys.add(key)\n            del obj[key]', 'R13.1')
M('C13', 'differ-normalises-source-in-place', GEN, '    for key in sorted(akeys & bkeys):\n        avalue = a[key]\n        bvalue = b[key]\n        # If types are the same',
  '    for key in sorted(akeys & bkeys):\n        avalue = a[key]\n        bvalue = b[key]\n        if isinstance(bvalue, list) and bvalue and bvalue[-1] == "":\n            bvalue.pop()\n        # If types are the same', 'R13.1')
M('C13', 'flatten-mutates-line-diff', DU, '                d = copy.deepcopy(p)\n                d.key += line_offset', '                d = p\n                d.key += line_offset', 'R13.1')
M('C13', 'patch-list-shares-untouched-items', PATCH, '        newobj.extend(copy.deepcopy(value) for value in obj[take:index])', '        newobj.extend(obj[take:index])', 'R13.2')
M('C13', 'apply-returns-base-when-no-decisions', DEC, '    merged = copy.deepcopy(base)\n    prev_path = None', '    if not decisions:\n        return base\n    merged = copy.deepcopy(base)\n    prev_path = None', 'R13.2')
T('C13', 'twin-combine-ops-shares-fresh-existing', DU, '            d = copy.deepcopy(existing)\n', '            d = existing\n')
T('C13', 'twin-sort-a-copy', PP, '    for key, e in sorted([(e.key, e) for e in di], key=lambda x: x[0]):\n        pretty_print_diff_entry(a, e, path, config)',
  '    entries = list(di)\n    entries.sort(key=lambda e: e.key)\n    for e in entries:\n        pretty_print_diff_entry(a, e, path, config)')
T('C13', 'twin-mutate-local-comprehension', GEN, '    akeys = set(a.keys())\n    bkeys = set(b.keys())\n\n    di = MappingDiffBuilder()\n\n    # Sorting keys in loops',
  '    akeys = set(a.keys())\n    bkeys = set(b.keys())\n    names = [k for k in akeys]\n    names.append("")\n    names.sort()\n\n    di = MappingDiffBuilder()\n\n    # Sorting keys in loops')
T('C13', 'twin-output-copy-then-pop-on-copy', NBD, "        b_conj = copy.deepcopy({k: v for k, v in b.items() if k != 'data'})\n", "        b_conj = copy.deepcopy(b)\n        b_conj.pop('data')\n")

# ------------------------------------------------------------------------------------------ C02
M('C02', 'dict-leaf-loose-compare', GEN, '            if not strict_equal(avalue, bvalue):\n                di.replace(key, bvalue)', '            if avalue != bvalue:\n                di.replace(key, bvalue)', 'R02.1')
M('C02', 'default-predicate-plain-eq', GEN, '    return defaultdict2(lambda: (compare_strict,), {})', '    return defaultdict2(lambda: (operator.__eq__,), {})', 'R02.1')
M('C02', 'strict-helper-loses-type-test', GEN, '    return x == y and _json_number_type(x) is _json_number_type(y)', '    return x == y and True', 'R02.1')
M('C02', 'early-equal-return-in-diff-dicts', GEN, '    akeys = set(a.keys())\n    bkeys = set(b.keys())\n\n    di = MappingDiffBuilder()\n\n    # Sorting keys in loops',
  '    if a == b:\n        return []\n    akeys = set(a.keys())\n    bkeys = set(b.keys())\n\n    di = MappingDiffBuilder()\n\n    # Sorting keys in loops', 'R02.1')
M('C02', 'patch-list-loses-removerange', PATCH, '        elif op == DiffOp.REMOVERANGE:\n            # Delete a number of values by skipping\n            skip = e.length', '        elif op == "remove_range":\n            skip = e.length', 'R02.2')
M('C02', 'count-consumed-loses-patch', DU, '    elif op == DiffOp.PATCH:\n        return (1, 1)', '    elif op == "patched":\n        return (1, 1)', 'R02.2')
M('C02', 'lcs-hand-built', LCS, '    return di.validated()', '    return [e for e in di._diff]', 'R02.3')
M('C02', 'addrange-key-from-other-cursor', LCS, '        if j > y:\n            di.addrange(x, B[y:j])', '        if j > y:\n            di.addrange(y, B[y:j])', 'R02.4')
M('C02', 'removerange-length-off-by-one', LCS, '        if i > x:\n            di.removerange(x, i-x)', '        if i > x:\n            di.removerange(x, i-x+1)', 'R02.4')
M('C02', 'insert-slice-from-first-sequence', SNK, '            di.addrange(i0, b[j0:j])', '            di.addrange(i0, a[j0:j])', 'R02.4')
T('C02', 'twin-early-equal-strings', 'nbdime/diffing/sequences.py', "    if a == b:\n        return []\n    lines_a = a.splitlines(True)", "    if len(a) == len(b) and a == b:\n        return []\n    lines_a = a.splitlines(True)")
T('C02', 'twin-hoist-length', LCS, '        if i > x:\n            di.removerange(x, i-x)', '        if i > x:\n            n = i - x\n            di.removerange(x, n)')

# ------------------------------------------------------------------------------------------ C01
M('C01', 'mime-differ-loose-compare', NBD, '    elif not strict_equal(avalue, bvalue):', '    elif avalue != bvalue:', 'R01.3')
M('C01', 'mime-differ-shallow-compare', NBD, '    elif not strict_equal(avalue, bvalue):', '    elif not compare_strict(avalue, bvalue):', 'R01.12')
M('C02', 'mime-differ-diffs-scalars', NBD, '    if (any(mimetype.startswith(tm) for tm in _split_mimes) and\n            type(avalue) is type(bvalue) and\n            isinstance(avalue, (str, list, dict))):', '    if any(mimetype.startswith(tm) for tm in _split_mimes):', 'R02.12')
M('C14', 'mime-differ-type-change-to-differ', NBD, '            type(avalue) is type(bvalue) and\n            isinstance(avalue, (str, list, dict))):', '            isinstance(avalue, (str, list, dict))):', 'R14.10')
T('C01', 'twin-mime-differ-explicit-pairs', NBD, '            type(avalue) is type(bvalue) and\n            isinstance(avalue, (str, list, dict))):', '            (isinstance(avalue, str) and isinstance(bvalue, str) or\n             isinstance(avalue, list) and isinstance(bvalue, list) or\n             isinstance(avalue, dict) and isinstance(bvalue, dict))):')
M('C01', 'mime-fastpath-loose', NBD, '    if isinstance(avalue, str) and isinstance(bvalue, str) and avalue == bvalue:\n        return', '    if avalue == bvalue:\n        return', 'R01.3')
M('C01', 'attachments-emit-sequence-op', NBD, '    for key in sorted(bkeys - akeys):\n        di.add(key, b[key])\n    return di.validated()\n\n\ndef diff_mime_bundle',
  '    for key in sorted(bkeys - akeys):\n        di.append(op_addrange(0, [b[key]]))\n    return di.validated()\n\n\ndef diff_mime_bundle', 'R01.1',
  edits=[(NBD, 'from ..diff_format import MappingDiffBuilder, DiffOp', 'from ..diff_format import MappingDiffBuilder, DiffOp, op_addrange')])
M('C01', 'patch-dict-loses-replace', PATCH, '        elif op == DiffOp.REPLACE:\n            assert key not in deleted_keys', '        elif op == "replaced":\n            assert key not in deleted_keys', 'R01.1')
M('C01', 'flatten-raises-on-removerange', DU, '            elif op == DiffOp.REMOVERANGE:\n                d = op_removerange(\n                    line_offset, line_to_char[e.key + e.length] - line_offset)',
  '            elif op == DiffOp.REMOVERANGE:\n                raise NBDiffFormatError("removerange")', 'R01.1')
M('C01', 'nbpatch-no-revival', 'nbdime/nbpatchapp.py', '    diff = to_diffentry_dicts(diff)\n', '', 'R01.2')
M('C01', 'revival-not-recursive-for-lists', DU, '    elif isinstance(di, list):\n        return [to_diffentry_dicts(v) for v in di]\n    else:\n        return di\n\ndef as_dict_based_diff',
  '    elif isinstance(di, list):\n        return list(di)\n    else:\n        return di\n\ndef as_dict_based_diff', 'R01.2')
M('C01', 'nbdiff-dumps-filtered-diff', 'nbdime/nbdiffapp.py', '            json.dump(d, df, indent=2, separators=(",", ": "))', '            json.dump([e for e in d if e.key != "metadata"], df, indent=2, separators=(",", ": "))', 'R01.2')
M('C01', 'nbdiff-arguments-swapped', 'nbdime/nbdiffapp.py', '    d = diff_notebooks(a, b)', '    d = diff_notebooks(b, a)', 'R01.2')
T('C01', 'twin-revive-inline', 'nbdime/nbpatchapp.py', '        diff = json.load(patch_file)\n    diff = to_diffentry_dicts(diff)\n', '        diff = to_diffentry_dicts(json.load(patch_file))\n')

# ------------------------------------------------------------------------------------------ C04
M('C04', 'merged-id-is-a-dict', STR, '                cell[k] = lcell[k] if k in lcell else rcell[k]\n', '                cell[k] = {"local_id": lcell.get(k), "remote_id": rcell.get(k)}\n', 'R04.1')
M('C04', 'execution-count-empty-string', STR, "            elif k == 'execution_count':\n                cell[k] = None  # Clear", "            elif k == 'execution_count':\n                cell[k] = \"\"  # Clear", 'R04.1')
M('C04', 'outputs-cleared-to-none', STR, "            elif k == 'outputs':\n                cell[k] = []", "            elif k == 'outputs':\n                cell[k] = None", 'R04.1')
M('C04', 'cleared-list-becomes-none', DEC, '        # Clearing e.g. an outputs list means setting it to an empty list\n        return []', '        # Clearing e.g. an outputs list means setting it to an empty list\n        return None', 'R04.1')
M('C04', 'clear-strategy-on-cell-type', MNB, '            "/cells/*/execution_count": "clear",\n', '            "/cells/*/execution_count": "clear",\n            "/cells/*/outputs/*/output_type": "clear",\n', 'R04.1')
M('C04', 'marker-output-unknown-field', STR, '    return nbformat.v4.new_output("stream", name="stderr", text=text)', '    return nbformat.v4.new_output("stream", name="stderr", text=text, marker=True)', 'R04.1')
M('C04', 'marker-cells-always-with-id', STR, '    with_id = any(\'id\' in c for c in list(base_cells) + lcells + rcells)\n', '    with_id = True\n', 'R04.2')
M('C04', 'marker-id-never-stripped', STR, '    if not with_id:\n        # Cell ids only exist from notebook format 4.5 on\n        cell.pop(\'id\', None)\n', '', 'R04.2')
M('C04', 'apply-returns-plain-dict', DEC, '    merged = nbformat.from_dict(merged)\n    return merged', '    return merged', 'R04.3')
T('C04', 'twin-id-from-remote', STR, '                cell[k] = lcell[k] if k in lcell else rcell[k]\n', '                cell[k] = rcell[k] if k in rcell else lcell[k]\n')
T('C04', 'twin-metadata-dict-call-free', STR, '                cell[k] = {\n                    "local_metadata": lcell[k],\n                    "remote_metadata": rcell[k],\n                }',
  '                cell[k] = {"local_metadata": lcell[k], "remote_metadata": rcell[k], "note": "conflict"}')

M('C20', 'store-opens-before-parsing', SRV,
  "        body = json.loads(escape.to_unicode(self.request.body))\n        merged = body['merged']\n",
  "        with io.open(path, 'w', encoding='utf8') as f0:\n            body = json.loads(escape.to_unicode(self.request.body))\n        merged = body['merged']\n", 'R20.7')
M('C20', 'store-serialises-while-open', SRV, "        with io.open(path, 'w', encoding='utf8') as f:\n            f.write(text)", "        with io.open(path, 'w', encoding='utf8') as f:\n            nbformat.write(merged_nb, f)", 'R20.7')

# ------------------------------------------------------------------------------------------ rules added after the independently seeded changes
M('C08', 'status-is-a-count', APP, "    returncode = 1 if conflicted else 0", "    returncode = len(conflicted)", 'R08.1')
T('C08', 'twin-status-min', APP, "    returncode = 1 if conflicted else 0", "    returncode = min(len(conflicted), 1)")
M('C02', 'compare-grid-cache-by-value', 'nbdime/diffing/seq_bruteforce.py', '    return [[compare(a, b) for b in B] for a in A]',
  '    seen = {}\n    out = []\n    for a in A:\n        row = []\n        for b in B:\n            try:\n                r = seen[a, b]\n            except (KeyError, TypeError):\n                r = compare(a, b)\n            row.append(r)\n        out.append(row)\n    return out', 'R02.5')
M('C02', 'differ-custom-line-splitter', 'nbdime/diffing/sequences.py', '    lines_a = a.splitlines(True)\n    lines_b = b.splitlines(True)\n',
  '    lines_a = _split_lines(a)\n    lines_b = _split_lines(b)\n', 'R02.6',
  edits=[('nbdime/diffing/sequences.py', 'def diff_strings_linewise(a, b):', 'def _split_lines(s):\n    import re\n    return re.findall(r"[^\\n]*\\n|[^\\n]+", s)\n\n\ndef diff_strings_linewise(a, b):')])
T('C02', 'twin-splitlines-via-helper', 'nbdime/diffing/sequences.py', '    lines_a = a.splitlines(True)\n    lines_b = b.splitlines(True)\n',
  '    lines_a = _lines(a)\n    lines_b = _lines(b)\n',
  edits=[('nbdime/diffing/sequences.py', 'def diff_strings_linewise(a, b):', 'def _lines(s):\n    return s.splitlines(True)\n\n\ndef diff_strings_linewise(a, b):')])
M('C01', 'patcher-splits-on-newline', DU, '    if isinstance(a, str):\n        a = a.splitlines(True)', "    if isinstance(a, str):\n        a = [l + '\\n' for l in a.split('\\n')]", 'R01.4')
M('C07', 'all-transients-early-true', MG, '            elif not is_diff_all_transients(d.diff, subpath, transients):\n                return False',
  '            else:\n                return is_diff_all_transients(d.diff, subpath, transients)', 'R07.4')
M('C17', 'subdirs-innermost-first', GF, '            popped.appendleft(pop)', '            popped.append(pop)', 'R17.5')
T('C17', 'twin-subdirs-list-insert', GF, '            popped.appendleft(pop)', '            popped.insert(0, pop)')
M('C10', 'conflict-tagged-with-strategy', MG, '                decisions.local_then_remote(path, d0, d1, conflict=True)', '                decisions.local_then_remote(path, d0, d1, conflict=True, strategy=list_strategy)', 'R10.4')
M('C20', 'stream-not-rewound', SRV, "                # Assume arg is file-like\n                arg.seek(0)\n", "                # Assume arg is file-like\n", 'R20.8')
M('C11', 'patch-keyed-by-target-index', GEN, '                    di.patch(i + k, cd)  # FIXME', '                    di.patch(j + k, cd)  # FIXME', 'R11.5')
M('C11', 'mime-entry-keyed-by-lowercase', NBD, '        if dd:\n            diffbuilder.patch(key, dd)', '        if dd:\n            diffbuilder.patch(mimetype, dd)', 'R11.6')

# ------------------------------------------------------------------------------------------ rules added in session 3
TSDEC = 'packages/nbdime/src/merge/decisions.ts'
M('C03', 'render-lines-loop-without-emptiness-guard', PP,
  "    if local and local[-1].endswith('\\n'):\n        local[-1] = local[-1] + '\\n'\n    if remote and remote[-1].endswith('\\n'):\n        remote[-1] = remote[-1] + '\\n'\n",
  "    for side in (local, remote):\n        if side[-1].endswith('\\n'):\n            side[-1] = side[-1] + '\\n'\n", 'R03.8')
T('C03', 'twin-render-lines-loop-with-guard', PP,
  "    if local and local[-1].endswith('\\n'):\n        local[-1] = local[-1] + '\\n'\n    if remote and remote[-1].endswith('\\n'):\n        remote[-1] = remote[-1] + '\\n'\n",
  "    for side in (local, remote):\n        if side and side[-1].endswith('\\n'):\n            side[-1] = side[-1] + '\\n'\n")
M('C10', 'use-strategy-before-transient-arms', MG,
  "                if p0[0].op == DiffOp.REMOVERANGE and is_transient:\n                    # Patch contains only transient changes, pick deletion\n                    decisions.local(path, p0, p1)\n                elif p1[0].op == DiffOp.REMOVERANGE and is_transient:\n                    # Patch contains only transient changes, pick deletion\n                    decisions.remote(path, p0, p1)\n                elif list_strategy == \"use-base\":\n                    # Not sure if this will be used, it just makes sense here\n                    decisions.base(path, p0, p1)\n",
  "                if list_strategy == \"use-base\":\n                    # Not sure if this will be used, it just makes sense here\n                    decisions.base(path, p0, p1)\n                elif p0[0].op == DiffOp.REMOVERANGE and is_transient:\n                    # Patch contains only transient changes, pick deletion\n                    decisions.local(path, p0, p1)\n                elif p1[0].op == DiffOp.REMOVERANGE and is_transient:\n                    # Patch contains only transient changes, pick deletion\n                    decisions.remote(path, p0, p1)\n", 'R10.5')
T('C10', 'twin-reorder-use-arms-among-themselves', MG,
  "                elif list_strategy == \"use-base\":\n                    # Not sure if this will be used, it just makes sense here\n                    decisions.base(path, p0, p1)\n                elif list_strategy == \"use-local\":\n                    # Not sure if this will be used, it just makes sense here\n                    decisions.local(path, p0, p1)\n",
  "                elif list_strategy == \"use-local\":\n                    # Not sure if this will be used, it just makes sense here\n                    decisions.local(path, p0, p1)\n                elif list_strategy == \"use-base\":\n                    # Not sure if this will be used, it just makes sense here\n                    decisions.base(path, p0, p1)\n")
M('C05', 'take-max-reads-remote-twice', DEC, 'lval = decision.local_diff[0].value if decision.local_diff else bval',
  'lval = decision.remote_diff[0].value if decision.local_diff else bval', 'R05.4')
M('C05', 'inline-source-patches-local-twice', STR, '        local = patch(base, local_diff)\n        remote = patch(base, remote_diff)\n', '        local = patch(base, local_diff)\n        remote = patch(base, local_diff)\n', 'R05.4')
M('C05', 'recurse-rcell-from-local', STR, 'rcell = d.remote_diff[0].valuelist[0]', 'rcell = d.local_diff[0].valuelist[0]', 'R05.4')
M('C05', 'cell-conflict-rkeep-not-mirrored', STR, 'rkeep = max(0, rremove - lremove)', 'rkeep = max(0, lremove - rremove)', 'R05.4')
T('C05', 'twin-mirror-pair-renamed-cursor', PP, '    local = local[:i+1]\n    remote = remote[:j+1]', '    end_local, end_remote = i + 1, j + 1\n    local = local[:end_local]\n    remote = remote[:end_remote]')
T('C05', 'twin-mirror-pair-with-comment-between', DEC, '        lval = decision.local_diff[0].value if decision.local_diff else bval\n',
  '        lval = decision.local_diff[0].value if decision.local_diff else bval\n        # and the same for the other side\n')
M('C04', 'take-max-ignores-local-value', DEC, 'lval = decision.local_diff[0].value if decision.local_diff else bval',
  'lval = decision.remote_diff[0].value if decision.local_diff else bval', 'R04.4')
M('C04', 'take-max-drops-base', DEC, 'mval = max(bval, lval, rval)', 'mval = max(lval, rval)', 'R04.4')
T('C04', 'twin-take-max-argument-order', DEC, 'mval = max(bval, lval, rval)', 'mval = max(lval, rval, bval)')
M('C16', 'decision-line-number-tested-by-truthiness', PP,
  "                    diff = [op_patch(k, diff)]\n                    break\n",
  "                    if k:\n                        diff = [op_patch(k, diff)]\n                    break\n", 'R16.5')
T('C16', 'twin-decision-line-number-tested-is-none', PP,
  "                    diff = [op_patch(k, diff)]\n                    break\n",
  "                    if k is not None:\n                        diff = [op_patch(k, diff)]\n                    break\n")
M('C11', 'entry-key-tested-by-truthiness', DU, '            if op == DiffOp.ADDRANGE:\n                d = op_addrange(line_offset,', '            if op == DiffOp.ADDRANGE and e.key:\n                d = op_addrange(line_offset,', 'R11.7')
M('C09', 'path-element-tested-by-truthiness', DEC, '    for i in range(len(path)):\n        if isinstance(base, str):\n            return path[:i], path[i:]\n',
  '    for i in range(len(path)):\n        if isinstance(base, str) and path[i]:\n            return path[:i], path[i:]\n', 'R09.7')
M('C15', 'ts-cleared-value-typeof-object-first', TSDEC,
  "  } else if (typeof value === 'string') {\n    // Clearing e.g. a source string means setting it to an empty string\n    return '';\n  } else if (value === null || valueIn(typeof value, ['number', 'boolean'])) {\n    // Clearing anything else (atomic values) means setting it to null\n    return null;\n  } else {\n    // Clearing e.g. a metadata dict means setting it to an empty Object\n    return {};\n  }",
  "  } else if (typeof value === 'object') {\n    return {};\n  } else if (typeof value === 'string') {\n    return '';\n  } else {\n    return null;\n  }", 'R15.5')
M('C15', 'py-cleared-value-dict-to-none', DEC, '    elif isinstance(value, dict):\n        # Clearing e.g. a metadata dict means setting it to an empty dict\n        return {}\n', '', 'R15.5')
T('C15', 'twin-ts-cleared-value-isarray-and-reordered', TSDEC,
  "  if (value instanceof Array) {", "  if (Array.isArray(value)) {")
T('C15', 'twin-ts-cleared-value-null-first', TSDEC,
  "  } else if (value === null || valueIn(typeof value, ['number', 'boolean'])) {", "  } else if (value === null || typeof value === 'number' || typeof value === 'boolean') {")

# R03.10
M('C03', 'attachments-looked-up-before-ops', STR, '            base = attachments.get(key)\n', '            base = attachments[key]\n', 'R03.10')
M('C03', 'outputs-indexed-at-insertion-point', STR, 'outputs[key] if key < len(outputs) else None', 'outputs[key] if outputs else None', 'R03.10')
M('C04', 'clear-on-optional-metadata-flag', MNB, '        "/cells/*/cell_type": "fail",\n', '        "/cells/*/cell_type": "fail",\n        "/cells/*/metadata/collapsed": "clear",\n', 'R04.1')
M('C03', 'clear-looks-base-up-unguarded', DEC, "            if isinstance(base, dict) and key not in base:\n                # Added on both sides with different values: add it cleared\n                added = (decision.local_diff or decision.remote_diff)[0].value\n                return [op_add(key, make_cleared_value(added))]\n", "", 'R03.10')
M('C03', 'id-read-from-local-cell-only', STR, '                cell[k] = lcell[k] if k in lcell else rcell[k]\n', '                cell[k] = lcell[k]\n', 'R03.17')
M('C03', 'resolver-asserts-before-path-filter', STR, "        if d.common_path != ('cells',):\n", "        assert d.local_diff and d.remote_diff\n        if d.common_path != ('cells',):\n", 'R03.18')
M('C03', 'collector-chains-none-diffs', STR, "        local_diff.extend(ld or ())\n", "        local_diff.extend(ld)\n", 'R03.19')
M('C03', 'patch-level-compared-with-itself', STR, "    if n == len(common_path) or not diff:", "    if n == len(target_path) or not diff:", 'R03.20')
T('C03', 'twin-collector-none-as-empty-list', STR, "        local_diff.extend(ld or ())\n", "        local_diff.extend(ld or [])\n")
T('C03', 'twin-outputs-bound-written-other-way', STR, 'outputs[key] if key < len(outputs) else None', 'outputs[key] if len(outputs) > key else None')
T('C03', 'twin-attachments-guarded-lookup', STR, '            base = attachments.get(key)\n', '            base = attachments[key] if key in attachments else None\n')

# ------------------------------------------------------------------------------------------ round-2 rules
NBDIFF = 'nbdime/nbdiffapp.py'
LOGPY = 'nbdime/log.py'
M('C01', 'diff-file-written-unescaped-in-locale-codec', NBDIFF, 'json.dump(d, df, indent=2, separators=(",", ": "))',
  'json.dump(d, df, indent=2, separators=(",", ": "), ensure_ascii=False)', 'R01.5')
T('C01', 'twin-diff-file-utf8-both-sides', NBDIFF, '        with open(output, "w") as df:', '        with open(output, "w", encoding="utf8") as df:',
  edits=[(NBDIFF, 'json.dump(d, df, indent=2, separators=(",", ": "))', 'json.dump(d, df, indent=2, separators=(",", ": "), ensure_ascii=False)')])
M('C03', 'raise-on-merge-status-above-one', PP, "        status = p.returncode\n        output = output.decode('utf8', errors='surrogatepass')\n        # normalize newlines",
  "        status = p.returncode\n        if status not in (0, 1):\n            raise RuntimeError('merge tool failed')\n        output = output.decode('utf8', errors='surrogatepass')\n        # normalize newlines", 'R03.11')
T('C03', 'twin-raise-on-signal-status-only', PP, "        status = p.returncode\n        output = output.decode('utf8', errors='surrogatepass')\n        # normalize newlines",
  "        status = p.returncode\n        if status < 0:\n            raise RuntimeError('merge tool was killed')\n        output = output.decode('utf8', errors='surrogatepass')\n        # normalize newlines")
M('C07', 'tool-stderr-merged-into-text', PP, "        p = Popen(cmd, cwd=td, stdout=PIPE)\n        output, errors = p.communicate()\n        status = p.returncode\n        output = output.decode('utf8', errors='surrogatepass')\n        # normalize newlines",
  "        p = Popen(cmd, cwd=td, stdout=PIPE, stderr=subprocess.STDOUT)\n        output, errors = p.communicate()\n        status = p.returncode\n        output = output.decode('utf8', errors='surrogatepass')\n        # normalize newlines", 'R07.5')
T('C07', 'twin-tool-stderr-captured-separately', PP, "        p = Popen(cmd, cwd=td, stdout=PIPE)\n        output, errors = p.communicate()\n        status = p.returncode\n        output = output.decode('utf8', errors='surrogatepass')\n        # normalize newlines",
  "        p = Popen(cmd, cwd=td, stdout=PIPE, stderr=PIPE)\n        output, errors = p.communicate()\n        status = p.returncode\n        output = output.decode('utf8', errors='surrogatepass')\n        # normalize newlines")
M('C08', 'logging-to-stdout', LOGPY, 'logging.basicConfig(format=format, level=level)', 'logging.basicConfig(format=format, level=level, stream=sys.stdout)', 'R08.6',
  edits=[(LOGPY, 'import logging\n', 'import logging\nimport sys\n')])
T('C08', 'twin-logging-to-explicit-stderr', LOGPY, 'logging.basicConfig(format=format, level=level)', 'logging.basicConfig(format=format, level=level, stream=sys.stderr)',
  edits=[(LOGPY, 'import logging\n', 'import logging\nimport sys\n')])
M('C08', 'whitespace-garbage-treated-as-empty-input', UT, "                    if len(fo.read(10)) != 0:\n                        raise", "                    if fo.read(10).strip():\n                        raise", 'R08.7')
T('C08', 'twin-emptiness-by-truthiness', UT, "                    if len(fo.read(10)) != 0:\n                        raise", "                    if fo.read(1):\n                        raise")
M('C09', 'combine-patches-groups-before-sort', STR, "    patches = {}\n    inserts = {}\n    newdiffs = []\n    for d in diffs:\n        if d.op == DiffOp.PATCH:",
  "    patches = {}\n    inserts = {}\n    newdiffs = []\n    newdiffs.extend(d for d in diffs if d.op == DiffOp.REMOVERANGE)\n    diffs = [d for d in diffs if d.op != DiffOp.REMOVERANGE]\n    for d in diffs:\n        if d.op == DiffOp.PATCH:", 'R09.8')
T('C09', 'twin-combine-patches-explicit-tiebreak', STR, "    return sorted(newdiffs, key=lambda x: x.key)", "    newdiffs.sort(key=lambda x: x.key)\n    return newdiffs")
M('C09', 'side-skipped-when-equal-to-base', MNB, "    local_diffs = diff_notebooks(base, local)\n", "    local_diffs = diff_notebooks(base, local) if local != base else []\n", 'R09.9')
M('C09', 'merger-deduplicates-decisions', MG, "    if any([decisions.decisions[i] == decisions.decisions[j]",
  "    decisions.decisions = [d for i, d in enumerate(decisions.decisions) if d not in decisions.decisions[:i]]\n    if any([decisions.decisions[i] == decisions.decisions[j]", 'R09.10')
M('C10', 'items-inherit-list-strategy', MG, "    item_strategy = strategies.get(item_spath)\n\n    transients = strategies.transients",
  "    item_strategy = strategies.get(item_spath) or list_strategy\n\n    transients = strategies.transients", 'R10.6')
T('C10', 'twin-strategy-lookup-with-default', MG, "    item_strategy = strategies.get(item_spath)\n\n    transients = strategies.transients",
  "    item_strategy = strategies.get(item_spath, None)\n\n    transients = strategies.transients")
M('C11', 'push-patch-wraps-empty-side', DEC, "        dec.remote_diff = [op_patch(key, dec.remote_diff)] if dec.remote_diff else []",
  "        dec.remote_diff = [op_patch(key, dec.remote_diff)] if dec.remote_diff is not None else []", 'R11.2')
M('C11', 'add-or-replace-by-truthiness', STR, '    if "nbdime-conflicts" in base:', '    if base.get("nbdime-conflicts"):', 'R11.9')
T('C11', 'twin-add-or-replace-negated', STR, "            if local_name in attachments:\n                nbdime.log.warning(\n                    \"Replacing previous conflicted attachment with filename %r\", local_name)\n                custom_diff += [op_replace(local_name, local)]\n            else:\n                custom_diff += [op_add(local_name, local)]",
  "            if local_name not in attachments:\n                custom_diff += [op_add(local_name, local)]\n            else:\n                nbdime.log.warning(\n                    \"Replacing previous conflicted attachment with filename %r\", local_name)\n                custom_diff += [op_replace(local_name, local)]")
M('C12', 'lazy-global-config-snapshot', MG, "        config=copy.copy(notebook_config)\n", "        config=_insert_config()\n", 'R12.1',
  edits=[(MG, "def _split_addrange(key, local, remote, path, item_strategy):", "_cfg = None\n\n\ndef _insert_config():\n    global _cfg\n    if _cfg is None:\n        _cfg = copy.copy(notebook_config)\n    return _cfg\n\n\ndef _split_addrange(key, local, remote, path, item_strategy):")])
M('C13', 'combine-patches-reuses-callers-entry', STR, "                p = op_patch(d.key, combine_patches(d.diff))\n", "                p = d\n", 'R13.1')
M('C14', 'key-filter-unwraps-previous-filter', NBD, "    def ignored_diff(*args, **kwargs):\n        d = inner_differ(*args, **kwargs)",
  "    inner_differ = getattr(inner_differ, 'wrapped', inner_differ)\n\n    def ignored_diff(*args, **kwargs):\n        d = inner_differ(*args, **kwargs)", 'R14.6')
M('C15', 'py-combine-patches-extra-tiebreak', STR, "    return sorted(newdiffs, key=lambda x: x.key)", "    return sorted(newdiffs, key=lambda x: (x.key, x.op != DiffOp.ADDRANGE))", 'R15.6')
T('C15', 'twin-py-combine-patches-attrgetter', STR, "    return sorted(newdiffs, key=lambda x: x.key)", "    return sorted(newdiffs, key=lambda entry: entry.key)")
M('C16', 'ignore-verdicts-cached-on-class', PP, "    def should_ignore_path(self, path):\n        starred = star_path(split_path(path))",
  "    _verdicts = {}\n\n    def should_ignore_path(self, path):\n        if path in self._verdicts:\n            return self._verdicts[path]\n        self._verdicts[path] = v = self._should_ignore_path(path)\n        return v\n\n    def _should_ignore_path(self, path):\n        starred = star_path(split_path(path))", 'R16.6')
T('C16', 'twin-ignore-verdicts-cached-per-instance', PP, "    def should_ignore_path(self, path):\n        starred = star_path(split_path(path))",
  "    def should_ignore_path(self, path):\n        cache = self.__dict__.setdefault('_verdicts', {})\n        if path in cache:\n            return cache[path]\n        cache[path] = v = self._should_ignore_path(path)\n        return v\n\n    def _should_ignore_path(self, path):\n        starred = star_path(split_path(path))")
M('C16', 'no-newline-marker-unanchored', PP, 'r = re.compile(r"^\\\\ No newline at end of file\\n?", flags=re.M)', 'r = re.compile(r"\\\\ No newline at end of file\\n?")', 'R16.7')
T('C16', 'twin-no-newline-marker-multiline-flag-spelled-out', PP, 'r = re.compile(r"^\\\\ No newline at end of file\\n?", flags=re.M)', 'r = re.compile(r"^\\\\ No newline at end of file\\n?", flags=re.MULTILINE)')
M('C18', 'removal-status-becomes-exit-status', DDR, "    try:\n        check_call(cmd + ['--remove-section', 'diff.jupyternotebook'])\n    except CalledProcessError:\n        # already unset\n        pass",
  "    import subprocess\n    return subprocess.call(cmd + ['--remove-section', 'diff.jupyternotebook'])", 'R18.6',
  edits=[(DDR, "        opts.config_func(opts.scope)\n        return 0", "        return opts.config_func(opts.scope) or 0")])
T('C18', 'twin-config-arm-forwards-none', DDR, "        opts.config_func(opts.scope)\n        return 0", "        return opts.config_func(opts.scope) or 0")
M('C19', 'duplicate-directory-skipped-in-reverse-walk', CFGPY, "    for path in path[::-1]:\n        # path list is in descending priority order, so load files backwards:\n",
  "    seen = set()\n    for path in path[::-1]:\n        # path list is in descending priority order, so load files backwards:\n        if path in seen:\n            continue\n        seen.add(path)\n", 'R19.3')
T('C19', 'twin-duplicates-removed-before-the-walk', CFGPY, "    for path in path[::-1]:\n        # path list is in descending priority order, so load files backwards:\n",
  "    path = list(dict.fromkeys(path))\n    for path in path[::-1]:\n        # path list is in descending priority order, so load files backwards:\n")
M('C20', 'merge-inputs-cached-across-requests', SRV, "            arg = self.params['mergetool_args'][argname]\n            return self.read_notebook(arg, fail_on_empty=False)",
  "            cache = self.settings.setdefault('mergetool_notebooks', {})\n            if argname not in cache:\n                cache[argname] = self.read_notebook(self.params['mergetool_args'][argname], fail_on_empty=False)\n            return cache[argname]", 'R20.9')
M('C20', 'server-whitespace-garbage-treated-as-empty', SRV, "                            if len(fo.read(10)) != 0:\n                                raise", "                            if fo.read(10).strip():\n                                raise", 'R20.10')
T('C20', 'twin-server-emptiness-by-comparison', SRV, "                            if len(fo.read(10)) != 0:\n                                raise", "                            if len(fo.read(10)) > 0:\n                                raise")

# ------------------------------------------------------------------------------------------ C06 (pipeline shape of disjoint merges)
M('C06', 'combine-patches-groups-before-sort', STR, "    patches = {}\n    inserts = {}\n    newdiffs = []\n    for d in diffs:\n        if d.op == DiffOp.PATCH:",
  "    patches = {}\n    inserts = {}\n    newdiffs = []\n    newdiffs.extend(d for d in diffs if d.op == DiffOp.REMOVERANGE)\n    diffs = [d for d in diffs if d.op != DiffOp.REMOVERANGE]\n    for d in diffs:\n        if d.op == DiffOp.PATCH:", 'R09.8')
M('C06', 'side-skipped-when-equal-to-base', MNB, "    remote_diffs = diff_notebooks(base, remote)\n", "    remote_diffs = diff_notebooks(base, remote) if remote != base else []\n", 'R09.9')
M('C06', 'onesided-defaults-to-conflict', DEC, '    def onesided(self, path, local_diff, remote_diff, conflict=False):', '    def onesided(self, path, local_diff, remote_diff, conflict=True):', 'R05.1')
M('C06', 'onesided-arm-consults-strategy', MG,
  '        elif not (bool(d0) and bool(d1)):\n            decisions.onesided(path, d0, d1)',
  '        elif not (bool(d0) and bool(d1)):\n            if list_strategy == "use-base":\n                decisions.base(path, d0, d1)\n            else:\n                decisions.onesided(path, d0, d1)', 'R05.1')
M('C06', 'list-resolver-loses-entry-guard', STR,
  'def resolve_conflicted_decisions_list(path, base, decisions, strategy):\n    if not (strategy and strategy != "mergetool" and decisions.has_conflicted()):\n        return\n',
  'def resolve_conflicted_decisions_list(path, base, decisions, strategy):\n    if not (strategy and strategy != "mergetool"):\n        return\n', 'R05.2')
T('C06', 'twin-combine-patches-sort-in-place', STR, "    return sorted(newdiffs, key=lambda x: x.key)", "    newdiffs.sort(key=lambda x: x.key)\n    return newdiffs")

# ------------------------------------------------------------------------------------------ call-signature compatibility
M('C03', 'helper-gains-required-parameter-one-caller-missed', STR, "def get_outputs_and_note(base, removes, patches):", "def get_outputs_and_note(base, removes, patches, title):", 'R03.12',
  edits=[(STR, "        loutputs, lnote = get_outputs_and_note(base_output, lremoves, lpatches)", "        loutputs, lnote = get_outputs_and_note(base_output, lremoves, lpatches, local_title)")])
T('C03', 'twin-helper-gains-optional-parameter', STR, "def get_outputs_and_note(base, removes, patches):", "def get_outputs_and_note(base, removes, patches, title=None):")
M('C16', 'renderer-helper-loses-parameter', PP, 'def pretty_print_attachments(attachments, prefix="", config=DefaultConfig):', 'def pretty_print_attachments(attachments, config=DefaultConfig):', 'R16.8')

# ------------------------------------------------------------------------------------------ name binding
M('C03', 'stale-helper-name-on-rare-arm', MG, "                elif will_diff_counter_parent_deletion(thediff, item_path, strategies):", "                elif will_counter_parent_deletion(thediff, item_path, strategies):", 'R03.13')
M('C03', 'local-assigned-on-one-branch-only', STR, "    local_conflict_diffs, remote_conflict_diffs = collect_conflicting_diffs(base_path, decisions)\n\n    # Drop conflict decisions\n    decisions.decisions = [d for d in decisions if not d.conflict]\n\n    # FIXME: Review this code.",
  "    if decisions.has_conflicted():\n        local_conflict_diffs, remote_conflict_diffs = collect_conflicting_diffs(base_path, decisions)\n\n    # Drop conflict decisions\n    decisions.decisions = [d for d in decisions if not d.conflict]\n\n    # FIXME: Review this code.", 'R03.13')
T('C16', 'twin-local-assigned-under-correlated-guard', PP, "        stripped, n = r.subn(\"\", output)\n        if n <= 2:\n            output = stripped\n",
  "        if status is not None:\n            stripped, n = r.subn(\"\", output)\n        if status is not None:\n            if n <= 2:\n                output = stripped\n")
M('C16', 'renderer-local-unbound-when-tool-missing', PP, "        stripped, n = r.subn(\"\", output)\n        if n <= 2:\n            output = stripped\n",
  "        if status == 0:\n            stripped, n = r.subn(\"\", output)\n        if n <= 2:\n            output = stripped\n", 'R16.9')

# ------------------------------------------------------------------------------------------ op-guarded field reads
M('C02', 'replace-arm-reads-valuelist', PATCH, "        elif op == DiffOp.REPLACE:\n            # Add replacement value and skip old\n            newobj.append(e.value)", "        elif op == DiffOp.REPLACE:\n            # Add replacement value and skip old\n            newobj.extend(e.valuelist)", 'R02.9')
M('C02', 'remove-folded-into-replace-arm', PATCH, "        elif op == DiffOp.REMOVE:\n            # Delete values obj[index] by incrementing take to skip\n            skip = 1\n        elif op == DiffOp.REPLACE:\n            # Add replacement value and skip old\n            newobj.append(e.value)\n            skip = 1",
  "        elif op in (DiffOp.REMOVE, DiffOp.REPLACE):\n            # Replace (or drop) the old value\n            newobj.append(e.value)\n            skip = 1", 'R02.9')
T('C02', 'twin-op-alias-renamed', PATCH, "    for e in diff:\n        op = e.op\n        index = e.key\n        assert isinstance(index, int), 'list key must be integer'",
  "    for e in diff:\n        kind = e.op\n        op = kind\n        index = e.key\n        assert isinstance(index, int), 'list key must be integer'")

# ------------------------------------------------------------------------------------------ round-3 rules
CHK = 'nbdime/merging/chunks.py'
TSDEC2 = 'packages/nbdime/src/merge/decisions.ts'
M('C03', 'sort-key-int-first', DEC, "            ret.append(('', -s))", "            ret.append((-s,))", 'R03.15')
T('C03', 'twin-sort-key-other-string-sentinel', DEC, "            ret.append(('', -s))", "            ret.append((' ', -s))")
M('C03', 'patch-end-boundary-dropped', CHK, "        elif e.op == DiffOp.PATCH:\n            k = j + 1\n            boundaries.add(k)\n", "", 'R03.16')
T('C03', 'twin-boundaries-inline', CHK, "        elif e.op == DiffOp.PATCH:\n            k = j + 1\n            boundaries.add(k)\n", "        elif e.op == DiffOp.PATCH:\n            boundaries.add(j + 1)\n")
M('C04', 'partial-dict-synthesised-under-input-key', STR, "    custom_diff = [op]\n", "    custom_diff = [op]\n    for d_ in local_conflict_diffs:\n        if d_.op == DiffOp.ADD and isinstance(d_.value, dict):\n            custom_diff.append(op_add(d_.key, {k_: v_ for k_, v_ in d_.value.items() if v_}))\n", 'R04.5')
M('C07', 'similarity-predicate-dedupes-cells', STR, "    cells = []\n    cells.append(cell_marker(\"%s %s\" % (m0, local_title), with_id))",
  "    from ..diffing.notebooks import compare_cell_strict\n    if lcells and rcells and compare_cell_strict(lcells[0], rcells[0]):\n        rcells = rcells[1:]\n    cells = []\n    cells.append(cell_marker(\"%s %s\" % (m0, local_title), with_id))", 'R07.7')
M('C09', 'onesided-removal-recorded-as-agreement', MG, "        elif len(ldiff) == 2 or len(rdiff) == 2:\n            decisions.onesided(path, ldiff[1:], rdiff[1:])",
  "        elif len(ldiff) == 2 or len(rdiff) == 2:\n            removal = ldiff[1:] or rdiff[1:]\n            decisions.agreement(path, removal, removal)", 'R09.11')
M('C09', 'merged-edited-after-apply', MNB, "    merged = apply_decisions(base, decisions)\n", "    merged = apply_decisions(base, decisions)\n    merged['nbformat_minor'] = max(nb.get('nbformat_minor', 0) for nb in (base, local, remote))\n", 'R09.12')
M('C10', 'attachments-follow-merge-strategy', MNB, "        attachments_strategy = input_strategy\n", "        attachments_strategy = merge_strategy\n", 'R10.7')
T('C10', 'twin-source-strategy-renamed', MNB, "        source_strategy = input_strategy\n        attachments_strategy = input_strategy\n", "        source_strategy = attachments_strategy = input_strategy\n")
M('C14', 'config-validation-raises-valueerror', CFGPY, "            if (c.__name__ in disk_config):\n", "            if (c.__name__ in disk_config) and not isinstance(disk_config[c.__name__], dict):\n                raise ValueError('section %s must be a mapping' % c.__name__)\n            if (c.__name__ in disk_config):\n", 'R14.8')
M('C14', 'length-cutoff-before-equality-shortcut', GEN, "    # Cutoff on equality: Python has fast hash functions for strings,", "    if maxlen is not None and len(x) > maxlen and len(y) > maxlen:\n        return False\n\n    # Cutoff on equality: Python has fast hash functions for strings,", 'R14.9')
T('C14', 'twin-emptiness-cutoff-rewritten', GEN, "    if bool(x) != bool(y):\n        return False\n", "    if (not x) != (not y):\n        return False\n")
M('C15', 'ts-apply-decisions-shallow-copy', TSDEC2, "let merged = deepCopy(base);", "let merged = base;", 'R15.7')
M('C16', 'lexer-from-codemirror-mode', PP, "        config.language = language_info.get(\n            'pygments_lexer',\n            language_info.get('name', None)\n        )",
  "        config.language = language_info.get(\n            'pygments_lexer',\n            language_info.get('codemirror_mode', language_info.get('name', None))\n        )", 'R16.11')
M('C16', 'surrogate-handlers-kept', UT, "        if errors == 'strict' or errors.startswith('surrogate'):", "        if errors == 'strict':", 'R16.12')
T('C16', 'twin-raising-handlers-listed', UT, "        if errors == 'strict' or errors.startswith('surrogate'):", "        if errors in ('strict', 'surrogateescape', 'surrogatepass'):")
M('C17', 'only-enoent-counts-as-deleted', GF, "                except IOError:\n                    # (also when the filter cannot open a deleted file)\n                    return EXPLICIT_MISSING_FILE", "                except FileNotFoundError:\n                    return EXPLICIT_MISSING_FILE", 'R17.8')
T('C17', 'twin-oserror-spelled-out', GF, "                except IOError:\n                    # (also when the filter cannot open a deleted file)\n                    return EXPLICIT_MISSING_FILE", "                except OSError:\n                    return EXPLICIT_MISSING_FILE")
M('C17', 'blob-streams-cached', GF, "            f = BlobWrapper(blob.data_stream.read().decode('utf-8'))\n", "            f = _blob_cache.get(blob.hexsha)\n            if f is None:\n                f = _blob_cache[blob.hexsha] = BlobWrapper(blob.data_stream.read().decode('utf-8'))\n", 'R17.9',
  edits=[(GF, "def _get_diff_entry_stream(path, blob, ref_name, repo_dir, missing=False):", "_blob_cache = {}\n\n\ndef _get_diff_entry_stream(path, blob, ref_name, repo_dir, missing=False):")])
M('C18', 'xdg-default-via-dict-get', UT, "            if os.environ.get('XDG_CONFIG_HOME'):\n                gitattributes = os.path.expandvars('$XDG_CONFIG_HOME/git/attributes')\n            else:\n                gitattributes = os.path.expanduser('~/.config/git/attributes')",
  "            gitattributes = os.path.join(os.environ.get('XDG_CONFIG_HOME', os.path.expanduser('~/.config')), 'git', 'attributes')", 'R18.9')
M('C18', 'shared-git-config-vector', DDR, "def disable(scope=None):\n    \"\"\"Disable nbdime git diff drivers\"\"\"\n    cmd = ['git', 'config']\n    if scope:\n        cmd.append('--%s' % scope)",
  "_GIT_CONFIG = ['git', 'config']\n\n\ndef disable(scope=None):\n    \"\"\"Disable nbdime git diff drivers\"\"\"\n    cmd = _GIT_CONFIG\n    if scope:\n        cmd.append('--%s' % scope)", 'R18.10')
M('C19', 'webtool-redeclares-browser-none', CFGPY, "class WebTool(Web):\n    pass\n", "class WebTool(Web):\n\n    browser = Unicode(\n        None,\n        allow_none=True,\n        help=\"browser for the git web tools\",\n    ).tag(config=True)\n", 'R19.9')
T('C19', 'twin-webtool-redeclares-port-with-default', CFGPY, "class WebTool(Web):\n    pass\n", "class WebTool(Web):\n\n    port = Integer(\n        0,\n        help=\"port for the git web tools\",\n    ).tag(config=True)\n")
M('C20', 'loop-stopped-in-on-finish', SRV, "        _logger.info('Closing server on remote request (%d)', self.application.exit_code)\n        self.finish()\n        ioloop.IOLoop.current().stop()\n",
  "        _logger.info('Closing server on remote request (%d)', self.application.exit_code)\n        self.finish()\n\n    def on_finish(self):\n        ioloop.IOLoop.current().stop()\n", 'R20.3')
M('C02', 'plain-defaultdict-tables', GEN, "    return defaultdict2(lambda: diff, {})", "    import collections\n    return collections.defaultdict(lambda: diff)", 'R02.10')
M('C02', 'overlapping-head-tail-trim', 'nbdime/diffing/seq_bruteforce.py', "def bruteforce_compute_snakes(A, B, compare):",
  "def _common_ends(A, B, compare):\n    n = min(len(A), len(B))\n    head = 0\n    while head < n and compare(A[head], B[head]):\n        head += 1\n    tail = 0\n    while tail < n and compare(A[-1 - tail], B[-1 - tail]):\n        tail += 1\n    return head, tail\n\n\ndef bruteforce_compute_snakes(A, B, compare):", 'R02.11')
T('C02', 'twin-disjoint-head-tail-trim', 'nbdime/diffing/seq_bruteforce.py', "def bruteforce_compute_snakes(A, B, compare):",
  "def _common_ends(A, B, compare):\n    n = min(len(A), len(B))\n    head = 0\n    while head < n and compare(A[head], B[head]):\n        head += 1\n    tail = 0\n    while tail < n - head and compare(A[-1 - tail], B[-1 - tail]):\n        tail += 1\n    return head, tail\n\n\ndef bruteforce_compute_snakes(A, B, compare):")
M('C08', 'trivial-merge-returns-success-without-merging', APP, "    # Git seems to give empty base file for double insertions\n", "    if bfn == rfn:\n        nbformat.write(read_notebook(lfn, on_null='minimal'), mfn)\n        return 0\n\n    # Git seems to give empty base file for double insertions\n", 'R08.1')

# ---- session 4: rules for the defects hunted on the unchanged tree (mutant = the defect comes back; twin = another correct form)
M('C14', 'fallback-exclude-set-typo', PP, "        'id', 'attachments',\n    }", "        'id', 'attachment',\n    }", 'R14.11')
M('C16', 'fallback-exclude-set-drops-outputs', PP, "        'cell_type', 'source', 'execution_count', 'outputs', 'metadata',", "        'cell_type', 'source', 'execution_count', 'metadata',", 'R16.13')
T('C14', 'twin-fallback-exclude-set-extended', PP, "        'id', 'attachments',\n    }", "        'id', 'attachments', 'nbdime-conflicts',\n    }")
M('C14', 'cell-id-gated-by-details', PP, '    if id and config.id:', '    if id and config.details:', 'R14.12')
M('C14', 'cell-metadata-gated-by-details', PP, '    if metadata and config.metadata:\n        # Write cell metadata', '    if metadata and config.details:\n        # Write cell metadata', 'R14.12')
T('C14', 'twin-cell-id-gate-reordered', PP, '    if id and config.id:', '    if config.id and id:')
M('C14', 'one-sided-keys-bypass-differ-table', GEN, '        if not _is_ignored(config, "/".join((path, key))):\n            di.add(key, b[key])', '        di.add(key, b[key])', 'R14.13')
M('C14', 'removed-keys-bypass-differ-table', GEN, '        if not _is_ignored(config, "/".join((path, key))):\n            di.remove(key)', '        di.remove(key)', 'R14.13')
T('C14', 'twin-one-sided-keys-inline-lookup', GEN, '        if not _is_ignored(config, "/".join((path, key))):\n            di.add(key, b[key])',
  '        subpath = "/".join((path, key))\n        if not (subpath in config.differs and config.differs[subpath] is diff_ignore):\n            di.add(key, b[key])')
M('C13', 'renderer-stores-language-on-config', PP, '        config = copy.copy(config)\n        config.language = language_info.get(', '        config.language = language_info.get(', 'R13.4')
M('C13', 'renderer-stores-color-on-config', PP, '    prefix = ""\n\n    if config.language is None:', '    prefix = ""\n    config.use_color = config.use_color and config.out.isatty()\n\n    if config.language is None:', 'R13.4')
T('C13', 'twin-renderer-rebuilds-config', PP, '        config = copy.copy(config)\n        config.language = language_info.get(', '        config = copy.deepcopy(config)\n        config.language = language_info.get(')
M('C16', 'decision-printer-renders-similar-insert', PP, '    diff_keys = ("diff", "local_diff", "remote_diff", "custom_diff")', '    diff_keys = ("diff", "local_diff", "remote_diff", "custom_diff", "similar_insert")', 'R16.14')
T('C16', 'twin-decision-printer-key-list', PP, '    diff_keys = ("diff", "local_diff", "remote_diff", "custom_diff")', '    diff_keys = ["local_diff", "remote_diff", "custom_diff", "diff"]')
M('C16', 'cell-printer-attribute-access', PP, '        pretty_print_metadata(\n            metadata,\n            known_cell_metadata_keys,', '        pretty_print_metadata(\n            cell.metadata,\n            known_cell_metadata_keys,', 'R16.15')
M('C16', 'output-printer-attribute-access', PP, '    metadata = output.get("metadata")\n    if metadata and config.metadata:', '    metadata = output.metadata\n    if metadata and config.metadata:', 'R16.15')
M('C16', 'diff-temp-file-strict-encoding', PP, "        with io.open(os.path.join(td, 'after'), 'w', encoding=\"utf8\",\n                     errors=\"surrogatepass\") as f:", "        with io.open(os.path.join(td, 'after'), 'w', encoding=\"utf8\") as f:", 'R16.16')
M('C07', 'merge-temp-file-strict-encoding', PP, "        with io.open(os.path.join(td, 'remote'), 'w', encoding=\"utf8\",\n                     errors=\"surrogatepass\") as f:", "        with io.open(os.path.join(td, 'remote'), 'w', encoding=\"utf8\") as f:", 'R07.10')
M('C16', 'tool-output-strict-decoding', PP, "        output = output.decode('utf8', errors='surrogatepass')\n        r = re.compile(", "        output = output.decode('utf8')\n        r = re.compile(", 'R16.16')
T('C16', 'twin-temp-files-backslashreplace', PP, 'errors="surrogatepass") as f:', 'errors="backslashreplace") as f:', count=5)
M('C07', 'git-failure-status-returned', PP, '        if 0 <= status <= 127:\n            return merged, status', '        if status >= 0:\n            return merged, status', 'R07.11')
M('C03', 'diff3-trouble-status-returned', PP, '        if status in (0, 1):\n            return merged, status', '        if status in (0, 1, 2):\n            return merged, status', 'R03.21')
M('C07', 'tool-result-returned-unchecked', PP, "        merged, status = merge_render_with_git(b, l, r, strategy)\n        # git merge-file: number of conflicts (at most 127), else an error\n        if 0 <= status <= 127:\n            return merged, status",
  "        return merge_render_with_git(b, l, r, strategy)", 'R07.11')
T('C07', 'twin-git-status-test-other-form', PP, '        if 0 <= status <= 127:\n            return merged, status', '        if not (status < 0 or status > 127):\n            return merged, status')
M('C07', 'diff3-gets-unterminated-text', PP, "    if not all(t.endswith('\\n') for t in (b, l, r)):\n        # diff3 appends its markers to an unterminated last line\n        return builtin_merge_render(b, l, r, strategy)\n", '', 'R07.12')
M('C07', 'diff3-newline-test-misses-base', PP, "    if not all(t.endswith('\\n') for t in (b, l, r)):", "    if not all(t.endswith('\\n') for t in (l, r)):", 'R07.12')
T('C07', 'twin-diff3-newline-test-explicit', PP, "    if not all(t.endswith('\\n') for t in (b, l, r)):", "    if not (b.endswith('\\n') and l.endswith('\\n') and r.endswith('\\n')):")
M('C03', 'similar-cells-of-different-type-recursed', STR, "        if similar and chunktype == 'A/A' and any(\n                lc.get('cell_type') != rc.get('cell_type') for (lc, rc) in\n                zip(d.local_diff[0].valuelist, d.remote_diff[0].valuelist)):\n            # Cells aligned by id but of different types are not merged\n            # field by field\n            similar = False\n", '', 'R03.22')
T('C03', 'twin-id-predicate-compares-cell-type', NBD, "    return 'id' in x and 'id' in y and x['id'] == y['id']", "    if x['cell_type'] != y['cell_type']:\n        return False\n    return 'id' in x and 'id' in y and x['id'] == y['id']",
  edits=[(STR, "        if similar and chunktype == 'A/A' and any(\n                lc.get('cell_type') != rc.get('cell_type') for (lc, rc) in\n                zip(d.local_diff[0].valuelist, d.remote_diff[0].valuelist)):\n            # Cells aligned by id but of different types are not merged\n            # field by field\n            similar = False\n", '')])
M('C08', 'placeholder-keeps-newest-format-version', APP, "    minors = [nb.nbformat_minor for nb in (b, l, r) if nb.cells or nb.metadata]\n    if minors:\n        for nb in (b, l, r):\n            if not (nb.cells or nb.metadata):\n                nb.nbformat_minor = min(minors)\n", '', 'R08.10')
M('C04', 'placeholder-version-aligned-after-merge', APP, "    minors = [nb.nbformat_minor for nb in (b, l, r) if nb.cells or nb.metadata]\n    if minors:\n        for nb in (b, l, r):\n            if not (nb.cells or nb.metadata):\n                nb.nbformat_minor = min(minors)\n\n    merged, decisions = merge_notebooks(b, l, r, args)\n",
  "    merged, decisions = merge_notebooks(b, l, r, args)\n    minors = [nb.nbformat_minor for nb in (b, l, r) if nb.cells or nb.metadata]\n    if minors:\n        for nb in (b, l, r):\n            if not (nb.cells or nb.metadata):\n                nb.nbformat_minor = min(minors)\n", 'R04.8')
M('C16', 'git-no-color-not-passed', PP, '        cmd = cmd.replace(" --color-words", " --no-color")', '        cmd = cmd.replace(" --color-words", "")', 'R16.1')
T('C16', 'twin-git-no-color-appended', PP, '        cmd = cmd.replace(" --color-words", " --no-color")', '        cmd = cmd.replace(" --color-words", "") + " --no-color"')
M('C09', 'attachment-conflicts-keyed-without-combining', STR, '    ldiffs_by_key = {d.key: d for d in combine_patches(local_conflict_diffs)}', '    ldiffs_by_key = {d.key: d for d in local_conflict_diffs}', 'R09.14')
T('C09', 'twin-attachment-conflicts-combined-first', STR, '    ldiffs_by_key = {d.key: d for d in combine_patches(local_conflict_diffs)}', '    local_conflict_diffs = combine_patches(local_conflict_diffs)\n    ldiffs_by_key = {d.key: d for d in local_conflict_diffs}')
M('C05', 'chunk-sanity-guard-tests-per-side-list', 'nbdime/merging/chunks.py', '    if base or any(split_diffs):', '    if base or split_diffs:', 'R05.7')
T('C05', 'twin-chunk-sanity-guard-any-diffs', 'nbdime/merging/chunks.py', '    if base or any(split_diffs):', '    if base or any(d for d in diffs):')

# ---- session 4, round-4 triage
GITF = 'nbdime/gitfiles.py'
_INLINE_DIFF = ("    # Get tree/index for base\n    if ref_base == GitRefIndex:\n        tree_base = repo.index\n    else:\n        tree_base = repo.commit(ref_base).tree\n\n"
                "    if ref_remote in (GitRefWorkingTree, GitRefIndex):\n        diff = tree_base.diff(ref_remote, paths)\n    else:\n        # Get remote tree and diff against base:\n"
                "        tree_remote = repo.commit(ref_remote).tree\n        diff = tree_base.diff(tree_remote, paths)\n")
_HELPER = ("def _diff_entries(repo, ref_base, ref_remote, paths=None):\n    if ref_base == GitRefIndex:\n        tree_base = repo.index\n    else:\n        tree_base = repo.commit(ref_base).tree\n%s"
           "    if ref_remote in (GitRefWorkingTree, GitRefIndex):\n        return tree_base.diff(ref_remote, paths)\n    tree_remote = repo.commit(ref_remote).tree\n    return tree_base.diff(tree_remote, paths)\n\n\n")
T('C17', 'twin-diff-moved-into-helper', GITF, _INLINE_DIFF, '    diff = _diff_entries(repo, ref_base, ref_remote, paths)\n',
  edits=[(GITF, 'def changed_notebooks(ref_base, ref_remote, paths=None, repo_dir=None):', _HELPER % '' + 'def changed_notebooks(ref_base, ref_remote, paths=None, repo_dir=None):')])
M('C17', 'diff-helper-empty-when-index-clean', GITF, _INLINE_DIFF, '    diff = _diff_entries(repo, ref_base, ref_remote, paths)\n', 'R17.3',
  edits=[(GITF, 'def changed_notebooks(ref_base, ref_remote, paths=None, repo_dir=None):',
          _HELPER % "    if ref_remote == GitRefIndex and not repo.is_dirty(working_tree=False):\n        return ()\n" + 'def changed_notebooks(ref_base, ref_remote, paths=None, repo_dir=None):')])
M('C17', 'inline-diff-reset-when-index-clean', GITF, "        diff = tree_base.diff(tree_remote, paths)\n", "        diff = tree_base.diff(tree_remote, paths)\n    if ref_remote == GitRefIndex and not repo.is_dirty(working_tree=False):\n        diff = ()\n", 'R17.3')
M('C01', 'mime-bundle-differ-drops-one-sided-keys', NBD, "        add_mime_diff(key, avalue, bvalue, di)\n\n    for key in sorted(bkeys - akeys):\n        di.add(key, b[key])\n", "        add_mime_diff(key, avalue, bvalue, di)\n\n", 'R01.13')
M('C02', 'dict-differ-drops-removed-keys', GEN, '    for key in sorted(akeys - bkeys):\n        if not _is_ignored(config, "/".join((path, key))):\n            di.remove(key)\n', '', 'R02.14')
M('C01', 'nbpatch-skips-write-for-empty-diff', 'nbdime/nbpatchapp.py', "    if output_filename:\n        # Open the output only", "    if output_filename:\n        if not diff and os.path.exists(output_filename):\n            return 0\n        # Open the output only", 'R01.14')
T('C01', 'twin-nbpatch-writes-then-returns', 'nbdime/nbpatchapp.py', "        with io.open(output_filename, \"wb\") as outfile:\n            outfile.write(data)\n", "        with io.open(output_filename, \"wb\") as outfile:\n            outfile.write(data)\n        return 0\n")
M('C02', 'is-atomic-depth-cutoff', 'nbdime/diffing/config.py', "        try:\n            return self._atomic_paths[path]", "        if path is not None and path.count('/') > 64:\n            return True\n        try:\n            return self._atomic_paths[path]", 'R02.15')
M('C10', 'strategy-gates-line-merge', MG, "            base_lines = base.splitlines(True)\n            _merge_strings.recursion = True\n            try:\n                decisions = _merge_lists(\n                    base_lines, local_diff, remote_diff,\n                    path, parent_decisions, strategies)\n            finally:\n                # Ensure recursion stops even in case of exceptions\n                _merge_strings.recursion = False",
  "            base_lines = base.splitlines(True)\n            if strategy in ('use-local', 'use-remote') and len(base_lines) > 50:\n                decisions.conflict(path, local_diff, remote_diff, strategy)\n            else:\n                _merge_strings.recursion = True\n                try:\n                    decisions = _merge_lists(\n                        base_lines, local_diff, remote_diff,\n                        path, parent_decisions, strategies)\n                finally:\n                    _merge_strings.recursion = False", 'R10.8')
M('C09', 'merged-notebook-post-processed', MNB, "    merged = apply_decisions(base, decisions)\n", "    merged = apply_decisions(base, decisions)\n    merged.metadata.pop('nbdime-conflicts', None)\n", 'R09.16')
M('C05', 'merged-notebook-cleaned-by-helper', MNB, "    merged = apply_decisions(base, decisions)\n", "    merged = apply_decisions(base, decisions)\n    _strip(merged)\n", 'R05.8',
  edits=[(MNB, 'def merge_notebooks(base, local, remote, args=None):', "def _strip(nb):\n    for c in nb.get('cells', []):\n        c.get('metadata', {}).pop('nbdime-conflicts', None)\n\n\ndef merge_notebooks(base, local, remote, args=None):")])
T('C05', 'twin-merged-notebook-inspected-by-helper', MNB, "    merged = apply_decisions(base, decisions)\n", "    merged = apply_decisions(base, decisions)\n    _count(merged)\n",
  edits=[(MNB, 'def merge_notebooks(base, local, remote, args=None):', "def _count(nb):\n    return len(nb.get('cells', []))\n\n\ndef merge_notebooks(base, local, remote, args=None):")])
M('C03', 'combine-patches-fast-path', STR, '    patches = {}\n    inserts = {}\n    newdiffs = []\n    for d in diffs:', '    if all(a.key <= b.key for a, b in zip(diffs, diffs[1:])):\n        return diffs\n    patches = {}\n    inserts = {}\n    newdiffs = []\n    for d in diffs:', 'R03.25')
M('C05', 'lone-side-constant-in-filter', STR, "                custom_diff = [op_removerange(key, 1)]", "                custom_diff = [e for d in decs if d.action == 'local_then_remote' for e in d.local_diff if e.op == DiffOp.ADDRANGE] + [op_removerange(key, 1)]", 'R05.9')
M('C07', 'conflict-halves-cut-with-local-length', PP, "    local = local[:i+1]\n    remote = remote[:j+1]", "    end = len(local) - len(postlines)\n    local = local[:end]\n    remote = remote[:end]", 'R07.15')
M('C08', 'stdout-handler-replace', UT, "errors='backslashreplace')", "errors='replace')", 'R08.11')
M('C14', 'output-alignment-compares-display-metadata', NBD, '    handled = set(("output_type", "metadata", "execution_count"))', '    handled = set(("output_type",))\n    if ot == "execute_result":\n        handled.update(("metadata", "execution_count"))', 'R14.14')
T('C14', 'twin-output-alignment-skip-set-built-later', NBD, '    handled = set(("output_type", "metadata", "execution_count"))', '    handled = set(("output_type",))\n    handled.update(("metadata", "execution_count"))')
M('C15', 'clear-strategy-on-free-form-field', MNB, '            "/cells/*/execution_count": "clear",', '            "/cells/*/execution_count": "clear",\n            "/cells/*/metadata/execution": "clear",', 'R15.9')
M('C15', 'ts-presence-test-with-in', 'packages/nbdime/src/diff/diffentries.ts', 'if (valueIn(key, keys)) {', 'if (key in base) {', 'R15.10')
M('C16', 'item-printer-indexes-splitlines', PP, '        if "\\n" in vstr:\n            # Multiline strings', '        if vstr.splitlines()[0] != vstr:\n            # Multiline strings', 'R16.17')
M('C16', 'helper-called-without-config', PP, "        pretty_print_item(k, v, oprefix, config)", "        pretty_print_item(k, v, oprefix)", 'R16.18')
M('C19', 'subparsers-plain-class', ARGS, "class ConfigBackedParser(argparse.ArgumentParser):", "class ConfigBackedParser(argparse.ArgumentParser):\n    def add_subparsers(self, **kwargs):\n        kwargs.setdefault('parser_class', argparse.ArgumentParser)\n        return super().add_subparsers(**kwargs)\n", 'R19.10')
M('C20', 'handler-params-class-level', SRV, "        self.params = params", "        self.params.update(params)", 'R20.13',
  edits=[(SRV, "class NbdimeHandler(JupyterHandler):", "class NbdimeHandler(JupyterHandler):\n    params = {}\n")])
M('C20', 'output-name-made-absolute', SRV, "def make_app(**params):", "def make_app(**params):\n    if params.get('outputfilename'):\n        params['outputfilename'] = os.path.abspath(params['outputfilename'])", 'R20.14')
T('C20', 'twin-output-name-joined-onto-cwd-param', SRV, "def make_app(**params):", "def make_app(**params):\n    if params.get('outputfilename'):\n        params['outputfilename'] = os.path.join(params.get('cwd', os.curdir), params['outputfilename'])")
M('C11', 'replace-of-possibly-absent-attachment', STR, "                custom_diff += [op_add(local_name, local)]", "                custom_diff += [op_replace(key, local)]", 'R11.10')
M('C11', 'lifting-walks-path-forward', STR, "    for key in reversed(common_path[n:]):", "    for key in common_path[n:]:", 'R11.11')
T('C11', 'twin-lifting-negative-step', STR, "    for key in reversed(common_path[n:]):", "    for key in common_path[n:][::-1]:")
M('C04', 'tryresolve-implements-remove', DEC, '            elif strategy == "take-max":', '            elif strategy == "remove":\n                action = "remove"\n            elif strategy == "take-max":', 'R04.9')
M('C04', 'placeholder-recognised-by-name', APP, "        for nb in (b, l, r):\n            if not (nb.cells or nb.metadata):\n                nb.nbformat_minor = min(minors)", "        for fn, nb in ((bfn, b), (lfn, l), (rfn, r)):\n            if fn == EXPLICIT_MISSING_FILE:\n                nb.nbformat_minor = min(minors)", 'R04.8')
M('C13', 'varargs-helper-mutates-notebooks', MNB, "    # Compute notebook specific diffs\n", "    _touch(base, local, remote)\n    # Compute notebook specific diffs\n", 'R13.1',
  edits=[(MNB, 'def decide_notebook_merge(base, local, remote, args=None):', "def _touch(*nbs):\n    for nb in nbs:\n        nb['nbformat_minor'] = 4\n\n\ndef decide_notebook_merge(base, local, remote, args=None):")])
M('C18', 'attributes-rewritten-through-lossy-decode', 'nbdime/vcs/git/diffdriver.py', "    if os.path.exists(gitattributes):\n        with io.open(gitattributes, encoding=\"utf8\") as f:\n            # (only rule lines count: not a line that was commented out)\n            if any('diff=jupyternotebook' in line.split()\n                   for line in f.read().splitlines()\n                   if not line.lstrip().startswith('#')):\n                # already written, nothing to do\n                return\n    else:\n        ensure_dir_exists(os.path.dirname(gitattributes))\n\n    with io.open(gitattributes, 'a', encoding=\"utf8\") as f:\n        f.write(u'\\n*.ipynb\\tdiff=jupyternotebook\\n')",
  "    _ensure(gitattributes, u'diff=jupyternotebook')", 'R18.4',
  edits=[('nbdime/vcs/git/diffdriver.py', 'def enable(scope=None):', "def _ensure(path, attr):\n    content = u''\n    if os.path.exists(path):\n        with io.open(path, encoding='utf8', errors='replace') as f:\n            content = f.read()\n        if attr in content:\n            return\n    else:\n        ensure_dir_exists(os.path.dirname(path))\n    with io.open(path, 'w', encoding='utf8') as f:\n        f.write(content + u'\\n*.ipynb\\t' + attr + u'\\n')\n\n\ndef enable(scope=None):")])
T('C18', 'twin-attributes-append-in-helper', 'nbdime/vcs/git/diffdriver.py', "    if os.path.exists(gitattributes):\n        with io.open(gitattributes, encoding=\"utf8\") as f:\n            # (only rule lines count: not a line that was commented out)\n            if any('diff=jupyternotebook' in line.split()\n                   for line in f.read().splitlines()\n                   if not line.lstrip().startswith('#')):\n                # already written, nothing to do\n                return\n    else:\n        ensure_dir_exists(os.path.dirname(gitattributes))\n\n    with io.open(gitattributes, 'a', encoding=\"utf8\") as f:\n        f.write(u'\\n*.ipynb\\tdiff=jupyternotebook\\n')",
  "    _ensure(gitattributes, u'diff=jupyternotebook')",
  edits=[('nbdime/vcs/git/diffdriver.py', 'def enable(scope=None):', "def _ensure(path, attr):\n    if os.path.exists(path):\n        with io.open(path, encoding='utf8') as f:\n            if attr in f.read():\n                return\n    else:\n        ensure_dir_exists(os.path.dirname(path))\n    with io.open(path, 'a', encoding='utf8') as f:\n        f.write(u'\\n*.ipynb\\t' + attr + u'\\n')\n\n\ndef enable(scope=None):")])

M('C17', 'three-paths-base-none', ARGS, "            base, remote = 'HEAD', None", "            base = remote = None", 'R17.10')
T('C17', 'twin-three-paths-base-head-two-statements', ARGS, "            base, remote = 'HEAD', None", "            base = 'HEAD'\n            remote = None")
M('C17', 'filter-applied-outside-handler', GF, "                try:\n                    # We are diffing against working dir, so ensure we apply\n                    # any git filters before comparing:\n                    ret = apply_possible_filter(path)", "                ret = apply_possible_filter(path)\n                try:\n                    # We are diffing against working dir", 'R17.11')
M('C17', 'filter-failure-propagates', 'nbdime/vcs/git/filter_integration.py', "        except CalledProcessError:\n            # Like git does for a filter that is not required: use the\n            # file as it is\n            return path", "        except ValueError:\n            return path", 'R17.11')
M('C17', 'check-attr-without-double-dash', 'nbdime/vcs/git/filter_integration.py', "['git', 'check-attr', '-z', 'filter', '--', path]", "['git', 'check-attr', '-z', 'filter', path]", 'R17.12')
M('C17', 'deleted-entry-read-from-disk', GF, "            entry.b_path, entry.b_blob, ref_remote, repo_dir,\n            missing=entry.deleted_file)", "            entry.b_path, entry.b_blob, ref_remote, repo_dir)", 'R17.13')
T('C17', 'twin-deletion-by-change-type', GF, "            missing=entry.deleted_file)", "            missing=(entry.change_type == 'D'))")

# ---- session 4, round-5 triage
M('C02', 'dict-differ-skips-two-falsy-values', GEN, "        avalue = a[key]\n        bvalue = b[key]\n", "        avalue = a[key]\n        bvalue = b[key]\n        if not avalue and not bvalue:\n            continue\n", 'R02.17')
M('C12', 'predicate-list-trimmed-in-place', GEN, "    compares = config.predicates[path or '/']\n    if len(compares) > 1:\n        assert shallow_diff is None", "    compares = config.predicates[path or '/']\n    if len(a) * len(b) > 10000:\n        del compares[:-2]\n    if len(compares) > 1:\n        assert shallow_diff is None", 'R12.10')
M('C14', 'ignored-path-test-memoised', GEN, "def _is_ignored(config, path):", "@lru_cache(maxsize=512)\ndef _is_ignored(config, path):", 'R14.16',
  edits=[(GEN, "def diff_ignore(*args, **kwargs):", "from functools import lru_cache\n\n\ndef diff_ignore(*args, **kwargs):")])
M('C12', 'flag-memo-in-args', ARGS, "def process_diff_flags(args):", "_last_flags = {}\n\n\ndef process_diff_flags(args):\n    _last_flags.update(vars(args))", 'R12.12')
M('C18', 'driver-registered-after-attributes-check', DRV, "    check_call(cmd + ['merge.jupyternotebook.driver', 'git-nbmergedriver merge %O %A %B %L %P'])\n    check_call(cmd + ['merge.jupyternotebook.name', 'jupyter notebook merge driver'])\n\n    gitattributes = locate_gitattributes(scope)", "    gitattributes = locate_gitattributes(scope)", 'R18.11',
  edits=[(DRV, "    with io.open(gitattributes, 'a', encoding=\"utf8\") as f:\n        f.write(u'\\n*.ipynb\\tmerge=jupyternotebook\\n')", "    check_call(cmd + ['merge.jupyternotebook.driver', 'git-nbmergedriver merge %O %A %B %L %P'])\n    check_call(cmd + ['merge.jupyternotebook.name', 'jupyter notebook merge driver'])\n    with io.open(gitattributes, 'a', encoding=\"utf8\") as f:\n        f.write(u'\\n*.ipynb\\tmerge=jupyternotebook\\n')")])
M('C09', 'decisions-dump-raw-unicode', APP, "json.dumps(decisions, indent=2)", "json.dumps(decisions, indent=2, ensure_ascii=False)", 'R09.17')
M('C17', 'blob-decoded-lossy', GF, "blob.data_stream.read().decode('utf-8')", "blob.data_stream.read().decode('utf-8', 'replace')", 'R17.14')
M('C20', 'request-name-unescaped', SRV, "        body = json.loads(escape.to_unicode(self.request.body))\n        arg = body[argname]\n", "        body = json.loads(escape.to_unicode(self.request.body))\n        arg = escape.url_unescape(body[argname])\n", 'R20.15')
M('C20', 'store-keeps-backup-copy', SRV, "        with io.open(path, 'w', encoding='utf8') as f:\n            f.write(text)", "        if os.path.isfile(path):\n            shutil.copyfile(path, path + '.orig')\n        with io.open(path, 'w', encoding='utf8') as f:\n            f.write(text)", 'R20.4',
  edits=[(SRV, "import io\n", "import io\nimport shutil\n")])
M('C19', 'entrypoint-by-prefix', ARGS, "        entrypoint = self.prog.split(' ')[0]", "        entrypoint = next((e for e in entrypoint_configurables if self.prog.startswith(e)), self.prog.split(' ')[0])", 'R19.11')
M('C19', 'sections-layered-shallowly', CFGPY, "                recursive_update(config, disk_config[c.__name__], include_none)", "                config.update(disk_config[c.__name__])", 'R19.3')
M('C04', 'clear-of-absent-key-is-noop', DEC, "                return [op_add(key, make_cleared_value(added))]", "                return []", 'R04.10')
M('C01', 'reviver-validates-payload', DU, "def to_diffentry_dicts(di):", "def to_diffentry_dicts(di):\n    if isinstance(di, dict) and 'op' in di and 'key' not in di:\n        raise NBDiffFormatError('malformed diff entry')", 'R01.17')
M('C03', 'fail-strategy-raises-in-generic-resolver', STR, '    if strategy.startswith("use-"):', '    if strategy == "fail":\n        raise RuntimeError("Unexpected conflict")\n    elif strategy.startswith("use-"):', 'R03.4')
M('C05', 'strict-equal-ordered-items', GEN, "        return x.keys() == y.keys() and all(strict_equal(x[k], y[k]) for k in x)", "        x, y = tuple(x.items()), tuple(y.items())", 'R05.11')
T('C05', 'twin-strict-equal-set-of-keys', GEN, "        return x.keys() == y.keys() and all(strict_equal(x[k], y[k]) for k in x)", "        return set(x) == set(y) and all(strict_equal(x[k], y[k]) for k in x)")
M('C16', 'pprint-width-computed', PP, "    listr = pprint.pformat(li)", "    listr = pprint.pformat(li, width=MAXWIDTH - len(prefix))", 'R16.19')
T('C16', 'twin-pprint-width-clamped', PP, "    listr = pprint.pformat(li)", "    listr = pprint.pformat(li, width=max(1, MAXWIDTH - len(prefix)))")

# ---- batch-3 refactoring twins: statement forms of the status computation
T('C08', 'twin-status-if-else-statement', APP, "    returncode = 1 if conflicted else 0\n", "    if conflicted:\n        returncode = 1\n    else:\n        returncode = 0\n")
T('C08', 'twin-status-default-then-override', APP, "    returncode = 1 if conflicted else 0\n", "    returncode = 0\n    if conflicted:\n        returncode = 1\n")
M('C08', 'status-if-else-statement-inverted', APP, "    returncode = 1 if conflicted else 0\n", "    if not conflicted:\n        returncode = 1\n    else:\n        returncode = 0\n", 'R08.1')
M('C08', 'status-override-under-unrelated-test', APP, "    returncode = 1 if conflicted else 0\n", "    returncode = 0\n    if args.decisions:\n        returncode = 1\n", 'R08.1')

# ---- batch-3: statement (loop) form of the attributes marker scan
_MD_SCAN_OLD = """            if any('merge=jupyternotebook' in line.split()
                   for line in f.read().splitlines()
                   if not line.lstrip().startswith('#')):
                # already written, nothing to do
                return
"""
T('C18', 'twin-marker-scan-as-loop', 'nbdime/vcs/git/mergedriver.py', _MD_SCAN_OLD,
  """            for line in f.read().splitlines():
                if line.lstrip().startswith('#'):
                    continue
                if 'merge=jupyternotebook' in line.split():
                    return
""")
M('C18', 'marker-scan-loop-without-comment-skip', 'nbdime/vcs/git/mergedriver.py', _MD_SCAN_OLD,
  """            for line in f.read().splitlines():
                if 'merge=jupyternotebook' in line:
                    return
""", 'R18.4')
M('C18', 'marker-scan-loop-breaks-early', 'nbdime/vcs/git/mergedriver.py', _MD_SCAN_OLD,
  """            for line in f.read().splitlines():
                if line.lstrip().startswith('#'):
                    continue
                if not line.strip():
                    break
                if 'merge=jupyternotebook' in line.split():
                    return
""", 'R18.4')

# ---- round 6
M('C04', 'conflicts-recorded-inside-string-typed-namespace', MNB, '        "/cells/*/metadata": metadata_strategy,\n',
  '        "/cells/*/metadata": metadata_strategy,\n        "/cells/*/metadata/execution": metadata_strategy,\n', 'R04.1')
T('C04', 'twin-conflicts-recorded-in-free-form-namespace', MNB, '        "/cells/*/metadata": metadata_strategy,\n',
  '        "/cells/*/metadata": metadata_strategy,\n        "/cells/*/metadata/jupyter": metadata_strategy,\n')
M('C02', 'predicate-asked-with-swapped-operands', 'nbdime/diffing/seq_bruteforce.py', '    return [[compare(a, b) for b in B] for a in A]', '    return [[compare(b, a) for b in B] for a in A]', 'R02.20')
M('C02', 'shorter-sequence-first-optimisation', 'nbdime/diffing/snakes.py', '    snakes = bruteforce_compute_snakes(A[i0:i1], B[j0:j1], compare)\n',
  '    snakes = [(i, j, n) for (j, i, n) in bruteforce_compute_snakes(B[j0:j1], A[i0:i1], compare)]\n', 'R02.20')
T('C02', 'twin-slices-named-before-the-call', 'nbdime/diffing/snakes.py', '    snakes = bruteforce_compute_snakes(A[i0:i1], B[j0:j1], compare)\n',
  '    sub_a, sub_b = A[i0:i1], B[j0:j1]\n    snakes = bruteforce_compute_snakes(sub_a, sub_b, compare)\n')
M('C07', 'replace-vs-delete-registered-as-keep-base-conflict', MG, "            decisions.onesided(path, a0, a1)\n            decisions.agreement(path, p0, p1)\n",
  "            decisions.conflict(path, d0, d1, item_strategy)\n", 'R07.16')
T('C07', 'twin-replace-vs-delete-agreement-first', MG, "            decisions.onesided(path, a0, a1)\n            decisions.agreement(path, p0, p1)\n",
  "            decisions.agreement(path, p0, p1)\n            decisions.onesided(path, a0, a1)\n")
M('C08', 'conflict-list-made-lazy-and-read-twice', APP, "    conflicted = [d for d in decisions if d.conflict]\n\n    returncode = 1 if conflicted else 0\n",
  "    conflicted = (d for d in decisions if d.conflict)\n    for d in conflicted:\n        logger.debug('conflict at %s', d.common_path)\n\n    returncode = 1 if any(conflicted) else 0\n", 'R08.13')
T('C08', 'twin-conflict-list-logged-then-tested', APP, "    conflicted = [d for d in decisions if d.conflict]\n\n    returncode = 1 if conflicted else 0\n",
  "    conflicted = [d for d in decisions if d.conflict]\n    for d in conflicted:\n        logger.debug('conflict at %s', d.common_path)\n\n    returncode = 1 if conflicted else 0\n")
M('C08', 'failed-write-removes-the-output', APP, "        _write_output(mfn, text)\n", "        try:\n            _write_output(mfn, text)\n        except Exception:\n            if os.path.isfile(mfn):\n                os.remove(mfn)\n            raise\n", 'R08.14')
T('C08', 'twin-failed-write-logged-and-reraised', APP, "        _write_output(mfn, text)\n", "        try:\n            _write_output(mfn, text)\n        except Exception:\n            logger.error('could not write %s', mfn)\n            raise\n")
M('C10', 'has-conflicted-behind-a-cached-flag', DEC, "        return any(d.conflict for d in self.decisions)", "        return getattr(self, '_seen_conflict', False) and any(d.conflict for d in self.decisions)", 'R10.10')
T('C10', 'twin-has-conflicted-via-get-conflicted', DEC, "        return any(d.conflict for d in self.decisions)", "        return bool(self.get_conflicted())")
M('C13', 'inserted-cells-list-extended-in-place', STR, "    lcells = local_diff[0].valuelist + base_cells[start : start + lkeep]\n",
  "    lcells = local_diff[0].valuelist\n    lcells += base_cells[start : start + lkeep]\n", 'R13.3')
T('C13', 'twin-inserted-cells-list-copied-then-extended', STR, "    lcells = local_diff[0].valuelist + base_cells[start : start + lkeep]\n",
  "    lcells = list(local_diff[0].valuelist)\n    lcells += base_cells[start : start + lkeep]\n")
M('C11', 'remove-strategy-counts-entries-instead-of-ops', STR, "            if all(e.op == DiffOp.ADDRANGE for e in local_diff + remote_diff):\n",
  "            if (len(local_diff) == len(remote_diff) == 1 and\n                    local_diff[0].op == remote_diff[0].op == DiffOp.ADDRANGE):\n", 'R11.12')
T('C11', 'twin-remove-strategy-any-existing-op', STR, "            if all(e.op == DiffOp.ADDRANGE for e in local_diff + remote_diff):\n",
  "            if not any(e.op != DiffOp.ADDRANGE for e in local_diff + remote_diff):\n")
M('C11', 'inline-cells-keeps-both-sides-removal', STR, "            rdiff = []\n            if len(d.local_diff) > 1:\n                rdiff.append(d.local_diff[1])\n            elif len(d.remote_diff) > 1:\n                rdiff.append(d.remote_diff[1])\n",
  "            rdiff = d.local_diff[1:] + d.remote_diff[1:]\n", 'R11.13')
T('C11', 'twin-inline-cells-removal-by-conditional-expression', STR, "            rdiff = []\n            if len(d.local_diff) > 1:\n                rdiff.append(d.local_diff[1])\n            elif len(d.remote_diff) > 1:\n                rdiff.append(d.remote_diff[1])\n",
  "            rdiff = []\n            if len(d.local_diff) > 1:\n                rdiff = [d.local_diff[1]]\n            elif len(d.remote_diff) > 1:\n                rdiff = [d.remote_diff[1]]\n")
M('C15', 'python-side-repairs-merged-document', DEC, "    merged = nbformat.from_dict(merged)\n    return merged\n",
  "    merged = nbformat.from_dict(merged)\n    for i, c in enumerate(merged.get('cells', [])):\n        c.setdefault('metadata', {})\n    return merged\n", 'R15.11')
T('C15', 'twin-conversion-and-return-in-one', DEC, "    merged = nbformat.from_dict(merged)\n    return merged\n", "    merged = nbformat.from_dict(merged)\n    'converted'\n    return merged\n")
M('C15', 'onesided-chunks-registered-in-a-first-pass', MG, "    for (key, chunk_end, d0, d1) in chunks:\n        item_path = path + (key,)\n",
  "    twosided = []\n    for chunk in chunks:\n        if bool(chunk[2]) != bool(chunk[3]):\n            decisions.onesided(path, chunk[2], chunk[3])\n        elif chunk[2]:\n            twosided.append(chunk)\n    for (key, chunk_end, d0, d1) in twosided:\n        item_path = path + (key,)\n", 'R15.12')
T('C15', 'twin-chunk-loop-with-enumerate-free-alias', MG, "    for (key, chunk_end, d0, d1) in chunks:\n        item_path = path + (key,)\n",
  "    for chunk in chunks:\n        (key, chunk_end, d0, d1) = chunk\n        item_path = path + (key,)\n")
M('C16', 'nbshow-reads-without-conversion', 'nbdime/nbshowapp.py', "        nb = nbformat.read(fn, as_version=4)", "        nb = nbformat.read(fn, as_version=nbformat.NO_CONVERT)", 'R16.20')
M('C16', 'git-header-cut-at-first-hunk-unchecked', PP, '    return "".join(diff.splitlines(True)[4:])', "    return diff[re.search(r'^@@ ', diff, flags=re.M).start():]", 'R16.21')
T('C16', 'twin-git-header-cut-at-first-hunk-checked', PP, '    return "".join(diff.splitlines(True)[4:])',
  "    m = re.search(r'^@@ ', diff, flags=re.M)\n    if m is not None and len(diff.splitlines(True)[:4]) == 4 and m.start() == len(''.join(diff.splitlines(True)[:4])):\n        return diff[m.start():]\n    return \"\".join(diff.splitlines(True)[4:])")
M('C17', 'path-filters-globbed-against-cwd', ARGS, "    return base, remote, paths\n\n\ndef add_merge_args", "    if paths:\n        import glob\n        paths = [m for p in ([paths] if isinstance(paths, str) else paths) for m in (glob.glob(p) or [p])]\n    return base, remote, paths\n\n\ndef add_merge_args", 'R17.15')
T('C17', 'twin-path-filters-copied-to-a-list', ARGS, "    return base, remote, paths\n\n\ndef add_merge_args", "    if isinstance(paths, tuple):\n        paths = list(paths)\n    return base, remote, paths\n\n\ndef add_merge_args")
M('C17', 'clean-filter-run-without-shell', 'nbdime/vcs/git/filter_integration.py', "                filter_cmd,\n                stdin=f,\n                stderr=STDOUT, shell=True\n", "                filter_cmd.split(),\n                stdin=f,\n                stderr=STDOUT\n", 'R17.16')
T('C17', 'twin-clean-filter-keywords-reordered', 'nbdime/vcs/git/filter_integration.py', "                filter_cmd,\n                stdin=f,\n                stderr=STDOUT, shell=True\n", "                filter_cmd,\n                shell=True,\n                stdin=f,\n                stderr=STDOUT\n")
M('C18', 'attributes-looked-up-in-parent-directories', UT, "        if not os.path.exists(os.path.join(path, '.git')):\n            return None\n",
  "        while not os.path.exists(os.path.join(path, '.git')):\n            if os.path.dirname(path) == path:\n                return None\n            path = os.path.dirname(path)\n", 'R18.12')
M('C18', 'git-probe-accepts-directories-only', UT, "        if not os.path.exists(os.path.join(path, '.git')):", "        if not os.path.isdir(os.path.join(path, '.git')):", 'R18.12')
T('C18', 'twin-git-probe-by-lexists', UT, "        if not os.path.exists(os.path.join(path, '.git')):", "        if not os.path.lexists(os.path.join(path, '.git')):")
M('C18', 'driver-section-removed-only-for-the-default-command', DDR, "    try:\n        check_call(cmd + ['--remove-section', 'diff.jupyternotebook'])",
  "    from subprocess import check_output\n    try:\n        cur = check_output(cmd + ['--get', 'diff.jupyternotebook.command']).decode().strip()\n    except CalledProcessError:\n        return\n    if cur != 'git-nbdiffdriver diff':\n        return\n    try:\n        check_call(cmd + ['--remove-section', 'diff.jupyternotebook'])", 'R18.13')
M('C19', 'config-keys-normalised-on-update', CFGPY, "    for k, v in new.items():\n        if isinstance(v, dict):", "    for k, v in new.items():\n        k = k.replace('-', '_')\n        if isinstance(v, dict):", 'R19.12')
M('C20', 'api-diff-answers-from-any-tools-arguments', SRV, "        if 'difftool_args' in self.params:\n            arg = self.params['difftool_args'][argname]",
  "        tool_args = self.params.get('difftool_args') or self.params.get('mergetool_args')\n        if tool_args is not None:\n            arg = tool_args[argname]", 'R20.16')
M('C19', 'working-directory-config-applied-first-not-last', CFGPY, "    path = jupyter_config_path()\n    path.insert(0, os.getcwd())\n", "    path = jupyter_config_path() + [os.getcwd()]\n", 'R19.3')
T('C19', 'twin-search-path-built-by-concatenation', CFGPY, "    path = jupyter_config_path()\n    path.insert(0, os.getcwd())\n", "    path = [os.getcwd()] + jupyter_config_path()\n")
M('C12', 'strategies-default-transients-shared', UT, '    def __init__(self, *args, **kwargs):\n        self.transients = kwargs.pop("transients", [])\n        self.fall_back = kwargs.pop("fall_back", None)\n',
  '    def __init__(self, *args, transients=[], fall_back=None, **kwargs):\n        self.transients = transients\n        self.fall_back = fall_back\n', 'R12.13')
T('C12', 'twin-strategies-default-transients-none', UT, '    def __init__(self, *args, **kwargs):\n        self.transients = kwargs.pop("transients", [])\n        self.fall_back = kwargs.pop("fall_back", None)\n',
  '    def __init__(self, *args, transients=None, fall_back=None, **kwargs):\n        self.transients = [] if transients is None else transients\n        self.fall_back = fall_back\n')
M('C19', 'configured-ignores-dropped-when-a-flag-is-given', ARGS, "            if ignore:\n                set_notebook_diff_ignores(ignore)", "            if ignore and not (args and any(a.startswith('-') for a in args)):\n                set_notebook_diff_ignores(ignore)", 'R19.13')
T('C19', 'twin-configured-ignores-tested-for-none', ARGS, "            if ignore:\n                set_notebook_diff_ignores(ignore)", "            if ignore is not None and ignore:\n                set_notebook_diff_ignores(ignore)")
M('C06', 'cell-ids-demoted-below-content', NBD, "        compare_cell_strict,\n        compare_cell_by_ids,\n        ],", "        compare_cell_by_ids,\n        compare_cell_strict,\n        ],", 'R06.2')
T('C17', 'twin-is-gitref-as-guard-clauses', GF, "    return (\n        (candidate is None or not os.path.exists(candidate)) and\n        candidate != EXPLICIT_MISSING_FILE and\n        is_valid_gitref(candidate)\n        )",
  "    if candidate is not None and os.path.exists(candidate):\n        return False\n    if candidate == EXPLICIT_MISSING_FILE:\n        return False\n    return is_valid_gitref(candidate)")
M('C17', 'is-gitref-guard-clauses-forget-the-null-file', GF, "    return (\n        (candidate is None or not os.path.exists(candidate)) and\n        candidate != EXPLICIT_MISSING_FILE and\n        is_valid_gitref(candidate)\n        )",
  "    if candidate is not None and os.path.exists(candidate):\n        return False\n    return is_valid_gitref(candidate)", 'R17.4')
M('C10', 'generic-resolver-always-takes-remote', STR, '        action = strategy.replace("use-", "")', '        action = "remote"', 'R10.1')
M('C03', 'conflict-record-written-over-surviving-decisions', STR, '    _drop_decisions_on_keys(decisions, base_path, ("nbdime-conflicts",))\n', '', 'R03.27')
M('C03', 'attachment-copies-written-over-surviving-decisions', STR, "            _drop_decisions_on_keys(decisions, base_path, (local_name, remote_name))\n", '', 'R03.27')
T('C03', 'twin-surviving-decisions-dropped-by-inline-filter', STR, '    _drop_decisions_on_keys(decisions, base_path, ("nbdime-conflicts",))\n',
  '    decisions.decisions = [d for d in decisions if not any(e.key == "nbdime-conflicts" for e in list(d.local_diff or []) + list(d.remote_diff or []))]\n')
M('C04', 'bundled-decisions-moved-to-the-list-level', STR, "            key = d.common_path[level]\n", "            key = d.common_path[level]\n            d = push_patch_decision(d, d.common_path[level:])\n", 'R04.11')
M('C03', 'both-sided-removal-branch-dropped', MG, "        if len(ldiff) == 2 and len(rdiff) == 2:\n            # Same length removals ensured by chunking\n            assert ldiff[1].length == rdiff[1].length\n            decisions.agreement(path, ldiff[1:], rdiff[1:])\n        elif len(ldiff) == 2 or len(rdiff) == 2:",
  "        if len(ldiff) == 2 or len(rdiff) == 2:", 'R03.28')
M('C03', 'transients-none-when-not-ignored', MNB, "    ignore_transients = args.ignore_transients if args else True\n    if ignore_transients:\n", "    ignore_transients = args.ignore_transients if args else True\n    strategies.transients = None if not ignore_transients else []\n    if ignore_transients:\n", 'R03.29')
T('C03', 'twin-transients-empty-list-when-not-ignored', MNB, "    ignore_transients = args.ignore_transients if args else True\n    if ignore_transients:\n", "    ignore_transients = args.ignore_transients if args else True\n    strategies.transients = [] if not ignore_transients else []\n    if ignore_transients:\n")
M('C04', 'decisions-file-in-locale-encoding', APP, '    data = text.encode("utf8")\n    with io.open(filename, "wb") as outfile:\n        outfile.write(data)', '    with io.open(filename, "w") as outfile:\n        outfile.write(text)', 'R04.12')

M('C08', 'output-opened-before-serialising', APP, '        text = nbformat.writes(merged)\n        if not text.endswith("\\n"):\n            text += "\\n"\n        _write_output(mfn, text)\n', '        nbformat.write(merged, mfn)\n', 'R08.16')
M('C08', 'stdout-notebook-with-raw-non-ascii', APP, '            ensure_ascii=encoding.replace("-", "").replace("_", "") != "utf8")', '            ensure_ascii=False)', 'R08.11')
T('C08', 'twin-stdout-notebook-always-ascii', APP, '            ensure_ascii=encoding.replace("-", "").replace("_", "") != "utf8")', '            ensure_ascii=True)')
M('C05', 'strict-comparison-without-nan-clause', GEN, "    if x != x and y != y:\n        # NaN (which Python's json and nbformat read and write) is the one\n        # value that is not equal to itself\n        return True\n", "", 'R05.14')
T('C05', 'twin-nan-clause-by-isnan', GEN, "    if x != x and y != y:\n", "    import math\n    if isinstance(x, float) and isinstance(y, float) and math.isnan(x) and math.isnan(y):\n")
M('C11', 'clear-all-removal-of-nothing', STR, "        custom_diff = [op_removerange(0, len(base))] if base else []\n", "        custom_diff = [op_removerange(0, len(base))]\n", 'R11.15')
T('C11', 'twin-clear-all-guarded-by-statement', STR, "        custom_diff = [op_removerange(0, len(base))] if base else []\n", "        custom_diff = []\n        if len(base) > 0:\n            custom_diff = [op_removerange(0, len(base))]\n")
M('C11', 'combine-patches-keeps-insertions-apart', STR, "                a.valuelist = a.valuelist + d.valuelist\n", "                newdiffs.append(d)\n", 'R11.14')
M('C17', 'two-words-file-then-ref-treated-as-ref-pair', ARGS, "        if is_gitref(base) and not is_gitref(remote):\n            paths = remote\n            remote = None\n", "        if not is_gitref(remote):\n            paths = remote\n            remote = None\n", 'R17.17')
M('C12', 'key-filter-wrapped-around-key-filter', NBD, "            notebook_differs[path] = diff_ignore_keys(inner, keys)\n", "            notebook_differs[path] = diff_ignore_keys(notebook_differs[path], subkeys)\n", 'R12.14')

M('C01', 'nbpatch-output-opened-before-serialising', 'nbdime/nbpatchapp.py', "        with io.open(output_filename, \"wb\") as outfile:\n            outfile.write(data)\n", "        nbformat.write(after, output_filename)\n", 'R01.22')
M('C02', 'strict-comparison-without-signed-zero-clause', GEN, "    if isinstance(x, float) and isinstance(y, float) and x == y == 0:\n        # 0.0 == -0.0, but they are written differently\n        return math.copysign(1.0, x) == math.copysign(1.0, y)\n", "", 'R02.23')
M('C02', 'unrecursed-values-compared-shallowly', GEN, "            if not strict_equal(avalue, bvalue):\n                di.replace(key, bvalue)", "            if not compare_strict(avalue, bvalue):\n                di.replace(key, bvalue)", 'R02.23')

M('C14', 'output-renderer-prints-metadata-unconditionally', PP, '    metadata = output.get("metadata")\n    if metadata and config.metadata:', '    metadata = output.get("metadata")\n    if metadata:', 'R14.20')
M('C14', 'format-version-not-a-detail-for-the-differ', NBD, "        '/nbformat_minor': not details,\n", "", 'R14.19')
M('C14', 'printer-hides-every-other-cell-field-as-detail', PP, "        if starred.startswith('/cells/*/execution_count'):\n            return not self.details", "        if starred.startswith('/cells/*/'):\n            return not self.details", 'R14.19')
M('C14', 'ignore-consulted-only-for-same-typed-values', GEN, "        if _is_ignored(config, subpath):\n            # (whatever the types of the two values: null -> 2 is a change\n            # of the ignored field like 1 -> 2)\n            continue\n", "", 'R14.7')
M('C16', 'assertion-on-tool-output', PP, "        if n <= 2:\n            output = stripped\n", "        assert n <= 2, 'unexpected output'\n        output = stripped\n", 'R16.22')
M('C14', 'unwrapped-key-filter-loses-its-keys', NBD, "                keys = list(inner.ignore_keys) + [\n                    k for k in keys if k not in inner.ignore_keys]\n", "", 'R14.4')

# ---------------------------------------------------------------------------------------------- round 8 rules
SEQ = 'nbdime/diffing/sequences.py'
M('C20', 'merge-endpoint-answers-identical-sides-itself', SRV, "        try:\n            decisions = decide_notebook_merge(base_nb, local_nb, remote_nb,",
  "        if local_nb == remote_nb:\n            self.finish({'base': base_nb, 'merge_decisions': []})\n            return\n        try:\n            decisions = decide_notebook_merge(base_nb, local_nb, remote_nb,", 'R20.18')
T('C20', 'twin-merge-endpoint-data-built-inline', SRV, "        data = {\n            'base': base_nb,\n            'merge_decisions': decisions\n            }\n        self.finish(data)",
  "        self.finish({\n            'base': base_nb,\n            'merge_decisions': decisions\n            })")
M('C18', 'diffdriver-disable-skips-outside-repository-root', DDR, "        cmd.append('--%s' % scope)\n    try:\n        check_call(cmd + ['--remove-section', 'diff.jupyternotebook'])",
  "        cmd.append('--%s' % scope)\n    elif not os.path.exists('.git'):\n        return\n    try:\n        check_call(cmd + ['--remove-section', 'diff.jupyternotebook'])", 'R18.15')
T('C18', 'twin-diffdriver-disable-section-named', DDR, "    try:\n        check_call(cmd + ['--remove-section', 'diff.jupyternotebook'])",
  "    section = 'diff.jupyternotebook'\n    try:\n        check_call(cmd + ['--remove-section', section])")
M('C03', 'large-two-sided-insertions-conflict-unaligned', MG, "    intermediate_diff = perform_diff(\n        local, remote, path=star_path(path),",
  "    if len(local) * len(remote) > 400:\n        decisions = MergeDecisionBuilder()\n        decisions.conflict(path, [op_addrange(key, local)], [op_addrange(key, remote)], item_strategy)\n        return decisions\n    intermediate_diff = perform_diff(\n        local, remote, path=star_path(path),", 'R03.31')
T('C03', 'twin-split-addrange-builder-created-first', MG, "    intermediate_diff = perform_diff(\n        local, remote, path=star_path(path),\n        config=copy.copy(notebook_config)\n    )\n\n    # Next, translate the diff into decisions\n    decisions = MergeDecisionBuilder()\n",
  "    decisions = MergeDecisionBuilder()\n    intermediate_diff = perform_diff(\n        local, remote, path=star_path(path),\n        config=copy.copy(notebook_config)\n    )\n\n    # Next, translate the diff into decisions\n")
M('C16', 'difflib-renderer-header-dropped-by-index', PP, '    return "".join(diff.splitlines(True)[2:])', "    return diff.split('\\n', 2)[2]", 'R16.24')
T('C16', 'twin-difflib-renderer-header-dropped-by-slice-of-a-local', PP, '    return "".join(diff.splitlines(True)[2:])', '    lines = diff.splitlines(True)\n    return "".join(lines[2:])')
M('C13', 'diff-notebooks-joins-lines-in-place', NBD, "def diff_notebooks(a, b):", "def diff_notebooks(a, b):\n    from nbformat.v4.rwbase import rejoin_lines\n    a = rejoin_lines(a)\n    b = rejoin_lines(b)", 'R13.1')
M('C07', 'diff3-base-sections-filtered-by-line-prefix', PP, "    merged, status = external_merge_render(cmd.split(), b, l, r)\n    return merged, status\n\n\ndef merge_render(",
  "    merged, status = external_merge_render(cmd.split(), b, l, r)\n    keep, skip = [], False\n    for line in merged.splitlines(True):\n        if line.startswith('|||||||'):\n            skip = True\n        elif skip and line.startswith('======='):\n            skip = False\n        if not skip:\n            keep.append(line)\n    merged = ''.join(keep)\n    return merged, status\n\n\ndef merge_render(", 'R07.18')
T('C07', 'twin-diff3-result-returned-directly', PP, "    merged, status = external_merge_render(cmd.split(), b, l, r)\n    return merged, status\n\n\ndef merge_render(", "    return external_merge_render(cmd.split(), b, l, r)\n\n\ndef merge_render(")
M('C02', 'op-add-rejects-null', DF, '    "Create a diff entry to add value at/before key."\n', '    "Create a diff entry to add value at/before key."\n    assert value is not None, "Add op needs a value"\n', 'R02.26')
M('C01', 'op-replace-rejects-null', DF, '    "Create a diff entry to replace value at key with given value."\n', '    "Create a diff entry to replace value at key with given value."\n    if value is None:\n        raise ValueError("no value")\n', 'R01.24')
T('C02', 'twin-op-add-keywords-reordered', DF, "    return DiffEntry(op=DiffOp.ADD, key=key, value=value)", "    return DiffEntry(key=key, op=DiffOp.ADD, value=value)")
M('C15', 'ts-patch-sequence-spreads-valuelist', TSGEN, "      patched = patched.concat(e.valuelist);", "      patched.push(...(e.valuelist as JSONArray));", 'R15.13')
T('C15', 'twin-ts-patch-sequence-pushes-in-a-loop', TSGEN, "      patched = patched.concat(e.valuelist);", "      for (let v of e.valuelist) {\n        patched.push(v);\n      }")
M('C15', 'ts-apply-decisions-compares-joined-paths', TSDEC, "    if (arraysEqual(path, prevPath)) {", "    if (prevPath !== null && path.join('/') === prevPath.join('/')) {", 'R15.14')
M('C04', 'kept-cell-loses-transient-part-of-its-diff', MG, "                is_transient = is_diff_all_transients(thediff, item_path, transients)\n",
  "                is_transient = is_diff_all_transients(thediff, item_path, transients)\n                if not is_transient:\n                    thediff = [e for e in thediff if star_path(item_path + (e.key,)) not in transients]\n", 'R04.14')
M('C10', 'dict-removal-conflict-arbitrated-by-the-dict', MG, "            decisions.conflict(path, [ld], [rd], item_strategy)\n", "            decisions.conflict(path, [ld], [rd], dict_strategy)\n", 'R10.12', count=4)
M('C10', 'open-transient-conflicts-settled-after-the-strategies', MNB, "    # Debug outputs\n    if args and args.log_level == \"DEBUG\":\n        nbdime.log.debug(\"In merge, decisions:\")",
  "    for d in decisions:\n        if d.conflict and d.action == 'base' and not d.get('custom_diff'):\n            d.conflict = False\n    # Debug outputs\n    if args and args.log_level == \"DEBUG\":\n        nbdime.log.debug(\"In merge, decisions:\")", 'R10.13')
T('C10', 'twin-decisions-returned-through-a-local', MNB, "        nbdime.log.debug(config.out.getvalue())\n\n    return decisions\n", "        nbdime.log.debug(config.out.getvalue())\n\n    result = decisions\n    return result\n")
M('C05', 'transient-add-add-settled-as-either', MG, "        elif strict_equal(ld, rd):", "        elif star_path(item_path) in getattr(strategies, 'transients', ()) and ld.op == rd.op == DiffOp.ADD:\n            decisions.add_decision(path, 'either', [ld], [rd])\n        elif strict_equal(ld, rd):", 'R05.16')
M('C01', 'long-scalar-lists-aligned-by-difflib', SEQ, '    if diff_sequence_algorithm == "difflib":', '    if len(a) * len(b) > 4096 and compare is operator.__eq__:\n        return diff_sequence_difflib(a, b)\n    if diff_sequence_algorithm == "difflib":', 'R01.25')
M('C02', 'long-scalar-lists-aligned-by-difflib', SEQ, '    if diff_sequence_algorithm == "difflib":', '    if len(a) * len(b) > 4096 and compare is operator.__eq__:\n        return diff_sequence_difflib(a, b)\n    if diff_sequence_algorithm == "difflib":', 'R02.27')
T('C01', 'twin-algorithm-switch-compared-reversed', SEQ, '    if diff_sequence_algorithm == "difflib":', '    if "difflib" == diff_sequence_algorithm:')
M('C19', 'jupyter-search-path-memoised-and-extended', CFGPY, "    path = jupyter_config_path()\n    path.insert(0, os.getcwd())\n",
  "    path = _jupyter_search_path()\n    path.insert(0, os.getcwd())\n", 'R19.3',
  edits=[(CFGPY, "def build_config(", "from functools import lru_cache\n\n\n@lru_cache(maxsize=None)\ndef _jupyter_search_path():\n    return jupyter_config_path()\n\n\ndef build_config(")])
T('C19', 'twin-jupyter-search-path-memoised-and-copied', CFGPY, "    path = jupyter_config_path()\n    path.insert(0, os.getcwd())\n",
  "    path = [os.getcwd()] + _jupyter_search_path()\n",
  edits=[(CFGPY, "def build_config(", "from functools import lru_cache\n\n\n@lru_cache(maxsize=None)\ndef _jupyter_search_path():\n    return jupyter_config_path()\n\n\ndef build_config(")])
M('C02', 'line-offsets-cached-by-address', DU, "def flatten_list_of_string_diff(a, linebased_diff):", "_offsets_memo = {}\n\n\ndef _memo_key(a):\n    return (id(a), len(a))\n\n\ndef flatten_list_of_string_diff(a, linebased_diff):\n    _offsets_memo.get(_memo_key(a))", 'R02.28')
M('C10', 'star-path-keeps-one-digit-strings', UT, "            if r_is_int.match(p):\n                path[i] = '*'\n", "            if r_is_int.match(p) and len(p) > 1:\n                path[i] = '*'\n", 'R10.14')
M('C14', 'star-path-without-leading-separator', UT, '    return ret if ret.startswith("/") else "/" + ret', '    return ret', 'R14.22')
T('C10', 'twin-star-path-copies-by-comprehension', UT, '    """Replace integers and integer-strings in a path with * """\n    path = list(path)\n', '    """Replace integers and integer-strings in a path with * """\n    path = [p for p in path]\n')
M('C05', 'split-string-path-steps-before-it-tests', DEC, "    for i in range(len(path)):\n        if isinstance(base, str):\n            return path[:i], path[i:]\n        base = base[path[i]]\n",
  "    for i, key in enumerate(path):\n        base = base[key]\n        if isinstance(base, str):\n            return path[:i + 1], path[i + 1:]\n", 'R05.17')
T('C05', 'twin-split-string-path-enumerates', DEC, "    for i in range(len(path)):\n        if isinstance(base, str):\n            return path[:i], path[i:]\n        base = base[path[i]]\n",
  "    for i, key in enumerate(path):\n        if isinstance(base, str):\n            return path[:i], path[i:]\n        base = base[key]\n")
M('C17', 'failed-clean-filter-remembered', 'nbdime/vcs/git/filter_integration.py', "def apply_possible_filter(", "_failed = set()\n\n\ndef _note_failed(cmd):\n    _failed.add(cmd)\n\n\ndef apply_possible_filter(", 'R17.19',
  edits=[('nbdime/vcs/git/filter_integration.py', "    filter_cmd = get_clean_filter_cmd(filter_attr)\n", "    filter_cmd = get_clean_filter_cmd(filter_attr)\n    _note_failed(filter_cmd)\n")])
M('C06', 'merged-cells-normalised-after-the-decisions', DEC, "    merged = nbformat.from_dict(merged)\n    return merged\n", "    if isinstance(merged, dict) and merged.get('nbformat_minor', 0) < 5:\n        for c in merged.get('cells', []):\n            c.pop('id', None)\n    merged = nbformat.from_dict(merged)\n    return merged\n", 'R06.3')
TSSTR = 'packages/nbdime/src/patch/stringified.ts'
TSCOM = 'packages/nbdime/src/patch/common.ts'
M('C15', 'ts-stringified-key-written-raw', TSSTR, "  return repeatString(JSON_INDENT, level) + JSON.stringify(key) + ': ';", "  return repeatString(JSON_INDENT, level) + '\"' + key + '\": ';", 'R15.15')
T('C15', 'twin-ts-stringified-key-through-a-local', TSSTR, "  return repeatString(JSON_INDENT, level) + JSON.stringify(key) + ': ';", "  const quoted = JSON.stringify(key);\n  return repeatString(JSON_INDENT, level) + quoted + ': ';")
M('C15', 'ts-object-iterator-stops-on-falsy-key', TSCOM, "    if (key === undefined) {\n      return {\n        done: true,", "    if (!key) {\n      return {\n        done: true,", 'R15.16')
T('C15', 'twin-ts-object-iterator-compares-reversed', TSCOM, "    if (key === undefined) {\n      return {\n        done: true,", "    if (undefined === key) {\n      return {\n        done: true,")

# ---------------------------------------------------------------------------------------------- round 9 rules
FLT = 'nbdime/vcs/git/filter_integration.py'
M('C16', 'decision-printer-action-table-without-take-max', PP, "        elif dkey.startswith(decision.action):", "        elif dkey in _applied[decision.action]:", 'R16.25',
  edits=[(PP, "def pretty_print_merge_decision(", "_applied = {'base': (), 'local': ('local_diff',), 'remote': ('remote_diff',), 'either': ('local_diff',), 'custom': ('custom_diff',), 'clear': ()}\n\n\ndef pretty_print_merge_decision(")])
M('C08', 'path-arguments-expanded', ARGS, "        if not isinstance(value, bytes):\n            return value\n", "        if not isinstance(value, bytes):\n            return os.path.expanduser(value)\n", 'R08.17')
T('C08', 'twin-path-type-returns-str-early', ARGS, "        if not isinstance(value, bytes):\n            return value\n", "        if isinstance(value, str):\n            return value\n")
M('C01', 'line-differ-equality-cutoff-without-terminators', GEN, "    if len(a) == len(b) and a == b:\n        return []\n    \n    return diff_strings_linewise(a, b)", "    if a.splitlines() == b.splitlines():\n        return []\n    \n    return diff_strings_linewise(a, b)", 'R01.26')
M('C02', 'flat-lists-diffed-from-difflib-opcodes', GEN, "def diff_sequence_multilevel(a, b, path=\"\", config=None):", "def _flat_opcodes(a, b):\n    import difflib\n    s = difflib.SequenceMatcher(None, [(type(x), x) for x in a], [(type(x), x) for x in b], autojunk=False)\n    return s.get_opcodes()\n\n\ndef diff_sequence_multilevel(a, b, path=\"\", config=None):", 'R02.27')
M('C20', 'diff-endpoint-upgrades-before-diffing', SRV, "        try:\n            thediff = diff_notebooks(base_nb, remote_nb)", "        base_nb = nbformat.v4.upgrade(base_nb)\n        try:\n            thediff = diff_notebooks(base_nb, remote_nb)", 'R20.19')
M('C04', 'minor-version-follows-the-merge-strategy', MNB, '        "/nbformat_minor": "take-max",', '        "/nbformat_minor": merge_strategy if merge_strategy.startswith("use-") else "take-max",', 'R04.15')
M('C17', 'check-attr-without-z', FLT, "['git', 'check-attr', '-z', 'filter', '--', path]", "['git', 'check-attr', 'filter', '--', path]", 'R17.20')
T('C17', 'twin-check-attr-arguments-in-a-local', FLT, "        spec = check_output(['git', 'check-attr', '-z', 'filter', '--', path])", "        argv = ['git', 'check-attr', '-z', 'filter', '--', path]\n        spec = check_output(argv)")
M('C03', 'two-sided-removal-with-insert-folded-into-the-insert-arm', MG, '        elif chunktype in ("AR/R", "R/AR"):\n            # Identical (ensured by chunking) twosided removal with insertion just before one of them\n            decisions.onesided(path, a0, a1)\n            decisions.agreement(path, p0, p1)\n        elif chunktype in ("AR/A", "A/AR", "A/A", "AR/AR"):',
  '        elif chunktype in ("AR/A", "A/AR", "A/A", "AR/AR", "AR/R", "R/AR"):', 'R03.1')
M('C18', 'global-attributes-location-depends-on-existence', UT, "            gitattributes = os.path.expanduser(bpath.decode('utf8', 'replace').strip())\n", "            gitattributes = os.path.expanduser(bpath.decode('utf8', 'replace').strip())\n            if not os.path.isfile(gitattributes):\n                raise CalledProcessError(1, 'git')\n", 'R18.16')
M('C19', 'first-seen-config-sections-copied-shallowly', CFGPY, "            if k not in target:\n                target[k] = {}\n            recursive_update(target[k], v, include_none)\n", "            if k not in target:\n                target[k] = dict(v)\n            else:\n                recursive_update(target[k], v, include_none)\n", 'R19.14')
T('C19', 'twin-recursive-update-uses-setdefault', CFGPY, "            if k not in target:\n                target[k] = {}\n            recursive_update(target[k], v, include_none)\n", "            target.setdefault(k, {})\n            recursive_update(target[k], v, include_none)\n")
M('C01', 'attachments-skipped-when-the-alignment-predicate-agrees', NBD, "        dd = diff_mime_bundle(avalue, bvalue)\n        if dd:\n            di.patch(key, dd)", "        if compare_mimebundle_strict(avalue, bvalue):\n            continue\n        dd = diff_mime_bundle(avalue, bvalue)\n        if dd:\n            di.patch(key, dd)", 'R01.27')
T('C01', 'twin-attachments-skipped-when-strictly-equal', NBD, "        dd = diff_mime_bundle(avalue, bvalue)\n        if dd:\n            di.patch(key, dd)", "        if strict_equal(avalue, bvalue):\n            continue\n        dd = diff_mime_bundle(avalue, bvalue)\n        if dd:\n            di.patch(key, dd)")
M('C11', 'mime-lists-diffed-as-joined-text', NBD, "        dd = diff(avalue, bvalue)\n        if dd:\n            diffbuilder.patch(key, dd)", "        if isinstance(avalue, list):\n            dd = diff(''.join(avalue), ''.join(bvalue))\n        else:\n            dd = diff(avalue, bvalue)\n        if dd:\n            diffbuilder.patch(key, dd)", 'R11.16')
T('C11', 'twin-mime-diff-passed-inline', NBD, "        dd = diff(avalue, bvalue)\n        if dd:\n            diffbuilder.patch(key, dd)", "        if diff(avalue, bvalue):\n            diffbuilder.patch(key, diff(avalue, bvalue))")
