"""C07 -- default merge never drops or invents source text; real conflicts are flagged (structural clauses)."""
import ast
import re

from ..core import AnalysisError, dotted, walk_no_nested
from ..cfg import CFG, cond_guards
from ..util import calls_in, local_defs, depends_on, const_val, if_chain, names_in, last_attr
from ..consteval import Evaluator, UNKNOWN, reachable_arms, Abstract, AbstractEntry
from .. import mergefacts as mf

ASSUMPTIONS = [
    'survival/provenance of individual source LINES is run-time text, partly produced by git merge-file / diff3: not decided',
    'line survival through patch(), trailing-newline trimming and the content of dissimilar-insert rendering are not decided',
    'git merge-file / diff3 exit non-zero exactly when they emit conflict markers (their documented behaviour)',
]

GEN, DEC, STR = mf.GEN, mf.DEC, mf.STR
PP = 'nbdime.prettyprint'
MARKER = re.compile(r'^(<{7,}|={7,}|>{7,}|\|{7,})')
HTML_WRAPPED = re.compile(r'^<span[^>]*><b>(.*)</b></span>$', re.S)


def marker_shaped(s):
    if not isinstance(s, str):
        return False
    if not s.strip():
        return True
    m = HTML_WRAPPED.match(s)
    if m:
        s = m.group(1)
    return bool(MARKER.match(s))


def const_env(fn, base=None, repo=None):
    """Sequentially fold simple constant assignments of a function into an evaluator environment."""
    ev = Evaluator(dict(base or {}))
    # module-level constants the function may refer to (folded in source order)
    mod = repo.mod_of(fn) if repo is not None else None
    if mod is not None:
        for st in mod.tree.body:
            if isinstance(st, ast.Assign) and len(st.targets) == 1 and isinstance(st.targets[0], ast.Name) and st.targets[0].id not in ev.env:
                v = ev.ev(st.value)
                if v is not UNKNOWN and not isinstance(v, (Abstract, AbstractEntry)):
                    ev.env[st.targets[0].id] = v
    for st in fn.body:
        for n in ([st] if isinstance(st, ast.Assign) else []):
            if len(n.targets) == 1 and isinstance(n.targets[0], ast.Name):
                v = ev.ev(n.value)
                if v is not UNKNOWN and not isinstance(v, (Abstract, AbstractEntry)):
                    ev.env[n.targets[0].id] = v
    return ev


def _run_base(ctx):
    repo, cg = ctx.repo, ctx.cg
    ctx.rule('R07.1', 'inline-source: the conflict flag of the decision is the text-merge tool status (status != 0) and the custom diff replaces source with the rendered text', floor=2)
    ctx.rule('R07.2', 'renderers report non-zero status whenever they insert markers; zero only when returning an input unchanged; external status passed through unmodified', floor=6)
    ctx.rule('R07.3', 'only marker-shaped text is fabricated on the source path (every constant that flows into source lines / marker cells starts with a run of 7 <,=,>,|)', floor=8)
    ctx.rule('R07.4', 'under the default strategy delete-vs-edit is never resolved to the deletion: only transient-only edits may lose', floor=3)

    # ---------------------------------------------------------------- R07.1
    ris = repo.func(STR + ':resolve_strategy_inline_source')
    defs = local_defs(ris)
    mr = [c for c in calls_in(ris, nested=False) if ('func', PP + ':merge_render') in cg.resolve(c.func, ris)]
    if len(mr) != 1:
        raise AnalysisError('resolve_strategy_inline_source: merge_render call not found')
    unpack = repo.stmt_of(mr[0])
    if not (isinstance(unpack, ast.Assign) and isinstance(unpack.targets[0], ast.Tuple) and len(unpack.targets[0].elts) == 2):
        raise AnalysisError('resolve_strategy_inline_source: merge_render result is not unpacked into (text, status)')
    text_v, status_v = [e.id for e in unpack.targets[0].elts]
    customs = [c for c in calls_in(ris, nested=False) if isinstance(c.func, ast.Attribute) and c.func.attr == 'custom']
    if len(customs) != 1:
        raise AnalysisError('resolve_strategy_inline_source: decisions.custom call not found')
    cv = [k.value for k in customs[0].keywords if k.arg == 'conflict']
    ok, why = False, 'conflict= not passed'
    if cv:
        e = cv[0]
        exprs = [e]
        if isinstance(e, ast.Name):
            exprs = [v for v, k, s in defs.get(e.id, [])]
        ok = bool(exprs) and all(_nonzero_form(x, status_v) for x in exprs)
        why = 'conflict flag = (tool status is non-zero)' if ok else 'the conflict flag is not the text-merge status: %s' % '; '.join(ast.unparse(x) for x in exprs)
    ctx.inst('R07.1', STR + ':resolve_strategy_inline_source', 'conflict=%s' % (ast.unparse(cv[0]) if cv else '?'), ok, why, customs[0])
    cd = customs[0].args[3] if len(customs[0].args) > 3 else None
    rep = depends_on(ris, cd, lambda n: isinstance(n, ast.Call) and dotted(n.func) == 'op_replace', defs) if cd is not None else None
    ok = rep is not None and len(rep.args) == 2 and dotted(rep.args[1]) == text_v
    ctx.inst('R07.1', STR + ':resolve_strategy_inline_source', repo.norm(rep) if rep is not None else '<no op_replace>', ok,
             'source is replaced by exactly the rendered three-way text' if ok else
             'the replaced source is not exactly the text the renderer returned (text added/removed around it)', rep if rep is not None else customs[0])
    # the rendered inputs are base patched with each side's full diff
    sides = {}
    for c in calls_in(ris, nested=False):
        if ('func', 'nbdime.patching:patch') in cg.resolve(c.func, ris) and len(c.args) == 2:
            st = repo.stmt_of(c)
            if isinstance(st, ast.Assign):
                sides[dotted(st.targets[0])] = (dotted(c.args[0]), dotted(c.args[1]))
    args = [dotted(a) for a in mr[0].args[:3]]
    ok = len(args) == 3 and args[0] == 'base' and sides.get(args[1]) == ('base', 'local_diff') and sides.get(args[2]) == ('base', 'remote_diff')
    ctx.inst('R07.1', STR + ':resolve_strategy_inline_source', 'merge_render(%s) with %s' % (', '.join(map(str, args)), sides), ok,
             'tool sees base, base+local edits, base+remote edits' if ok else 'the renderer is not fed (base, local version, remote version)', mr[0])

    # ---------------------------------------------------------------- R07.2
    bm = repo.func(PP + ':builtin_merge_render')
    bdefs = local_defs(bm)
    params = [a.arg for a in bm.args.args]
    for r in [n for n in walk_no_nested(bm) if isinstance(n, ast.Return)]:
        if not (isinstance(r.value, ast.Tuple) and len(r.value.elts) == 2):
            ctx.inst('R07.2', PP + ':builtin_merge_render', repo.norm(r), False, 'not a (text, status) pair', r)
            continue
        text, status = r.value.elts
        marks = depends_on(bm, text, lambda n: isinstance(n, ast.Call) and
                           ('func', PP + ':format_merge_render_lines') in cg.resolve(n.func, bm), bdefs) is not None
        sv = const_val(status)
        if marks:
            ok = isinstance(sv, int) and sv not in (0, False)
            ctx.inst('R07.2', PP + ':builtin_merge_render', repo.norm(r), ok,
                     'text with conflict markers is returned with a non-zero status' if ok else
                     'marker text is returned with status %r: the decision is not flagged as conflicted' % (sv,), r)
        else:
            ok = sv == 0 and dotted(text) in params[1:3]
            ctx.inst('R07.2', PP + ':builtin_merge_render', repo.norm(r), ok,
                     'status 0 only with one input returned unchanged' if ok else
                     'status 0 is returned with something other than the unchanged local/remote text', r)
    for name in ('merge_render_with_git', 'merge_render_with_diff3'):
        fn = repo.func('%s:%s' % (PP, name))
        d = local_defs(fn)
        ext = [c for c in calls_in(fn, nested=False) if ('func', PP + ':external_merge_render') in cg.resolve(c.func, fn)]
        if len(ext) != 1:
            raise AnalysisError('%s: external_merge_render call not found' % name)
        ust = repo.stmt_of(ext[0])
        sv = ust.targets[0].elts[1].id if isinstance(ust, ast.Assign) and isinstance(ust.targets[0], ast.Tuple) else None
        g = CFG(fn)
        for r in [n for n in walk_no_nested(fn) if isinstance(n, ast.Return)]:
            if not g.dominated_by(r, [ust]):
                # early returns (use-local/use-remote shortcuts) must return an input with status 0
                ok = isinstance(r.value, ast.Tuple) and const_val(r.value.elts[1]) == 0 and dotted(r.value.elts[0]) in [a.arg for a in fn.args.args]
                deleg = isinstance(r.value, ast.Call) and ('func', PP + ':builtin_merge_render') in cg.resolve(r.value.func, fn) and \
                    [dotted(a) for a in r.value.args[:3]] == [a.arg for a in fn.args.args[:3]]
                ctx.inst('R07.2', '%s:%s' % (PP, name), repo.norm(r), ok or deleg, 'input returned unchanged with status 0' if ok else
                         ('delegates to the built-in renderer with the same three texts (its (text, status) pairs are checked above)' if deleg else 'early return is not (input, 0)'), r)
                continue
            stores = [s for v, k, s in d.get(sv, [])] if sv else []
            ok = (isinstance(r.value, ast.Tuple) and dotted(r.value.elts[1]) == sv and len(stores) == 1) or r.value is ext[0]
            ctx.inst('R07.2', '%s:%s' % (PP, name), repo.norm(r), ok,
                     'the tool\'s exit status is returned unmodified' if ok else
                     'the tool status is overwritten or replaced before it is returned', r)
    em = repo.func(PP + ':external_merge_render')
    d = local_defs(em)
    r = [n for n in walk_no_nested(em) if isinstance(n, ast.Return)][-1]
    src = depends_on(em, r.value.elts[1], lambda n: isinstance(n, ast.Attribute) and n.attr == 'returncode', d) if isinstance(r.value, ast.Tuple) else None
    sname = dotted(r.value.elts[1]) if isinstance(r.value, ast.Tuple) else None
    ok = src is not None and len(d.get(sname, [])) == 1
    ctx.inst('R07.2', PP + ':external_merge_render', repo.norm(r), ok, 'status is the subprocess return code' if ok else
             'status is not (only) the subprocess return code', r)

    # ---------------------------------------------------------------- R07.3
    # (a) constants inserted into source by the deleted-cell arms
    for c in calls_in(ris, nested=False):
        if dotted(c.func) == 'op_addrange' and len(c.args) == 2 and isinstance(c.args[1], (ast.List, ast.Tuple)):
            for e in c.args[1].elts:
                v = const_val(e)
                ok = marker_shaped(v)
                ctx.inst('R07.3', STR + ':resolve_strategy_inline_source', 'inserted source line %r' % (v,), ok,
                         'marker-shaped' if ok else 'a non-marker line is fabricated into the merged source', e)
    # any string constant combined with the rendered text in the replace value
    if rep is not None:
        lits = [n.value for n in ast.walk(rep.args[1]) if isinstance(n, ast.Constant) and isinstance(n.value, str)]
        for v, k, s in defs.get(text_v, []):
            pass
        ok = all(marker_shaped(x) for x in lits)
        ctx.inst('R07.3', STR + ':resolve_strategy_inline_source', 'literal text combined with the rendered source: %r' % lits, ok,
                 'none / markers only' if ok else 'fabricated text %r is added to the merged source' % [x for x in lits if not marker_shaped(x)], rep)
    # (b) built-in renderer lines
    fl = repo.func(PP + ':format_merge_render_lines')
    benv = const_env(bm)
    call = [c for c in calls_in(bm, nested=False) if ('func', PP + ':format_merge_render_lines') in cg.resolve(c.func, bm)]
    if len(call) != 1:
        raise AnalysisError('builtin_merge_render: format_merge_render_lines call not found')
    fparams = [a.arg for a in fl.args.args]
    env = {}
    for p, a in zip(fparams, call[0].args):
        v = benv.ev(a)
        if v is not UNKNOWN and not isinstance(v, (Abstract, AbstractEntry)):
            env[p] = v
    ev = const_env(fl, env)
    # re-evaluate sequentially including re-assignments like sep0 = "%s %s\n" % (sep0, local_title)
    ev = Evaluator(dict(env))
    data_params = set(fparams[:3])
    fdefs = local_defs(fl)
    n_lines = 0
    for st in fl.body:
        if isinstance(st, ast.Assign) and len(st.targets) == 1 and isinstance(st.targets[0], ast.Name):
            v = ev.ev(st.value)
            if v is not UNKNOWN and not isinstance(v, (Abstract, AbstractEntry)):
                ev.env[st.targets[0].id] = v
            else:
                ev.env.pop(st.targets[0].id, None)
        if isinstance(st, ast.Expr) and isinstance(st.value, ast.Call) and isinstance(st.value.func, ast.Attribute) and \
                st.value.func.attr in ('append', 'extend', 'insert') and dotted(st.value.func.value) == 'lines':
            arg = st.value.args[-1]
            v = ev.ev(arg)
            n_lines += 1
            if isinstance(v, str):
                ok = marker_shaped(v)
                ctx.inst('R07.3', PP + ':format_merge_render_lines', 'lines.%s(%r)' % (st.value.func.attr, v), ok,
                         'marker-shaped' if ok else 'the built-in renderer fabricates a non-marker line', st)
            else:
                # must be input-derived
                roots = set()
                _roots(fl, arg, fdefs, roots, set())
                ok = bool(roots) and roots <= data_params
                ctx.inst('R07.3', PP + ':format_merge_render_lines', 'lines.%s(%s) <- %s' % (st.value.func.attr, ast.unparse(arg), sorted(roots)), ok,
                         'lines taken from the inputs' if ok else 'appended lines are neither markers nor input lines', st)
    if n_lines < 5:
        raise AnalysisError('format_merge_render_lines: fewer line insertions than expected')
    # (c) marker cells
    mic = repo.func(STR + ':make_inline_cell_conflict')
    mev = const_env(mic, repo=repo)
    for c in calls_in(mic, nested=False):
        if ('func', STR + ':cell_marker') in cg.resolve(c.func, mic):
            v = mev.ev(c.args[0]) if c.args else UNKNOWN
            ok = isinstance(v, str) and marker_shaped(v)
            ctx.inst('R07.3', STR + ':make_inline_cell_conflict', 'cell_marker(%r)' % (v,), ok,
                     'marker-shaped' if ok else 'a non-marker cell is fabricated', c)
    cmf = repo.func(STR + ':_cell_marker_format')
    rets = [n for n in walk_no_nested(cmf) if isinstance(n, ast.Return)]
    tev = Evaluator({cmf.args.args[0].arg: '<<<<<<< local'})
    v = tev.ev(rets[0].value) if rets else UNKNOWN
    ok = isinstance(v, str) and marker_shaped(v)
    ctx.inst('R07.3', STR + ':_cell_marker_format', 'wrapper -> %r' % (v,), ok, 'only wraps the marker text' if ok else 'wrapper adds non-marker text', cmf)
    # similar-insert recursion: source of the merged cell is exactly the renderer output
    rir = repo.func(STR + ':resolve_strategy_inline_recurse')
    for n in walk_no_nested(rir):
        if isinstance(n, ast.Assign) and isinstance(n.targets[0], ast.Subscript) and dotted(n.targets[0].value) == 'cell':
            g = CFG(rir)
            guards = cond_guards(g, n)
            if any(pol and isinstance(t, ast.Compare) and const_val(t.comparators[0]) == 'source' for t, pol in guards):
                v = n.value
                ok = isinstance(v, ast.Subscript) and const_val(v.slice) == 0 and isinstance(v.value, ast.Call) and \
                    ('func', PP + ':merge_render') in cg.resolve(v.value.func, rir)
                ctx.inst('R07.3', STR + ':resolve_strategy_inline_recurse', repo.norm(n), ok,
                         'source of a merged similar insert is exactly the rendered two-way text' if ok else
                         'source of a merged similar insert is not (only) the renderer output', n)

    # ---------------------------------------------------------------- R07.4
    from .c03 import strategy_table
    table, transients = strategy_table(ctx)
    ml = repo.func(GEN + ':_merge_lists')
    consts = mf.diffop_consts(repo)
    chain = None
    for n in walk_no_nested(ml):
        if isinstance(n, ast.If) and ('is_transient' in names_in(n.test) or
                                      any(last_attr(c) == 'is_diff_all_transients' for c in calls_in(n.test))):
            chain = n
            # climb to the head of the elif chain this arm belongs to
            while isinstance(repo.parent(chain), ast.If) and repo.parent(chain).orelse == [chain]:
                chain = repo.parent(chain)
            break
    if chain is None:
        raise AnalysisError('_merge_lists: delete-vs-edit chain (is_transient) not found')
    letter_ops = {'P': consts['DiffOp.PATCH'], 'R': consts['DiffOp.REMOVERANGE']}
    default_cells = sorted(x for x in table.get('/cells', ()) if x in ('inline-cells',))
    for lp, rp in (('P', 'R'), ('R', 'P')):
        for ls in ['inline-cells', None]:
            ev = Evaluator({'p0': Abstract(lp, letter_ops), 'p1': Abstract(rp, letter_ops), 'is_transient': False, 'list_strategy': ls}, consts,
                           calls={'is_diff_all_transients': lambda e, c: False})
            reach = reachable_arms(ev, chain)
            picks = []
            for idx, body in reach:
                for st in body:
                    for c in calls_in(st):
                        if isinstance(c.func, ast.Attribute) and dotted(c.func.value) == 'decisions' and c.func.attr in ('local', 'remote', 'base'):
                            picks.append(c.func.attr)
            ok = not picks
            ctx.inst('R07.4', GEN + ':_merge_lists', 'chunk %s/%s, non-transient edit, list strategy %r -> arms %s' % (lp, rp, ls, [i for i, _ in reach]), ok,
                     'the edited cell is kept (countered or flagged as conflict), never silently deleted' if ok else
                     'a non-transient edit can lose against the deletion (decisions.%s) under the default strategy' % picks[0], chain)
    ok = 'inline-cells' in table.get('/cells', ())
    ctx.inst('R07.4', mf.MNB + ':notebook_merge_strategies', 'default /cells strategy', ok, 'inline-cells under merge strategy inline' if ok else 'default list strategy changed', None)
    # quantifier helpers the arms above rely on: "all transient" must inspect every entry, "any countering" may stop early
    for fname, kind in (('is_diff_all_transients', 'all'), ('will_diff_counter_parent_deletion', 'any')):
        qf = repo.func('%s:%s' % (GEN, fname))
        loops = [n for n in qf.body if isinstance(n, ast.For)]
        if len(loops) != 1:
            raise AnalysisError('%s: quantifier loop not found' % fname)
        inner = [n for n in ast.walk(loops[0]) if isinstance(n, ast.Return)]
        after = [n for n in qf.body[qf.body.index(loops[0]) + 1:] if isinstance(n, ast.Return)]
        want_inner = (kind == 'any')
        bad = [r for r in inner if const_val(r.value) is not want_inner]
        tail_ok = len(after) == 1 and const_val(after[0].value) is (not want_inner)
        ok = not bad and tail_ok and bool(inner)
        ctx.inst('R07.4', '%s:%s' % (GEN, fname), '%s-quantifier: returns inside the loop %s, after the loop %s' % (
            kind, sorted({ast.unparse(r.value) for r in inner}), [ast.unparse(r.value) for r in after]), ok,
            'the loop can only stop early with the %s verdict; the opposite verdict needs every entry' % want_inner if ok else
            'the "%s" check can answer %s before all entries were inspected: %s' % (kind, not want_inner, repo.norm(bad[0]) if bad else 'verdict after the loop is wrong'),
            bad[0] if bad else qf)
    md = repo.func(GEN + ':_merge_dicts')
    dchain = None
    for n in walk_no_nested(md):
        if isinstance(n, ast.If) and 'parent_deleted' in [c.value for c in ast.walk(n.test) if isinstance(c, ast.Constant)]:
            dchain = n
            break
    darms, _ = if_chain(dchain)
    lname = dotted(darms[0][0].left.value)
    rname = dotted(darms[1][0].left.value)
    rm = consts['DiffOp.REMOVE']
    for a, b in ((rm, consts['DiffOp.PATCH']), (consts['DiffOp.PATCH'], rm), (rm, consts['DiffOp.REPLACE']), (consts['DiffOp.REPLACE'], rm)):
        ev = Evaluator({lname: AbstractEntry(a), rname: AbstractEntry(b)}, consts,
                       calls={'is_diff_all_transients': lambda e, c: False})
        picks = []

        def walk(ifn):
            for idx, body in reachable_arms(ev, ifn):
                for st in body:
                    if isinstance(st, ast.If):
                        walk(st)
                    else:
                        for c in calls_in(st):
                            if isinstance(c.func, ast.Attribute) and dotted(c.func.value) == 'decisions' and c.func.attr in ('local', 'remote', 'base'):
                                picks.append(c.func.attr)
        walk(dchain)
        ok = not picks
        ctx.inst('R07.4', GEN + ':_merge_dicts', 'ops (%s, %s), edit not all-transient' % (a, b), ok,
                 'removal vs non-transient edit is a conflict' if ok else 'removal silently wins over a non-transient edit (decisions.%s)' % picks[0], dchain)


def _nonzero_form(e, status_v):
    if isinstance(e, ast.Compare) and len(e.ops) == 1 and dotted(e.left) == status_v and const_val(e.comparators[0]) == 0 and \
            isinstance(e.ops[0], (ast.NotEq, ast.Gt)):
        return True
    if isinstance(e, ast.Call) and dotted(e.func) == 'bool' and e.args and dotted(e.args[0]) == status_v:
        return True
    return False


def _content_names(expr):
    """Names whose *content* flows into expr (indices, lengths and slice bounds do not count)."""
    out = []
    stack = [expr]
    while stack:
        n = stack.pop()
        if isinstance(n, ast.Name):
            out.append(n.id)
        elif isinstance(n, ast.Subscript):
            stack.append(n.value)
        elif isinstance(n, ast.Call) and dotted(n.func) in ('len', 'range', 'min', 'max', 'enumerate'):
            continue
        elif isinstance(n, ast.Compare):
            continue
        else:
            stack.extend(ast.iter_child_nodes(n))
    return out


def _roots(fn, expr, defs, out, seen):
    params = {a.arg for a in fn.args.args}
    for name in _content_names(expr):
        if name in params:
            out.add(name)
        if name in defs and name not in seen:
            seen.add(name)
            for v, k, s in defs[name]:
                _roots(fn, v, defs, out, seen)


def run(ctx):
    """R07.5: only the tool's standard output becomes merged text."""
    ctx.rule('R07.9', 'where equal items are trimmed from both ends before aligning, the tail scan is bounded by the head count (no overlap)', floor=1)
    ctx.rule('R07.7', 'the merge package never decides what text to keep with a similarity predicate: alignment predicates (compare_*) are called from the diffing package only', floor=1)
    ctx.rule('R07.8', 'one line model: every Python site that creates or consumes line keys splits with str.splitlines(True)', floor=4)
    ctx.rule('R07.6', 'concurrently inserted cells are paired by consistent cursors: in every arm of the splitter `taken` advances by the local and `offset` by (remote - local) items '
             '(a slip pairs a local cell with the wrong remote cell and the right one is referenced by no decision: its lines vanish)', floor=4)
    ctx.rule('R07.5', 'the external text merge takes the merged text from the tool\'s stdout only: stderr is not redirected into it', floor=1)
    _run_base(ctx)
    repo = ctx.repo
    fn = repo.func('nbdime.prettyprint:external_merge_render')
    pops = [c for c in calls_in(fn, nested=False) if last_attr(c) == 'Popen']
    if not pops:
        raise AnalysisError('external_merge_render: Popen call not found')
    for c in pops:
        kw = {k.arg: k.value for k in c.keywords}
        err = dotted(kw['stderr']) if 'stderr' in kw and dotted(kw['stderr']) else (ast.unparse(kw['stderr']) if 'stderr' in kw else None)
        merged = err is not None and err.split('.')[-1] == 'STDOUT'
        # the text returned must be the first component of communicate()
        defs = local_defs(fn)
        rets = [r for r in walk_no_nested(fn) if isinstance(r, ast.Return) and isinstance(r.value, ast.Tuple) and r.value.elts]
        uses_err = False
        for r in rets:
            first = r.value.elts[0]
            if depends_on(fn, first, lambda n: isinstance(n, ast.Name) and n.id in ('errors', 'err', 'stderr'), defs) is not None:
                uses_err = True
        ok = not merged and not uses_err
        ctx.inst('R07.5', 'nbdime.prettyprint:external_merge_render', repo.norm(c), ok,
                 'diagnostics of git/diff3 stay out of the merged source' if ok else
                 'whatever the tool prints on stderr (warnings, traces, "Cannot merge binary files") becomes lines of the merged cell source: text no side wrote', c)

    from .c09 import split_addrange_algebra
    split_addrange_algebra(ctx, 'R07.6')

    # ---------------------------------------------------------------- R07.7 similarity is for alignment, equality for dropping text
    cg = ctx.cg
    preds = set()
    for key, fs in cg.tables.items():
        if key[1] in ('notebook_predicates',):
            preds |= {t[1] for t in fs if t[0] == 'func'}
    preds |= {f for f in repo.functions if f.startswith('nbdime.diffing.') and f.split(':')[1].startswith('compare_')}
    if len(preds) < 5:
        raise AnalysisError('similarity predicates of the diffing package not found')
    n77 = 0
    bad77 = []
    for fid, fn in sorted(repo.functions.items()):
        if not fid.startswith('nbdime.merging.'):
            continue
        for c in calls_in(fn, nested=False):
            n77 += 1
            for t in cg.resolve(c.func, fn):
                if t[0] == 'func' and t[1] in preds:
                    bad77.append((fid, c, t[1]))
    for fid, c, pred in bad77:
        ctx.inst('R07.7', fid, repo.norm(c), False,
                 '%s is a similarity heuristic (true for texts that merely resemble each other): using it in the merge package to decide that two cells/lines are '
                 '"the same" keeps one and silently drops the other side\'s differing lines' % pred, c)
    ctx.inst('R07.7', 'nbdime.merging', '%d calls examined, %d alignment predicates known' % (n77, len(preds)), True,
             'none is a direct call to an alignment predicate' if not bad77 else '%d direct calls (reported separately)' % len(bad77), None, nontrivial=True)
    # ---------------------------------------------------------------- R07.8
    from ..linemodel import python_line_sites
    lsites = python_line_sites(ctx)
    for f, sig, node in lsites:
        ok = sig == ['splitlines(True)']
        ctx.inst('R07.8', f, 'line splitter: %s' % sig, ok, 'str.splitlines(True)' if ok else
                 'this site counts lines differently from the others: line-keyed patches of the merged source land on the wrong line (a line is dropped, another duplicated)', node)
    from ..trim import check_trims
    check_trims(ctx, 'R07.9', ['nbdime.merging.'])


from .extra import with_extra  # noqa: E402
run = with_extra('C07', run)
