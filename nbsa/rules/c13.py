"""C13 -- diff, patch, merge and rendering never modify their inputs."""
import ast

from ..core import AnalysisError, dotted, walk_no_nested
from ..util import param_names
from ..aliasing import Summaries, _is_access_path
from .. import facts

ASSUMPTIONS = [
    'alias tracking is local-variable based with interprocedural parameter/return summaries; a reference stored into an object attribute or '
    'container and read back in another function (heap flow) is not followed -- e.g. diff entries held by MergeDecision objects',
    'mutation through C extensions / NotebookNode magic methods (none on the path) and exception paths between a pop and its restore are not decided',
    'types are unknown: `x += y` on a plain name counts as in-place only when y is a container display',
]

DOC_PARAM_NAMES = {'a', 'b', 'A', 'B', 'obj', 'diff', 'base', 'local', 'remote', 'nb', 'decisions', 'decision', 'local_diff', 'remote_diff',
                   'base_cells', 'di', 'bnb', 'lnb', 'rnb', 'mnb', 'cell', 'output', 'outputs', 'attachments', 'value', 'd', 'li', 'md', 'source', 'e'}
NON_DOC = {'config', 'prefix', 'path', 'afn', 'bfn', 'k', 'msg', 'i', 'force_header', 'is_markdown', 'exclude_keys', 'known_keys', 'strategies',
           'args', 'self', 'text', 'v', 'which'}
EXEMPT = {
    ('nbdime.prettyprint:format_merge_render_lines', 'local'): 'callers pass lists freshly made by as_text_lines(<str>): sources are str after nbformat.read',
    ('nbdime.prettyprint:format_merge_render_lines', 'remote'): 'callers pass lists freshly made by as_text_lines(<str>): sources are str after nbformat.read',
}
SITE_EXEMPT = {
    ('nbdime.merging.decisions:apply_decisions', 'store to parent[last_key]', 'decisions'):
        'parent is reached by walking decision paths, which address positions of base items (deep-copied into merged), not values inserted from diffs',
}
ESCAPE_MODULES = ('nbdime.patching:', 'nbdime.diffing.generic:', 'nbdime.diffing.notebooks:', 'nbdime.diffing.lcs:', 'nbdime.diffing.snakes:',
                  'nbdime.diffing.seq_difflib:', 'nbdime.diff_utils:flatten_list_of_string_diff', 'nbdime.diff_utils:_combine_ops',
                  'nbdime.merging.decisions:resolve_action', 'nbdime.merging.decisions:apply_decisions',
                  'nbdime.merging.strategies:make_inline_cell_conflict', 'nbdime.merging.strategies:make_inline_output_conflict')


def scalar_fields(repo):
    ds = repo.json('nbdime/diff_format.schema.json')
    out = None
    for name, d in ds['definitions'].items():
        if not name.startswith('diff_'):
            continue
        sc = set()
        for k, v in d.get('properties', {}).items():
            t = v.get('type')
            ts = set(t if isinstance(t, list) else [t]) if t else set()
            if 'enum' in v or (ts and ts <= {'integer', 'string', 'number', 'boolean'} and k != 'valuelist'):
                sc.add(k)
        out = sc if out is None else out
    return {'op', 'key', 'length'} & set().union(*[set(d.get('properties', {})) for n, d in ds['definitions'].items() if n.startswith('diff_')]) \
        | {'action', 'conflict', 'op'}


def run(ctx):
    repo, cg = ctx.repo, ctx.cg
    ctx.rule('R13.1', 'no in-place mutation of a document argument of the public API (store/del/augmented assign/mutator through a reference reachable '
             'from the argument, directly or via a callee whose summary says so); pop+restore pairs are accepted', floor=25)
    ctx.rule('R13.3', 'the values carried by diff entries and decisions (.valuelist/.value/.diff/.local_diff/.remote_diff) are never modified in place on the merge/patch/render path', floor=1)
    ctx.rule('R13.2', 'results must not hand out references into inputs: every site that puts a sub-object of an input into a result container '
             'without a copy is enumerated (known, site-keyed); a new site is a violation', floor=10)

    S = Summaries(repo, cg, lambda f: not f.startswith(('nbdime.webapp', 'nbdime.vcs', 'nbdime.profiling', 'nbdime.config', 'nbdime.args')),
                  exempt=EXEMPT, scalar_fields=scalar_fields(repo),
                  input_fields={'local_diff', 'remote_diff', 'valuelist', 'value', 'diff'})
    api = facts.lib_api(repo)
    ctx.extra['summaries'] = {'mutates': len(S.mutates), 'returns_alias': len(S.returns), 'functions_analysed': len(S.fids)}
    n_params = 0
    for f in api:
        fn = repo.functions[f]
        for p in param_names(fn):
            if p in NON_DOC or p.startswith('*'):
                continue
            if fn.args.vararg and p == fn.args.vararg.arg or fn.args.kwarg and p == fn.args.kwarg.arg:
                continue
            n_params += 1
            if (f, p) in S.mutates:
                chain = S.witness_chain(f, p)
                site_f, node, what = chain[-1]
                if (site_f, what, p) in SITE_EXEMPT and len(chain) == 1:
                    ctx.inst('R13.1', f, 'argument %s' % p, True, 'named exemption at %s: %s' % (site_f, SITE_EXEMPT[(site_f, what, p)]), node)
                    continue
                ctx.inst('R13.1', f, 'argument %s is modified in place: %s' % (p, what), False,
                         'path: %s' % ' -> '.join('%s [%s]' % (a, w[:60]) for a, n, w in chain), node,
                         extra={'path': [a for a, n, w in chain]})
            else:
                ctx.inst('R13.1', f, 'argument %s' % p, True, 'no store/del/mutator reaches an object reachable from it', fn)
            if S.returns.get((f, p)) == 0 and not f.startswith('nbdime.prettyprint:'):
                ctx.inst('R13.2', f, 'returns (part of) its own argument %s' % p, False,
                         'the result IS the input object (or a sub-object): mutating the result mutates the input', fn)
    # paired pop/restore instances + exemptions are listed
    for fid, fa in sorted(S.sites.items()):
        for st, s2, var, key in fa.paired:
            ctx.inst('R13.1', fid, '%s ... %s' % (repo.norm(st), repo.norm(s2)), False,
                     'the key is removed from the caller\'s %s and put back: it moves to the END of the mapping, so the argument no longer serialises to the same JSON '
                     '(and another thread sees the mapping without the key in between)' % var, st)
    for (fid, p), why in sorted(EXEMPT.items()):
        repo.func(fid)
        ctx.inst('R13.1', fid, 'parameter %s (frozen exemption)' % p, True, why, repo.functions[fid], nontrivial=False)
    unreach = [f for f in S.mutates if f[0].startswith('nbdime.merging.autoresolve') or f[0] == 'nbdime.merging.decisions:build_diffs']
    reach = cg.reachable(api)
    for f, p in sorted(unreach):
        if p in ('self',):
            continue
        if f not in reach:
            ctx.note('unarmed: %s mutates its argument %s (%s) but is not reachable from the public API' % (f, p, S.mutates[(f, p)]['what'][:50]))
        else:
            ctx.note('%s mutates %s and IS reachable from the public API' % (f, p))

    # ---------------------------------------------------------------- R13.3 values carried by diffs are input data wherever they are reached
    from ..aliasing import DIFFDATA
    reach_api = cg.reachable(api)
    n33 = 0
    for fid, fa in sorted(S.sites.items()):
        if fid not in reach_api or not fid.startswith(('nbdime.merging.', 'nbdime.patching', 'nbdime.prettyprint', 'nbdime.diff_utils')):
            continue
        n33 += 1
        if DIFFDATA in fa.mutated:
            w = fa.mutated[DIFFDATA]
            if w.get('via'):
                continue        # reported at the function that holds the mutating statement
            ctx.inst('R13.3', fid, '%s' % w['what'], False,
                     'an object reached through .local_diff/.remote_diff/.valuelist/.value/.diff (content of the caller\'s diffs, i.e. of the input notebooks) is modified in place',
                     w['node'])
    ctx.inst('R13.3', 'nbdime.merging/patching/prettyprint', '%d functions reachable from the public API examined' % n33, True,
             'no store/mutator on objects reached through diff-entry value fields', None, nontrivial=False)

    # ---------------------------------------------------------------- R13.2
    occ = {}

    def key_of(fid, text):
        n = occ[(fid, text)] = occ.get((fid, text), 0) + 1
        return text if n == 1 else '%s (#%d)' % (text, n)
    for fid, fa in sorted(S.sites.items()):
        if not fid.startswith(ESCAPE_MODULES):
            continue
        fn = repo.functions[fid]
        params = set(param_names(fn))
        seen = set()
        for node, root, what, kind, near, container in fa.escapes:
            if root not in DOC_PARAM_NAMES or root in NON_DOC or not near:
                continue
            key = (node, root)
            if key in seen:
                continue
            seen.add(key)
            ctx.inst('R13.2', fid, key_of(fid, '%s  [from %s]' % (repo.norm(node)[:150], root)), False,
                     'a sub-object of input %r is placed into the result by reference: mutating the result later mutates the input (and vice versa)' % root, node)
        if fid in ('nbdime.merging.decisions:resolve_action',):
            for st, root, depth in fa.return_sites:
                if root in DOC_PARAM_NAMES and _is_access_path(st.value.args[0] if isinstance(st.value, ast.Call) and st.value.args else st.value):
                    ctx.inst('R13.2', fid, key_of(fid, '%s  [from %s]' % (repo.norm(st), root)), False,
                             'returns a shallow copy: the entries of the decision\'s diff are shared with the applied diff', st)


from .extra import with_extra  # noqa: E402
run = with_extra('C13', run)
