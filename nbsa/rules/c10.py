"""C10 -- use-base/use-local/use-remote == resolving every open conflict to that side (table agreement clauses)."""
import ast

from ..core import AnalysisError, dotted, walk_no_nested
from ..cfg import CFG, cond_guards
from ..util import calls_in, local_defs, depends_on, const_val, if_chain, compare_eq_const, truth_under
from ..consteval import Evaluator, UNKNOWN, reachable_arms
from .. import mergefacts as mf

ASSUMPTIONS = [
    'the equivalence of the two code paths (resolve while deciding vs. resolve finished decisions) over all triples is behavioural: not decided',
    'line-level merging of strings under these strategies (FIXME in merging/generic.py) and absence of fabricated lines are not decided here (R07.3 covers constants)',
    'git merge-file semantics: --ours selects the first file argument, --theirs the third (git documentation)',
]

GEN, DEC, STR = mf.GEN, mf.DEC, mf.STR
PP = 'nbdime.prettyprint'
SIDES = {'use-base': 'base', 'use-local': 'local', 'use-remote': 'remote'}
SIDE_NAMES = {
    'local': {'local', 'l', 'ours', 'lv', 'local_diff'},
    'remote': {'remote', 'r', 'theirs', 'rv', 'remote_diff'},
    'base': {'base', 'b', 'bv'},
}


def last_attr_(c):
    return c.func.attr if isinstance(c.func, ast.Attribute) else (c.func.id if isinstance(c.func, ast.Name) else None)


def side_of(token):
    t = str(token).strip().lstrip('-')
    for side, names in SIDE_NAMES.items():
        if t in names:
            return side
    return None


def selected_entities(repo, cg, fn, body, ev):
    """What does this arm body select?  returns list of side names derived from the body."""
    out = []
    for st in body:
        for n in ast.walk(st):
            if isinstance(n, ast.Call) and isinstance(n.func, ast.Attribute) and dotted(n.func.value) == 'decisions' and \
                    n.func.attr in ('local', 'remote', 'base'):
                out.append(n.func.attr)
            if isinstance(n, ast.Assign) and dotted(n.targets[0]) == 'action':
                v = ev.ev(n.value)
                if isinstance(v, str) and side_of(v):
                    out.append(side_of(v))
            if isinstance(n, ast.AugAssign) and isinstance(n.value, ast.Constant) and isinstance(n.value.value, str):
                for tok in n.value.value.split():
                    if side_of(tok):
                        out.append(side_of(tok))
            if isinstance(n, ast.Return) and n.value is not None:
                v = n.value.elts[0] if isinstance(n.value, ast.Tuple) and n.value.elts else n.value
                d = dotted(v)
                if d and side_of(d):
                    out.append(side_of(d))
    return out


def _run_base(ctx):
    repo, cg = ctx.repo, ctx.cg
    ctx.rule('R10.1', 'every strategy->side mapping site selects the entity of that side (tryresolve, generic resolver, list P/R arm, three renderers, merge_render)', floor=14)
    ctx.rule('R10.2', 'generic resolution sets the action and clears the conflict flag together, only for conflicted decisions without an applied strategy', floor=1)
    ctx.rule('R10.4', 'conflicted decisions created by the mergers carry no strategy tag (tagged decisions are skipped by the root resolver)', floor=2)
    ctx.rule('R10.5', 'in the mergers no arm dispatching on a use-* strategy value precedes an arm that settles a non-conflict by picking a side', floor=1)
    ctx.rule('R10.3', 'the root strategy is applied last on every path of decide_merge_with_diff; use-* given as merge strategy becomes the root strategy and the per-field strategies', floor=3)

    sites = [
        (DEC + ':MergeDecisionBuilder.tryresolve', 'strategy'),
        (STR + ':resolve_strategy_generic', 'strategy'),
        (GEN + ':_merge_lists', 'list_strategy'),
        (PP + ':builtin_merge_render', 'strategy'),
        (PP + ':merge_render_with_git', 'strategy'),
        (PP + ':merge_render_with_diff3', 'strategy'),
        (PP + ':merge_render', 'strategy'),
    ]
    for fid, var in sites:
        fn = repo.func(fid)
        chains = []
        for n in walk_no_nested(fn):
            if isinstance(n, ast.If) and not (isinstance(repo.parent(n), ast.If) and n in repo.parent(n).orelse and len(repo.parent(n).orelse) == 1):
                arms, _ = if_chain(n)
                def _on_var(t):
                    while isinstance(t, ast.UnaryOp) and isinstance(t.op, ast.Not):
                        t = t.operand
                    return bool(compare_eq_const(t) and compare_eq_const(t)[0] == var or
                                (isinstance(t, ast.Call) and isinstance(t.func, ast.Attribute) and t.func.attr == 'startswith' and dotted(t.func.value) == var))
                if any(_on_var(t) for t, b, nd in arms):
                    chains.append(n)
        if not chains:
            raise AnalysisError('%s: no dispatch on %s found' % (fid, var))
        for s, side in SIDES.items():
            got = []
            for ch in chains:
                ev = Evaluator({var: s, 'is_transient': False})
                _arms = if_chain(ch)[0]
                for idx, body in reachable_arms(ev, ch):
                    if idx == 'else':
                        # the fall-through of a guard-clause chain is decided by the strategy value too when every test before it is definitely false
                        if body and any(_on_var(t) and ev.truth(ev.ev(t)) is False for t, b_, nd_ in _arms):
                            got.extend(selected_entities(repo, cg, fn, body, ev))
                        continue
                    test = _arms[idx][0]
                    if ev.truth(ev.ev(test)) is not True:
                        continue        # arms not decided by the strategy value
                    got.extend(selected_entities(repo, cg, fn, body, ev))
            if not got:
                ctx.inst('R10.1', fid, '%s -> (no arm of its own)' % s, True, 'strategy handled elsewhere / falls through', fn, nontrivial=False)
                continue
            ok = set(got) == {side}
            ctx.inst('R10.1', fid, '%s -> %s' % (s, sorted(set(got))), ok,
                     'selects the %s side' % side if ok else 'strategy %s selects %s here but means %s everywhere else' % (s, sorted(set(got)), side), fn)
    # git: --ours/--theirs vs file order of the command
    cmd = const_val(repo.module_assign(PP, 'git_mergefile_print_cmd'))
    toks = cmd.split() if isinstance(cmd, str) else []
    ok = '-p' in toks and toks[toks.index('-p') + 1:toks.index('-p') + 4] == ['local', 'base', 'remote']
    ctx.inst('R10.1', PP + ':git_mergefile_print_cmd', repr(cmd), ok,
             'git merge-file <current=local> <base> <other=remote>: --ours is local, --theirs is remote' if ok else
             'file order of the git merge-file command changed: --ours/--theirs no longer mean local/remote', None)
    emr = repo.func(PP + ':external_merge_render')
    # files are written under the names the command uses, from the matching parameters
    pairs = {}
    for w in [n for n in walk_no_nested(emr) if isinstance(n, ast.With)]:
        names = [const_val(a) for c in calls_in(w.items[0].context_expr) for a in c.args if isinstance(const_val(a), str)]
        fname = [x for x in names if x in ('local', 'base', 'remote')]
        wr = [c for c in calls_in(w) if isinstance(c.func, ast.Attribute) and c.func.attr == 'write' and c.args]
        if fname and wr:
            pairs[fname[0]] = dotted(wr[0].args[0])
        elif wr:
            # loop form:  for name, text in (('local', l), ('base', b), ('remote', r)): with open(join(td, name), 'w') as f: f.write(text)
            lp = repo.enclosing(w, (ast.For,))
            if lp is not None and isinstance(lp.target, ast.Tuple) and len(lp.target.elts) == 2 and isinstance(lp.iter, (ast.Tuple, ast.List)) and \
                    all(isinstance(e, (ast.Tuple, ast.List)) and len(e.elts) == 2 for e in lp.iter.elts):
                nvar, tvar = (dotted(e) for e in lp.target.elts)
                used_n = any(isinstance(x, ast.Name) and x.id == nvar for x in ast.walk(w.items[0].context_expr))
                if used_n and dotted(wr[0].args[0]) == tvar:
                    for e in lp.iter.elts:
                        if isinstance(const_val(e.elts[0]), str):
                            pairs[const_val(e.elts[0])] = dotted(e.elts[1])
    if not pairs:
        raise AnalysisError('external_merge_render: the temp files written for the merge tool were not found')
    ok = {k: side_of(v) for k, v in pairs.items()} == {'local': 'local', 'base': 'base', 'remote': 'remote'}
    ctx.inst('R10.1', PP + ':external_merge_render', 'files %s' % pairs, ok,
             'each temp file holds the text of the side it is named after' if ok else 'a temp file holds another side\'s text', emr)

    # ---------------------------------------------------------------- R10.2
    rg = repo.func(STR + ':resolve_strategy_generic')
    g = CFG(rg)
    acts = [n for n in walk_no_nested(rg) if isinstance(n, ast.Assign) and isinstance(n.targets[0], ast.Attribute) and n.targets[0].attr == 'action']
    if not acts:
        raise AnalysisError('resolve_strategy_generic no longer sets d.action')
    for a in acts:
        blk = _block_of(repo, a)
        var = dotted(a.targets[0].value)
        clears = [s for s in blk if isinstance(s, ast.Assign) and dotted(s.targets[0]) == var + '.conflict' and const_val(s.value) is False]
        guards = cond_guards(g, a)
        g_ok = any(truth_under(t, pol, lambda e: isinstance(e, ast.Attribute) and e.attr == 'conflict' and dotted(e.value) == var) is True for t, pol in guards)
        s_ok = any(truth_under(t, pol, lambda e: isinstance(e, ast.Call) and isinstance(e.func, ast.Attribute) and e.func.attr == 'get'
                               and e.args and const_val(e.args[0]) == 'strategy') is False for t, pol in guards)
        ctx.inst('R10.2', STR + ':resolve_strategy_generic', repo.norm(a) + ' ; ' + '; '.join(repo.norm(c) for c in clears), bool(clears) and g_ok and s_ok,
                 'action set and flag cleared together, for conflicted decisions no strategy has already handled' if clears and g_ok and s_ok else
                 ('conflict flag is not cleared with the action' if not clears else 'resolution is not restricted to open conflicts without an applied strategy'), a)
    # ---------------------------------------------------------------- R10.4 open conflicts stay visible to the root resolver
    n44 = 0
    for fid, fn in sorted(repo.functions.items()):
        if not fid.startswith(GEN + ':'):
            continue
        for c in calls_in(fn, nested=False):
            if isinstance(c.func, ast.Attribute) and dotted(c.func.value) == 'decisions':
                kw = {k.arg: k.value for k in c.keywords}
                if 'conflict' in kw and const_val(kw['conflict']) is True:
                    n44 += 1
                    tagged = 'strategy' in kw and not (isinstance(kw['strategy'], ast.Constant) and kw['strategy'].value is None)
                    ctx.inst('R10.4', fid, repo.norm(c), not tagged,
                             'an open conflict created by the merger carries no strategy tag, so resolve_strategy_generic will resolve it' if not tagged else
                             'a decision is created conflicted AND tagged with a strategy: resolve_strategy_generic skips tagged decisions, so use-* leaves it unresolved', c)
    if n44 == 0:
        raise AnalysisError('no conflict=True decision call found in merging/generic.py')

    # ---------------------------------------------------------------- R10.5 a use-* arm never shadows a non-conflict arm
    # "merge with conflicts left open, then resolve every conflict to that side" only lets the strategy decide *conflicts*;
    # an arm that picks a side without declaring a conflict (transient-only edit loses against a deletion, ...) is a
    # non-conflict outcome and must be tried before any arm that dispatches on a use-* strategy value.
    n55 = 0
    for fid, fn in sorted(repo.functions.items()):
        if not fid.startswith(GEN + ':'):
            continue
        for n in walk_no_nested(fn):
            if not isinstance(n, ast.If) or (isinstance(repo.parent(n), ast.If) and repo.parent(n).orelse == [n]):
                continue
            arms, els = if_chain(n)
            kinds = []
            for t, body, nd in arms:
                strat_vars = [x for x in ast.walk(t) if isinstance(x, ast.Name) and x.id.endswith('strategy')]
                uses = [c.value for c in ast.walk(t) if isinstance(c, ast.Constant) and isinstance(c.value, str) and c.value.startswith('use-')]
                if strat_vars and (uses or any(isinstance(c, ast.Call) and last_attr_(c) == 'tryresolve' for c in ast.walk(t))):
                    # dispatch on a use-* value, or an attempt to let the item's strategy settle the situation
                    kinds.append(('strategy', t))
                    continue
                picks = []
                for st in body:
                    if isinstance(st, ast.Expr) and isinstance(st.value, ast.Call) and isinstance(st.value.func, ast.Attribute) and \
                            dotted(st.value.func.value) == 'decisions' and st.value.func.attr in ('local', 'remote', 'base', 'agreement', 'onesided'):
                        kw = {k.arg: k.value for k in st.value.keywords}
                        if not ('conflict' in kw and const_val(kw['conflict']) is not False):
                            picks.append(st.value)
                kinds.append(('pick', picks[0]) if picks and not strat_vars else ('other', t))
            if not any(k == 'strategy' for k, _ in kinds):
                continue
            first = [i for i, (k, _) in enumerate(kinds) if k == 'strategy'][0]
            late = [(i, x) for i, (k, x) in enumerate(kinds) if k == 'pick' and i > first]
            n55 += 1
            ctx.inst('R10.5', fid, 'chain at `%s`: arms %s' % (repo.norm(arms[0][0])[:60], [k for k, _ in kinds]), not late,
                     'every arm that settles a non-conflict by picking a side precedes the use-* dispatch' if not late else
                     'arm %d (%s) settles a NON-conflict but is tried only after the use-* strategy arm %d: with a use-* strategy the strategy decides '
                     'a situation that is no conflict when conflicts are left open' % (late[0][0], repo.norm(late[0][1])[:80], first),
                     late[0][1] if late else n)
    if n55 == 0:
        raise AnalysisError('no chain dispatching on a use-* strategy found in merging/generic.py')

    # ---------------------------------------------------------------- R10.3
    dm = repo.func(GEN + ':decide_merge_with_diff')
    g = CFG(dm)
    defs = local_defs(dm)
    calls = [c for c in calls_in(dm, nested=False) if ('func', STR + ':resolve_strategy_generic') in cg.resolve(c.func, dm)]
    rets = [n for n in walk_no_nested(dm) if isinstance(n, ast.Return)]
    ok = len(calls) == 1 and all(g.dominated_by(r, [repo.stmt_of(calls[0])]) for r in rets) and len(calls[0].args) >= 3 and \
        depends_on(dm, calls[0].args[2], lambda n: isinstance(n, ast.Call) and isinstance(n.func, ast.Attribute) and n.func.attr == 'get'
                   and n.args and const_val(n.args[0]) == '/', defs) is not None
    ctx.inst('R10.3', GEN + ':decide_merge_with_diff', repo.norm(calls[0]) if calls else '<no root resolution>', ok,
             'root strategy strategies.get("/") is applied on every path before the decisions are returned' if ok else
             'the root strategy is not applied on every path: use-* can leave conflicts open', calls[0] if calls else dm)
    from .c03 import strategy_table
    table, _ = strategy_table(ctx)
    for s in SIDES:
        ok = s in table.get('/', ())
        ctx.inst('R10.3', mf.MNB + ':notebook_merge_strategies', 'merge strategy %s -> root "/"' % s, ok,
                 'becomes the root strategy' if ok else '%s given as merge strategy is never installed as root strategy' % s, None)
    nm = repo.func(mf.MNB + ':notebook_merge_strategies')
    for field in ('input_strategy', 'output_strategy'):
        asg = [n for n in walk_no_nested(nm) if isinstance(n, ast.Assign) and dotted(n.targets[0]) == field and
               isinstance(n.value, ast.BoolOp) and isinstance(n.value.op, ast.Or)]
        ok = bool(asg) and [dotted(v) for v in asg[0].value.values] == [field, 'merge_strategy']
        ctx.inst('R10.3', mf.MNB + ':notebook_merge_strategies', repo.norm(asg[0]) if asg else '<no default for %s>' % field, ok,
                 'an unset %s defaults to the merge strategy' % field if ok else '%s does not default to the merge strategy' % field,
                 asg[0] if asg else nm)


def _block_of(repo, st):
    p = repo.parent(st)
    for field in ('body', 'orelse', 'finalbody'):
        b = getattr(p, field, None)
        if isinstance(b, list) and st in b:
            return b
    return [st]



def field_strategy_sources(ctx, rule):
    """--input-strategy governs the inputs of a cell (source and attachments), --output-strategy its outputs, the merge strategy
    the metadata (args help texts).  "use-X given separately as input/output strategy equals resolving every open conflict in
    that part to X" needs each field's entry of the strategy table to be derived from the option that governs it."""
    repo = ctx.repo
    fn = repo.func(mf.MNB + ':notebook_merge_strategies')
    defs = local_defs(fn)
    OPTS = ('input_strategy', 'output_strategy', 'merge_strategy', 'metadata_strategy')
    EXPECT = {'/cells/*/source': 'input_strategy', '/cells/*/attachments': 'input_strategy', '/cells/*/outputs': 'output_strategy',
              '/metadata': 'metadata_strategy', '/cells/*/metadata': 'metadata_strategy', '/cells/*/outputs/*/metadata': 'metadata_strategy'}

    def roots(e, seen=()):
        out = set()
        for x in ast.walk(e):
            if isinstance(x, ast.Name):
                if x.id in OPTS:
                    out.add(x.id)
                elif x.id in defs and x.id not in seen:
                    for v, k, st in defs[x.id]:
                        out |= roots(v, seen + (x.id,))
        return out
    found = {}
    for n in walk_no_nested(fn):
        if isinstance(n, ast.Call) and isinstance(n.func, ast.Attribute) and n.func.attr == 'update' and n.args and isinstance(n.args[0], ast.Dict):
            for k, v in zip(n.args[0].keys, n.args[0].values):
                if const_val(k) in EXPECT:
                    found[const_val(k)] = (roots(v), v)
        if isinstance(n, ast.Assign) and isinstance(n.targets[0], ast.Subscript) and const_val(n.targets[0].slice) in EXPECT:
            found[const_val(n.targets[0].slice)] = (roots(n.value), n.value)
    if len(found) < 5:
        raise AnalysisError('notebook_merge_strategies: per-field strategy entries not found (%d)' % len(found))
    for path, (rs, node) in sorted(found.items()):
        want = EXPECT[path]
        ok = want in rs and not (rs - {want, 'merge_strategy'} if want != 'metadata_strategy' else rs - {'metadata_strategy', 'merge_strategy'})
        # a field governed by input/output strategy may only additionally depend on merge_strategy through the documented default
        ctx.inst(rule, mf.MNB + ':notebook_merge_strategies', '%s <- %s' % (path, sorted(rs)), ok,
                 'derived from %s' % want if ok else
                 'the strategy of %s is derived from %s instead of %s: with the options given separately, conflicts in this part are resolved to a different side '
                 'than "resolve every open conflict of that part to the chosen side"' % (path, sorted(rs) or 'a constant', want), node)

def run(ctx):
    """R10.6: in the mergers a strategy variable holds what the strategy table says for ITS path, nothing else.

    "Leave conflicts open, then resolve each to that side" attaches a use-* strategy to the paths the table names; the
    equivalence breaks as soon as a merger lets a strategy looked up for one path (the list) stand in for another
    (its items), because conflicts are then settled at a different level than the root resolver would settle them."""
    ctx.rule('R10.7', 'each field of the strategy table is derived from the option that governs it: source and attachments from the input strategy, outputs from the output strategy, metadata from the merge strategy', floor=5)
    ctx.rule('R10.6', 'every *strategy variable of the mergers is defined only by a lookup in the strategy table (strategies.get(<path>)), never from another strategy variable', floor=6)
    _run_base(ctx)
    repo = ctx.repo
    n = 0
    for fid, fn in sorted(repo.functions.items()):
        if not fid.startswith(GEN + ':') or '__unused__' in fid:
            continue
        params = {a.arg for a in fn.args.args + fn.args.kwonlyargs}
        for name, ds in sorted(local_defs(fn).items()):
            if not name.endswith('strategy'):
                continue
            for v, k, st in ds:
                n += 1
                is_lookup = isinstance(v, ast.Call) and isinstance(v.func, ast.Attribute) and v.func.attr == 'get' and dotted(v.func.value) == 'strategies'
                is_lookup = is_lookup or (isinstance(v, ast.Subscript) and dotted(v.value) == 'strategies')
                other = sorted({x.id for x in ast.walk(v) if isinstance(x, ast.Name) and x.id.endswith('strategy') and x.id != name})
                ok = k == 'assign' and is_lookup and not other
                ctx.inst('R10.6', fid, repo.norm(st) if isinstance(st, ast.stmt) else '%s = %s' % (name, ast.unparse(v)[:60]), ok,
                         'looked up in the strategy table for its own path' if ok else
                         '%s is given the value of %s: a strategy attached to one path now also decides conflicts on another path, which the '
                         'leave-open-then-resolve reading does not do' % (name, other or ast.unparse(v)[:50]), st if isinstance(st, ast.AST) else fn)
    if n < 6:
        raise AnalysisError('fewer strategy lookups than expected in merging/generic.py')
    field_strategy_sources(ctx, 'R10.7')


from .extra import with_extra  # noqa: E402
run = with_extra('C10', run)
