"""C19 -- option resolution: flag > most specific config section > default (hierarchy vs documentation, layering shape)."""
import ast
import re

from ..core import AnalysisError, dotted, walk_no_nested, FuncTypes
from ..cfg import CFG, cond_guards
from ..util import last_attr, calls_in, local_defs, depends_on, const_val, names_in

ASSUMPTIONS = [
    'the value-level rule over all file contents is behavioural: not decided; decided are the class hierarchy vs the documented sections, '
    'the specificity order of sections per option, the layering/file-priority shape of build_config and that flags override defaults',
    'traitlets HasTraits / argparse semantics (set_defaults before parse; explicit flags override defaults) are trusted',
    'jupyter_config_path() returns directories in descending priority (jupyter_core documentation)',
]

CFGM = 'nbdime.config'
# documented specificity, most specific first (docs/source/config.rst + property text)
RANK = {'own': 0, 'GitDiff': 1, 'GitMerge': 1, 'Diff': 2, 'Merge': 2, 'Show': 2, 'WebTool': 3, 'Web': 4, 'Global': 5}
EXEMPT_SCRIPT_PREFIXES = ('hg-',)     # documented as unconfigured: explicit non-key prog, no section


def parse_sections(text):
    """Sections list of config.rst: {section: [entry point classes] or 'ALL'}"""
    m = re.search(r'^Sections\n-+\n(.*?)^\.\. note::', text, re.S | re.M)
    if not m:
        raise AnalysisError('docs/source/config.rst: "Sections" list not found')
    body = m.group(1)
    out = {}
    cur = None
    buf = []
    for line in body.splitlines():
        if re.match(r'^[A-Za-z]\w*\s*$', line):
            if cur:
                out[cur] = ' '.join(buf)
            cur, buf = line.strip(), []
        elif cur and line.startswith('    '):
            buf.append(line.strip())
    if cur:
        out[cur] = ' '.join(buf)
    res = {}
    for sec, desc in out.items():
        pm = re.search(r'\(([^)]*)\)', desc)
        if pm:
            res[sec] = [x.strip() for x in pm.group(1).split(',') if x.strip()]
        elif 'all commands' in desc:
            res[sec] = 'ALL'
        else:
            res[sec] = []
    if len(res) < 6:
        raise AnalysisError('config.rst sections parsed: %s' % sorted(res))
    return res


def class_traits(repo, cid):
    """Own configurable traits of a class: names assigned from <Trait>(...).tag(config=True)."""
    c = repo.classes[cid]
    out = set()
    for st in c.body:
        if isinstance(st, ast.Assign) and isinstance(st.targets[0], ast.Name) and isinstance(st.value, ast.Call):
            v = st.value
            if isinstance(v.func, ast.Attribute) and v.func.attr == 'tag' and any(k.arg == 'config' and const_val(k.value) is True for k in v.keywords):
                out.add(st.targets[0].id)
    return out


def swallowed_value_errors(ctx, rule):
    """ConfigBackedParser.parse_known_args wraps the whole "read configuration, install it as defaults" step in
    `except ValueError: pass` (meant for: this program has no configuration section).  Any OTHER ValueError raised on that
    path makes the parser silently run with no configuration at all -- flags from config files, including the Ignore
    mapping and the ignorable categories, are dropped without a message."""
    import ast as _ast
    from ..util import calls_in as _calls
    repo, cg = ctx.repo, ctx.cg
    pk = repo.func('nbdime.args:ConfigBackedParser.parse_known_args')
    tries = [n for n in _ast.walk(pk) if isinstance(n, _ast.Try) and any(h.type is not None and 'ValueError' in _ast.unparse(h.type) and
                                                                          all(isinstance(b, _ast.Pass) for b in h.body) for h in n.handlers)]
    if not tries:
        ctx.inst(rule, 'nbdime.args:ConfigBackedParser.parse_known_args', 'no `except ValueError: pass` around the configuration step', True,
                 'errors while building the configuration are not swallowed', pk, nontrivial=False)
        return
    roots = set()
    for st in tries[0].body:
        for c in _calls(st):
            for t in cg.resolve(c.func, pk):
                if t[0] == 'func':
                    roots.add(t[1])
    reach = cg.reachable(sorted(roots))
    ALLOWED = {
        'nbdime.config:build_config': 'entrypoint',      # unknown program name: the documented reason for the swallow
        'nbdime.diffing.notebooks:set_notebook_diff_ignores': None,   # runs after the defaults were installed
    }
    n = 0
    for fid in sorted(reach):
        if not fid.startswith(('nbdime.config', 'nbdime.args', 'nbdime.diffing.notebooks')):
            continue
        fn = repo.functions[fid]
        for r in walk_no_nested(fn):
            if isinstance(r, _ast.Raise) and r.exc is not None and 'ValueError' in _ast.unparse(r.exc)[:30]:
                n += 1
                ok = fid in ALLOWED and (ALLOWED[fid] is None or
                                         any(pol and ALLOWED[fid] in _ast.unparse(t) for t, pol in cond_guards(CFG(fn), r)))
                ctx.inst(rule, fid, repo.norm(r)[:110], ok,
                         'the documented reason for the swallow / raised after the defaults were installed' if ok else
                         'this ValueError is raised while the configuration is read and is swallowed by `except ValueError: pass` in '
                         'ConfigBackedParser.parse_known_args: the whole configuration (incl. Ignore and the ignorable categories) is silently dropped', r)
    if n == 0:
        raise AnalysisError('no ValueError raise found on the configuration path (anchor moved)')


def redeclared_traits(ctx, rule):
    """build_config layers, per class of the reversed MRO, the class's OWN trait defaults and then its disk section, and
    recursive_update treats None as "delete the key".  A more specific section class that re-declares an inherited option
    with default None therefore wipes the value a less specific section (e.g. Web) configured for it.  Every re-declaration
    of an inherited trait must carry a non-None default (like Server.port = 8888)."""
    import ast as _ast
    repo = ctx.repo
    m = repo.modules[CFGM]
    classes = {}
    for n in m.tree.body:
        if isinstance(n, _ast.ClassDef):
            traits = {}
            for st in n.body:
                if isinstance(st, _ast.Assign) and len(st.targets) == 1 and isinstance(st.targets[0], _ast.Name):
                    v = st.value
                    while isinstance(v, _ast.Call) and isinstance(v.func, _ast.Attribute) and v.func.attr == 'tag':
                        v = v.func.value
                    if isinstance(v, _ast.Call):
                        traits[st.targets[0].id] = (v, st)
            classes[n.name] = ([_ast.unparse(b) for b in n.bases], traits)

    def ancestors(c, seen=()):
        out = []
        for b in classes.get(c, ([], {}))[0]:
            if b in classes and b not in seen:
                out.append(b)
                out += ancestors(b, seen + (b,))
        return out
    n = 0
    for cname, (bases, traits) in sorted(classes.items()):
        for tname, (call, st) in sorted(traits.items()):
            anc = [a for a in ancestors(cname) if tname in classes[a][1]]
            if not anc:
                continue
            n += 1
            default = None
            pos = [a for a in call.args]
            ctor = _ast.unparse(call.func).split('.')[-1]
            if ctor in ('Enum', 'CaselessStrEnum', 'UseEnum'):
                default = pos[1] if len(pos) > 1 else None
            else:
                default = pos[0] if pos else None
            for k in call.keywords:
                if k.arg == 'default_value':
                    default = k.value
            is_none = default is None or (isinstance(default, _ast.Constant) and default.value is None)
            ctx.inst(rule, '%s:%s' % (CFGM, cname), '%s re-declares %s (inherited from %s) with default %s' % (cname, tname, anc[0], _ast.unparse(default) if default is not None else 'None'),
                     not is_none, 'the more specific default replaces the inherited one' if not is_none else
                     'the default None of the re-declaration is layered after section %s and deletes the value configured there: for entry points under %s the '
                     'option silently falls back to its built-in default although a less specific section sets it' % (anc[0], cname), st)
    ctx.inst(rule, CFGM, '%d trait re-declaration(s) among %d section classes' % (n, len(classes)), True, 'each checked for a non-None default', None, nontrivial=False)

def run(ctx):
    repo, cg = ctx.repo, ctx.cg
    ctx.rule('R19.9', 'a section class re-declares an inherited option only with a non-None default (None is "delete" for the layering)', floor=2)
    ctx.rule('R19.8', 'no ValueError other than "unknown program name" can be raised while the configuration is read: the parser swallows ValueError and would silently run unconfigured', floor=1)
    ctx.rule('R19.7', 'name binding: every global name a function refers to is bound at module level or builtin, and every local is assigned on every path before it is read', floor=2)
    ctx.rule('R19.6', 'every exactly resolved call binds against its callee\'s signature (no missing/unknown/surplus argument on any arm)', floor=1)
    ctx.rule('R19.1', 'documented section membership = class hierarchy (section S listed for entry point E <=> S in MRO(E))', floor=7)
    ctx.rule('R19.2', 'for every entry point and option, the sections carrying the option appear in the MRO in documented specificity order', floor=11)
    ctx.rule('R19.3', 'layering shape: reversed MRO, class defaults then the same-named disk section; files merged lowest priority first; cwd has highest priority; nested dicts merge key-wise', floor=6)
    ctx.rule('R19.4', 'flags beat configuration: config enters only as argparse defaults set before parsing', floor=1)
    ctx.rule('R19.5', 'every console script reaches its configurable: the program name each ConfigBackedParser sees is a key of entrypoint_configurables', floor=12)

    ec = repo.module_assign(CFGM, 'entrypoint_configurables')
    if not isinstance(ec, ast.Dict):
        raise AnalysisError('entrypoint_configurables is not a dict literal')
    entry = {}
    for k, v in zip(ec.keys, ec.values):
        entry[const_val(k)] = '%s:%s' % (CFGM, dotted(v))
    for k, cid in entry.items():
        repo.cls(cid)
    mros = {k: [c.split(':')[1] for c in cg.res.mro(cid)] for k, cid in entry.items()}
    ctx.extra['entry_point_mro'] = mros
    doc = parse_sections(repo.text('docs/source/config.rst'))
    ctx.extra['documented_sections'] = doc
    classes = {c.split(':')[1] for c in repo.classes if c.startswith(CFGM + ':')}
    # ---------------------------------------------------------------- R19.1
    for sec, members in sorted(doc.items()):
        if sec not in classes:
            ctx.inst('R19.1', 'docs/source/config.rst', 'section %s' % sec, False, 'documented section has no class in nbdime/config.py', None)
            continue
        in_mro = sorted(mros[k][0] for k in mros if sec in mros[k])
        if members == 'ALL':
            want = sorted(m[0] for m in mros.values())
        else:
            want = sorted(members)
        ok = in_mro == want
        if ok:
            ctx.inst('R19.1', CFGM + ':' + sec, 'section %s <-> %s' % (sec, want), True, 'documented members are exactly the entry points inheriting the section', repo.cls(CFGM + ':' + sec))
        elif not in_mro:
            ctx.inst('R19.1', CFGM + ':' + sec, 'section %s is documented for %s but is a base class of no entry point' % (sec, 'all commands' if members == 'ALL' else want),
                     False, 'a "%s" block in nbdime_config.json is never read by build_config (it layers only classes in the entry point\'s MRO)' % sec,
                     repo.cls(CFGM + ':' + sec))
        else:
            ctx.inst('R19.1', CFGM + ':' + sec, 'section %s: documented %s, inherited by %s' % (sec, want, in_mro), False,
                     'documentation and class hierarchy disagree: missing in hierarchy %s, undocumented %s' % (
                         sorted(set(want) - set(in_mro)), sorted(set(in_mro) - set(want))), repo.cls(CFGM + ':' + sec))
    # sections that exist as public classes used as bases but are not documented
    for k, mro in mros.items():
        for c in mro[1:]:
            if c not in doc and not c.startswith('_') and c not in ('NbdimeConfigurable', 'Show') and c not in [m[0] for m in mros.values()]:
                ctx.inst('R19.1', CFGM + ':' + c, 'base section %s of %s is undocumented' % (c, mro[0]), False, 'an effective section the documentation does not mention', repo.cls(CFGM + ':' + c))

    # ---------------------------------------------------------------- R19.2
    alltraits = {}

    def traits_of(cname):
        if cname not in alltraits:
            cid = CFGM + ':' + cname
            t = set()
            for c in cg.res.mro(cid):
                t |= class_traits(repo, c)
            alltraits[cname] = t
        return alltraits[cname]
    for k, mro in sorted(mros.items()):
        own = mro[0]
        bad = []
        n_pairs = 0
        for T in sorted(traits_of(own)):
            carriers = [(i, c) for i, c in enumerate(mro) if (c == own or c in RANK) and T in traits_of(c)]
            for (i, a) in carriers:
                for (j, b) in carriers:
                    if i < j:
                        n_pairs += 1
                        ra = RANK['own'] if a == own else RANK[a]
                        rb = RANK['own'] if b == own else RANK[b]
                        if ra > rb:
                            bad.append((T, a, b))
        ctx.inst('R19.2', entry[k], 'entry point %s: MRO %s; %d (option, section pair) orderings' % (k, mro[:-1] if mro[-1] == 'NbdimeConfigurable' else mro, n_pairs), not bad,
                 'more specific sections come earlier in the MRO for every option they share' if not bad else
                 'option %r: section %s is layered above %s although it is documented as less specific' % bad[0], repo.cls(entry[k]))

    # ---------------------------------------------------------------- R19.3
    bc = repo.func(CFGM + ':build_config')
    loops = [n for n in walk_no_nested(bc) if isinstance(n, ast.For)]
    bdefs = local_defs(bc)

    def over_mro(it):
        if any(isinstance(c, ast.Call) and isinstance(c.func, ast.Attribute) and c.func.attr == 'mro' for c in ast.walk(it)):
            return True
        if isinstance(it, ast.Name):
            return any(over_mro(v) for v, k, st in bdefs.get(it.id, []) if k == 'assign')
        if isinstance(it, ast.Call) and dotted(it.func) == 'reversed' and it.args:
            return over_mro(it.args[0])
        return False

    def is_reversed(it):
        if isinstance(it, ast.Call) and dotted(it.func) == 'reversed':
            return True
        if isinstance(it, ast.Name):
            ds = [v for v, k, st in bdefs.get(it.id, []) if k == 'assign']
            return len(ds) == 1 and (is_reversed(ds[0]) or (isinstance(ds[0], ast.ListComp) and is_reversed(ds[0].generators[0].iter)))
        return False
    RU = repo.fid_of(repo.func(CFGM + ':recursive_update'))     # wherever the function lives (it may be imported back)
    mloops = [l for l in loops if over_mro(l.iter)]
    if not mloops:
        raise AnalysisError('build_config: loop over the MRO not found')
    # the update that layers a section read from disk: recursive_update(config, <disk>[<c>.__name__], ...)
    def _section_expr(e):
        if any(isinstance(x, ast.Subscript) and isinstance(x.slice, ast.Attribute) and x.slice.attr == '__name__' for x in ast.walk(e)):
            return True
        if isinstance(e, ast.Name):
            return any(_section_expr(v) for v, k, st in bdefs.get(e.id, []) if k == 'assign' and not isinstance(v, ast.Name))
        return False
    disk_ups = [c for c in calls_in(bc, nested=False) if ('func', RU) in cg.resolve(c.func, bc) and len(c.args) > 1 and
                _section_expr(c.args[1])]
    if not disk_ups:
        # layered with something else than recursive_update?  dict.update / {**a, **b} are SHALLOW: a section's nested Ignore mapping replaces the inherited one
        shallow = [c for c in calls_in(bc, nested=False) if isinstance(c.func, ast.Attribute) and c.func.attr == 'update' and c.args and
                   any(isinstance(x, ast.Attribute) and x.attr == '__name__' for x in ast.walk(c.args[0]))]
        if shallow:
            ctx.inst('R19.3', CFGM + ':build_config', repo.norm(shallow[0])[:90], False,
                     'a section read from disk is layered with dict.update, which replaces nested values wholesale: the most specific section\'s `Ignore` mapping REPLACES the '
                     'inherited one instead of being merged path by path (Diff: {/metadata: [foo]} is lost as soon as GitDiff has an Ignore of its own)', shallow[0])
            disk_ups = shallow
    _disk_names = set()
    if not disk_ups:
        # layered by walking the FILE mapping (for name, values in disk_config.items(): if name in <sections>: recursive_update(config, values))?
        disk_names = {t.id for st_ in walk_no_nested(bc) if isinstance(st_, ast.Assign) and isinstance(st_.value, ast.Call) and last_attr(st_.value) == '_load_config_files'
                      for t in st_.targets if isinstance(t, ast.Name)}
        for l_ in loops:        # ... or the mapping the loaded files are accumulated into
            if any(isinstance(x, ast.Call) and last_attr(x) == '_load_config_files' for x in ast.walk(l_.iter)):
                for st_ in l_.body:
                    for c in ast.walk(st_):
                        if isinstance(c, ast.Call) and ('func', RU) in cg.resolve(c.func, bc) and c.args and isinstance(c.args[0], ast.Name):
                            disk_names.add(c.args[0].id)
        _disk_names = disk_names
        for l_ in loops:
            if disk_names and any(isinstance(x, ast.Name) and x.id in disk_names for x in ast.walk(l_.iter)) and not over_mro(l_.iter):
                ups = [c for st_ in l_.body for c in ast.walk(st_) if isinstance(c, ast.Call) and ('func', RU) in cg.resolve(c.func, bc)]
                if ups:
                    ctx.inst('R19.3', CFGM + ':build_config', repo.norm(l_)[:90], False,
                             'the sections read from disk are layered in the order the FILES present them (a loop over the loaded mapping), not from the most general to the most '
                             'specific class of the entry point: when two sections of one lineage set the same option, the one met later wins, not the more specific one', ups[0])
                    disk_ups = ups
    if not disk_ups:
        raise AnalysisError('build_config: no update from a disk section named after the class')

    def enclosing_loops(node):
        out = []
        p = repo.parent(node)
        while p is not None and p is not bc:
            if isinstance(p, ast.For):
                out.append(p)
            p = repo.parent(p)
        return out
    du = disk_ups[0]
    enc = enclosing_loops(du)
    ml = next((l for l in enc if l in mloops), mloops[0])
    file_loops = [l for l in enc if any(isinstance(c, ast.Call) and last_attr(c) == '_load_config_files' for c in ast.walk(l.iter))]
    ok = ml in enc and not file_loops
    ctx.inst('R19.3', CFGM + ':build_config', 'section layering: %s' % ' > '.join('for %s in %s' % (ast.unparse(l.target), ast.unparse(l.iter)[:50]) for l in reversed(enc)), ok,
             'sections are layered along the MRO over the already merged files: specificity decides first, file priority only within one section' if ok else
             'the files are iterated outside the sections: a general section in a higher-priority file overrides a more specific section '
             'in a lower-priority file (most-specific-section-wins is violated)', du)
    ok = is_reversed(ml.iter)
    ctx.inst('R19.3', CFGM + ':build_config', repo.norm(ml.iter), ok, 'least specific class first, most specific last (wins)' if ok else
             'the MRO is not layered in reverse: the least specific section wins', ml)
    ups = [c for c in calls_in(ml) if ('func', RU) in cg.resolve(c.func, bc)]
    kinds = []
    _bdefs = local_defs(bc)
    for c in ups:
        src = c.args[1] if len(c.args) > 1 else None
        # a local that holds the value (defaults = <...>.configured_traits(cls)) stands for its single definition
        if isinstance(src, ast.Name):
            ds = [v for v, k, st in _bdefs.get(src.id, []) if k == 'assign']
            if len(ds) == 1:
                src = ds[0]
        if src is not None and any(isinstance(x, ast.Call) and isinstance(x.func, ast.Attribute) and x.func.attr == 'configured_traits' for x in ast.walk(src)):
            kinds.append(('defaults', c.lineno))
        elif src is not None and _section_expr(src):
            kinds.append(('disk', c.lineno))
    ok = [k for k, _ in sorted(kinds, key=lambda t: t[1])] == ['defaults', 'disk']
    ctx.inst('R19.3', CFGM + ':build_config', 'per class: %s' % [k for k, _ in sorted(kinds, key=lambda t: t[1])], ok,
             'class defaults first, then the disk section of the same name' if ok else 'class defaults and the disk section of a class are not applied together (defaults, then disk) per class', ml)
    disk_sub = [n for n in ast.walk(ml) if isinstance(n, ast.Subscript) and isinstance(n.slice, ast.Attribute) and n.slice.attr == '__name__']
    ok = bool(disk_sub) and all(dotted(s.slice.value) == ast.unparse(ml.target) for s in disk_sub)
    if not disk_sub and _disk_names:
        pass        # the sections are not looked up inside the class loop at all: reported above (layered in file order)
    else:
      ctx.inst('R19.3', CFGM + ':build_config', 'disk section key = %s' % (repo.norm(disk_sub[0].slice) if disk_sub else '?'), ok,
             'a class reads the section named after itself' if ok else 'section lookup is not by class name', ml)
    # the search path: the local that holds jupyter_config_path() and is handed to _load_config_files
    lcf = [c for c in calls_in(bc) if last_attr(c) == '_load_config_files']
    if len(lcf) != 1:
        raise AnalysisError('build_config: _load_config_files call not found')
    _lf_params = [a.arg for a in repo.func(CFGM + ':_load_config_files').args.args]
    _pname = _lf_params[1] if len(_lf_params) > 1 else 'path'
    parg = next((k.value for k in lcf[0].keywords if k.arg == _pname), lcf[0].args[1] if len(lcf[0].args) > 1 else None)
    if parg is None:
        raise AnalysisError('build_config: no search path is handed to _load_config_files')

    def _elt(e):
        if isinstance(e, ast.Call) and dotted(e.func) in ('os.getcwd', 'getcwd', 'os.path.abspath') and (dotted(e.func) != 'os.path.abspath' or (e.args and const_val(e.args[0]) in ('.', ''))):
            return 'CWD'
        if isinstance(e, ast.Attribute) and dotted(e) == 'os.curdir' or const_val(e) == '.':
            return 'CWD'
        return '?'

    _memo = []

    def _wrapper_body(e):
        """call of a package function that consists of `return <expr>`: (expr, memoising decorator or None)"""
        if not (isinstance(e, ast.Call) and not e.args and not e.keywords):
            return None
        for t in cg.resolve(e.func, bc):
            if t[0] == 'func' and t[1] in repo.functions:
                f_ = repo.functions[t[1]]
                body = [s_ for s_ in f_.body if not (isinstance(s_, ast.Expr) and isinstance(s_.value, ast.Constant))]
                if len(body) == 1 and isinstance(body[0], ast.Return) and body[0].value is not None:
                    memo = next((ast.unparse(d_) for d_ in f_.decorator_list if any(isinstance(x, (ast.Name, ast.Attribute)) and
                                 (dotted(x) or '').split('.')[-1] in ('lru_cache', 'cache', 'cached_property', 'memoize') for x in ast.walk(d_))), None)
                    return body[0].value, memo
        return None

    def _sym(e, depth=0):
        """the search path as a sequence over {CWD, JUP (the jupyter config directories), ?}"""
        if isinstance(e, ast.Call) and last_attr(e) == 'jupyter_config_path':
            return ['JUP']
        if isinstance(e, ast.Call) and dotted(e.func) == 'list' and len(e.args) == 1:
            return _sym(e.args[0], depth)
        w = _wrapper_body(e)
        if w is not None and depth < 3:
            if w[1]:
                _memo.append((e, w[1]))
            return _sym(w[0], depth + 1)
        if isinstance(e, (ast.List, ast.Tuple)):
            out = []
            for x in e.elts:
                out += _sym(x.value, depth) if isinstance(x, ast.Starred) else [_elt(x)]
            return out
        if isinstance(e, ast.BinOp) and isinstance(e.op, ast.Add):
            return _sym(e.left, depth) + _sym(e.right, depth)
        if isinstance(e, ast.Name) and depth < 3:
            ds = [(v, st_) for v, k, st_ in bdefs.get(e.id, []) if k == 'assign']
            if len(ds) != 1:
                return ['?']
            seq = _sym(ds[0][0], depth + 1)
            for c_ in sorted([c_ for c_ in calls_in(bc, nested=False) if isinstance(c_.func, ast.Attribute) and dotted(c_.func.value) == e.id and
                              c_.func.attr in ('insert', 'append', 'extend', 'reverse', 'sort', 'remove', 'pop')], key=lambda c_: (c_.lineno, c_.col_offset)):
                if c_.func.attr == 'insert' and len(c_.args) == 2 and const_val(c_.args[0]) == 0:
                    seq = [_elt(c_.args[1])] + seq
                elif c_.func.attr == 'append' and c_.args:
                    seq = seq + [_elt(c_.args[0])]
                elif c_.func.attr == 'extend' and c_.args:
                    seq = seq + _sym(c_.args[0], depth + 1)
                else:
                    seq = ['?']
            return seq
        return ['?']
    seq = _sym(parg)
    # _load_config_files wraps anything that is not a LIST into a one-element list (meant for a single directory): a tuple of directories becomes one
    # entry, and only the first directory that has the file is read
    def _is_list_expr(e, depth=0):
        if isinstance(e, ast.List):
            return True
        if isinstance(e, ast.Tuple):
            return False
        if isinstance(e, ast.Call) and last_attr(e) == 'jupyter_config_path':
            return True
        if isinstance(e, ast.Call) and dotted(e.func) == 'list':
            return True
        if _wrapper_body(e) is not None and depth < 3:
            return _is_list_expr(_wrapper_body(e)[0], depth + 1)
        if isinstance(e, ast.BinOp) and isinstance(e.op, ast.Add):
            return _is_list_expr(e.left, depth) and _is_list_expr(e.right, depth)
        if isinstance(e, ast.Name) and depth < 3:
            ds = [v for v, k, st_ in bdefs.get(e.id, []) if k == 'assign']
            return len(ds) == 1 and _is_list_expr(ds[0], depth + 1)
        return False
    lf_ = repo.func(CFGM + ':_load_config_files')
    wraps_non_list = any(isinstance(c_, ast.Call) and dotted(c_.func) == 'isinstance' and len(c_.args) == 2 and dotted(c_.args[1]) == 'list' for c_ in ast.walk(lf_))
    if wraps_non_list and not _is_list_expr(parg):
        ctx.inst('R19.3', CFGM + ':build_config', 'search path expression %s' % ast.unparse(parg)[:60], False,
                 'the search path is not a list: _load_config_files wraps a non-list into [path], so the whole tuple goes to ONE loader, which reads only the first directory '
                 'that has nbdime_config.json -- lower-priority files are ignored instead of layered underneath', lcf[0])
    if _memo and isinstance(parg, ast.Name):
        muts = [c_ for c_ in calls_in(bc, nested=False) if isinstance(c_.func, ast.Attribute) and dotted(c_.func.value) == parg.id and
                c_.func.attr in ('insert', 'append', 'extend', 'reverse', 'sort', 'remove', 'pop', 'clear')]
        if muts:
            ctx.inst('R19.3', CFGM + ':build_config', 'search path from a memoised helper (%s)' % _memo[0][1], False,
                     '`%s` modifies the list object the memoised helper hands out: the helper returns the SAME list on every call, so every working directory a '
                     'configuration was ever resolved from stays on the search path for the rest of the process (a config file of a former cwd keeps supplying values)'
                     % repo.norm(muts[0]), muts[0])
    if 'JUP' not in seq:
        raise AnalysisError('build_config: jupyter_config_path() is no longer the search path')
    if '?' in seq:
        raise AnalysisError('build_config: the search path %s could not be resolved' % seq)
    ok = seq[0] == 'CWD'
    ctx.inst('R19.3', CFGM + ':build_config', 'search path = %s' % seq, ok,
             'the working directory is the highest-priority location' if ok else
             'the working directory does not take precedence: it is not the first entry of the search path (the files are merged from the last entry to the first, so the '
             'first entry wins)', lcf[0])
    lf = repo.func(CFGM + ':_load_config_files')
    floops = [n for n in walk_no_nested(lf) if isinstance(n, ast.For)]
    ok = len(floops) == 1 and isinstance(floops[0].iter, ast.Subscript) and isinstance(floops[0].iter.slice, ast.Slice) and \
        isinstance(floops[0].iter.slice.step, ast.UnaryOp) and const_val(floops[0].iter.slice.step.operand) == 1 and floops[0].iter.slice.lower is None
    ctx.inst('R19.3', CFGM + ':_load_config_files', repo.norm(floops[0].iter) if floops else '?', ok,
             'files are yielded lowest priority first, so later (higher priority) ones overwrite' if ok else
             'files are not merged from lowest to highest priority', floops[0] if floops else lf)
    # every directory on the path is loaded: the load is not skipped conditionally inside the loop
    if floops:
        from ..cfg import cond_guards as _cg
        loads = [c for c in calls_in(floops[0]) if isinstance(c.func, ast.Attribute) and c.func.attr == 'load_config']
        if not loads:
            raise AnalysisError('_load_config_files: load_config() call not found')
        gl = CFG(lf)
        inside = [(t, pol) for t, pol in _cg(gl, repo.stmt_of(loads[0])) if any(t is x for x in ast.walk(floops[0]))]
        ctx.inst('R19.3', CFGM + ':_load_config_files', repo.norm(loads[0]) + (' guarded by %s' % [repo.norm(t) for t, pol in inside] if inside else ' on every iteration'),
                 not inside, 'each directory of the search path is read, in path order' if not inside else
                 'a directory of the search path can be skipped inside the loop: with the reversed walk a skip-if-seen keeps the LOW-priority occurrence, so e.g. '
                 'the working directory loses its precedence when it is also a jupyter config directory', loads[0])
    dl = [l for l in loops if l not in mloops and any(isinstance(c, ast.Call) and last_attr(c) == '_load_config_files' for c in ast.walk(l.iter))]
    acc_names = {x.value.id for x in ast.walk(bc) if isinstance(x, ast.Subscript) and isinstance(x.value, ast.Name) and isinstance(x.slice, ast.Attribute) and x.slice.attr == '__name__'}
    acc_names |= _disk_names
    ok = len(dl) == 1 and any(('func', RU) in cg.resolve(c.func, bc) and dotted(c.args[0]) in acc_names for c in calls_in(dl[0]))
    ctx.inst('R19.3', CFGM + ':build_config', 'disk config = recursive_update over the files in yielded order', ok,
             'later files overwrite earlier ones key by key' if ok else 'file configs are not merged by recursive_update', dl[0] if dl else bc)
    ru = repo.func(CFGM + ':recursive_update')
    rec = [c for c in calls_in(ru) if ('func', RU) in cg.resolve(c.func, ru)]
    g = CFG(ru)
    ok = bool(rec) and any(isinstance(t, ast.Call) and dotted(t.func) == 'isinstance' and pol for c in rec for t, pol in
                           __import__('nbsa.cfg', fromlist=['cond_guards']).cond_guards(g, repo.stmt_of(c)))
    ctx.inst('R19.3', CFGM + ':recursive_update', 'dict values recurse', ok, 'nested dicts (Ignore) merge key by key' if ok else
             'nested dict values are replaced wholesale: Ignore mappings from several sections do not merge', ru)
    pops = [c for c in calls_in(ru) if isinstance(c.func, ast.Attribute) and c.func.attr == 'pop']
    ok = bool(pops)
    ctx.inst('R19.3', CFGM + ':recursive_update', 'None deletes unless include_none', ok, 'None removes the key' if ok else 'None no longer deletes', ru)

    # ---------------------------------------------------------------- R19.4
    pk = repo.func('nbdime.args:ConfigBackedParser.parse_known_args')
    g = CFG(pk)
    sd = [c for c in calls_in(pk, nested=False) if isinstance(c.func, ast.Attribute) and c.func.attr == 'set_defaults']
    sup = [c for c in calls_in(pk, nested=False) if isinstance(c.func, ast.Attribute) and c.func.attr == 'parse_known_args']
    rets = [n for n in walk_no_nested(pk) if isinstance(n, ast.Return)]
    ok = len(sd) == 1 and len(sup) == 1 and len(rets) == 1 and rets[0].value is sup[0] and \
        repo.stmt_of(sd[0]).lineno < rets[0].lineno
    # nothing writes the parsed namespace afterwards
    post = [n for n in walk_no_nested(pk) if isinstance(n, ast.Call) and dotted(n.func) == 'setattr']
    ctx.inst('R19.4', 'nbdime.args:ConfigBackedParser.parse_known_args', 'set_defaults(**defs) then return super().parse_known_args(...)', ok and not post,
             'configuration only provides defaults; explicit flags override them during parsing' if ok and not post else
             'configuration is applied after/over the parsed flags', pk)

    # ---------------------------------------------------------------- R19.5
    scripts = {}
    insec = False
    for line in repo.text('pyproject.toml').splitlines():
        if line.strip().startswith('['):
            insec = line.strip() == '[project.scripts]'
            continue
        if insec and '=' in line:
            k, v = line.split('=', 1)
            scripts[k.strip()] = v.strip().strip('"').strip("'")
    if len(scripts) < 10:
        raise AnalysisError('[project.scripts] parsed: %s' % sorted(scripts))
    handler_fns = set()
    for cid in repo.classes:
        if cg.is_handler_class(cid):
            for st in repo.classes[cid].body:
                if isinstance(st, FuncTypes):
                    handler_fns.add(repo.fid_of(st))
    seen_progs = set()
    for s, target in sorted(scripts.items()):
        if target not in repo.functions:
            ctx.inst('R19.5', 'pyproject.toml', '%s = %s' % (s, target), False, 'script target not found', None)
            continue
        reach = cg.reachable([target], stop=handler_fns)
        cons = []
        for f in sorted(reach):
            fn = repo.functions[f]
            for c in calls_in(fn, nested=False):
                if ('class', 'nbdime.args:ConfigBackedParser') in cg.resolve(c.func, fn):
                    prog = None
                    if c.args:
                        prog = const_val(c.args[0])
                    for kw in c.keywords:
                        if kw.arg == 'prog':
                            v = const_val(kw.value)
                            if isinstance(v, str):
                                prog = v
                            elif isinstance(kw.value, ast.Name):
                                # parameter: explicit only if some caller on the path passes a constant
                                prog = None
                    cons.append((f, c, prog if isinstance(prog, str) else None))
        exempt = s.startswith(EXEMPT_SCRIPT_PREFIXES)
        bad = []
        for f, c, prog in cons:
            eff = prog if prog is not None else s
            seen_progs.add(eff)
            if eff not in entry and not exempt and not (prog is not None and prog.startswith(EXEMPT_SCRIPT_PREFIXES)):
                bad.append((f, eff))
        if not cons:
            ctx.inst('R19.5', target, 'script %s builds no ConfigBackedParser' % s, True, 'no configuration involved', repo.functions[target], nontrivial=False)
            continue
        if bad:
            mods = sorted({f.split(':')[0] for f, e in bad})
            ctx.inst('R19.5', target, 'script %s reaches parsers built without prog in %s: program name %r is not a key of entrypoint_configurables' % (
                s, mods, bad[0][1]), False,
                'ConfigBackedParser looks its section up by the program name and silently skips configuration when it is unknown: '
                'configuration files are ignored for every command run through this script', repo.functions[target])
        else:
            ctx.inst('R19.5', target, 'script %s: %d parser(s), program names %s' % (s, len(cons), sorted({(p if p is not None else s) for f, c, p in cons})), True,
                     'exempt (documented as unconfigured)' if exempt else 'every parser finds its configurable', repo.functions[target])
    direct = set()
    for f, fn in repo.functions.items():
        for c in calls_in(fn, nested=False):
            if ('func', CFGM + ':build_config') in cg.resolve(c.func, fn) and c.args and isinstance(const_val(c.args[0]), str):
                direct.add(const_val(c.args[0]))
    for k in sorted(entry):
        ok = k in seen_progs or k in direct
        ctx.inst('R19.5', CFGM + ':entrypoint_configurables', 'key %r' % k, ok,
                 'is the program name of a parser / passed to build_config directly' if ok else
                 'no console script runs a parser under this program name: the %s section can never take effect' % entry[k].split(':')[1], ec)
    from ..signatures import call_compat
    call_compat(ctx, 'R19.6', ['nbdime.config', 'nbdime.args'] if ctx.tier == 'quick' else ['nbdime.'], 'option resolution aborts')
    from ..names import name_binding
    name_binding(ctx, 'R19.7', ['nbdime.config', 'nbdime.args'] if ctx.tier == 'quick' else ['nbdime.'])
    swallowed_value_errors(ctx, 'R19.8')
    redeclared_traits(ctx, 'R19.9')


from .extra import with_extra  # noqa: E402
run = with_extra('C19', run)
