"""C14 -- ignore options hide exactly the ignored categories and nothing else (table / wiring clauses)."""
import ast

from ..core import AnalysisError, dotted, walk_no_nested, FuncTypes
from ..cfg import CFG, cond_guards
from ..util import is_dynamic_differ_call, builder_names, tv_eval, calls_in, local_defs, depends_on, const_val, if_chain, names_in, param_names
from ..schema import NbSchema
from .. import facts

ASSUMPTIONS = [
    'nbformat v4.5 schema (installed nbformat, read as data) enumerates where each category\'s field can occur',
    'that the ignored diff still patches the non-ignored parts is C01; CLI positive/negative flag algebra beyond the argument wiring and config-file Ignore merging (C19) are not decided',
    'free-form places (metadata sub-keys, mime bundles) cannot hold category fields by schema',
]

NB = 'nbdime.diffing.notebooks'
CATEGORY_FIELD = {'sources': 'source', 'outputs': 'outputs', 'attachments': 'attachments', 'metadata': 'metadata',
                  'identifier': 'id', 'id': 'id', 'details': 'execution_count'}


def ignore_table(ctx):
    """From set_notebook_diff_targets: {path: (category param, kind, keys)}"""
    repo = ctx.repo
    fn = repo.func(NB + ':set_notebook_diff_targets')
    params = param_names(fn)
    dicts = [n for n in walk_no_nested(fn) if isinstance(n, ast.Dict) and len(n.keys) >= 5]
    if len(dicts) != 1:
        raise AnalysisError('set_notebook_diff_targets: category table dict not found')
    table = {}
    for k, v in zip(dicts[0].keys, dicts[0].values):
        path = const_val(k)
        if isinstance(v, ast.UnaryOp) and isinstance(v.op, ast.Not) and isinstance(v.operand, ast.Name) and v.operand.id in params:
            table[path] = (v.operand.id, 'whole', None, k)
        elif isinstance(v, ast.IfExp) and isinstance(v.test, ast.Name) and v.test.id in params and const_val(v.body) is False \
                and isinstance(v.orelse, (ast.Tuple, ast.List, ast.Set)):
            table[path] = (v.test.id, 'keys', tuple(const_val(e) for e in v.orelse.elts), k)
        else:
            table[path] = (None, 'unknown', None, k)
    return fn, params, table


def _run_base(ctx):
    repo, cg = ctx.repo, ctx.cg
    ctx.rule('R14.1', 'category table covers exactly the schema occurrences of each category\'s field; key-filtered names are schema leaves', floor=6)
    ctx.rule('R14.2', 'flags are wired to the parameters of the same name (positional agreement), and the flag set equals diff_ignorables', floor=2)
    ctx.rule('R14.3', 'sub-differs on the notebook path forward path and config whenever an ignorable path lies below them (or a wrong-path lookup could hit one)', floor=6)
    ctx.rule('R14.4', 'installation semantics: True -> ignore differ, False -> guarded delete, collection -> key filter around the current differ, else error', floor=5)

    fn, params, table = ignore_table(ctx)
    sch = NbSchema(5)
    fid = NB + ':set_notebook_diff_targets'
    by_cat = {}
    for path, (cat, kind, keys, node) in table.items():
        if cat is None:
            ctx.inst('R14.1', fid, '%r: %s' % (path, ast.unparse(node)), False, 'table entry is not of the form `not <category>` / `False if <category> else (keys)`', node)
            continue
        by_cat.setdefault(cat, []).append((path, kind, keys))
    for cat in params:
        field = CATEGORY_FIELD.get(cat)
        if field is None:
            ctx.inst('R14.1', fid, 'category %s' % cat, False, 'unknown category parameter', fn)
            continue
        want = sch.paths_of_property(field)
        ents = by_cat.get(cat, [])
        if cat != 'details':
            got = {p for p, kind, keys in ents if kind == 'whole'}
            ok = got == want and all(kind == 'whole' for p, kind, keys in ents)
            ctx.inst('R14.1', fid, 'category %s: table %s vs schema occurrences of %r %s' % (cat, sorted(got), field, sorted(want)), ok,
                     'every place the schema allows this field is ignored, and nothing else' if ok else
                     ('not ignored at: %s' % sorted(want - got) if want - got else 'ignores extra paths: %s' % sorted(got - want)), fn)
        else:
            got = {p + '/' + k for p, kind, keys in ents if kind == 'keys' for k in keys}
            ok = got == want
            # whole paths may belong to the details category too (the format version): only where the printer files them under details as well
            from .extra import ignore_gates_for
            for p_, kind_, keys_ in ents:
                if kind_ == 'whole':
                    g_ = ignore_gates_for(repo, p_)
                    ctx.inst('R14.1', fid, 'category details: whole path %s (printer hides it under %s)' % (p_, sorted(g_)), g_ == {'details'},
                             'the printer counts it as a detail too' if g_ == {'details'} else 'the differ ignores %s under details, the printer does not hide it under details' % p_, fn)
            leaf = all(sch.types_at(p) <= {'integer', 'null', 'number', 'string', 'boolean'} for p in got)
            ctx.inst('R14.1', fid, 'category details: key filters %s vs schema occurrences of execution_count %s' % (sorted(got), sorted(want)), ok and leaf,
                     'execution counts are filtered wherever the schema has them; filtered names are leaves' if ok and leaf else
                     ('missing/extra: %s / %s' % (sorted(want - got), sorted(got - want)) if not ok else 'a key-filtered name is not a leaf (filter does not recurse)'), fn)

    # ---------------------------------------------------------------- R14.2
    pf = repo.func('nbdime.args:process_diff_flags')
    calls = [c for c in calls_in(pf, nested=False) if ('func', fid) in cg.resolve(c.func, pf)]
    if len(calls) != 1:
        raise AnalysisError('process_diff_flags: set_notebook_diff_targets call not found')
    c = calls[0]
    pairs = []
    for i, a in enumerate(c.args):
        pairs.append((params[i] if i < len(params) else '?', dotted(a)))
    for k in c.keywords:
        pairs.append((k.arg, dotted(k.value)))
    bad = [(p, a) for p, a in pairs if not (a and a.startswith('args.') and CATEGORY_FIELD.get(a[5:]) == CATEGORY_FIELD.get(p))]
    ok = not bad and len(pairs) == len(params)
    ctx.inst('R14.2', 'nbdime.args:process_diff_flags', repo.norm(c), ok,
             'each flag reaches the parameter of its own category' if ok else 'flag/parameter mismatch: %s' % (bad or 'not all categories passed'), c)
    ign = repo.module_assign('nbdime.ignorables', 'diff_ignorables')
    names = {const_val(e) for e in ign.elts}
    ok = {CATEGORY_FIELD.get(n) for n in names} == {CATEGORY_FIELD[p] for p in params} and len(names) == len(params)
    ctx.inst('R14.2', 'nbdime.ignorables:diff_ignorables', '%s vs parameters %s' % (sorted(names), params), ok,
             'same category set' if ok else 'the ignorable list and the differ\'s categories differ', None)

    # ---------------------------------------------------------------- R14.3
    reach = cg.reachable([NB + ':diff_notebooks'])
    ign_paths = set(table)
    for f in sorted(reach):
        if not f.startswith('nbdime.diffing.'):
            continue
        fnode = repo.functions[f]
        ps = param_names(fnode)
        if 'config' not in ps:
            continue
        own_path = _own_path(fnode)
        for call in calls_in(fnode, nested=False):
            targets = [t[1] for t in cg.resolve(call.func, fnode) if t[0] == 'func']
            dyn = is_dynamic_differ_call(fnode, call)
            accepts = dyn or any('config' in param_names(repo.functions[t]) and t.startswith('nbdime.diffing.') and
                                 ('path' in param_names(repo.functions[t])) for t in targets)
            if not accepts:
                continue
            if any(isinstance(a, ast.Starred) for a in call.args) or any(k.arg is None for k in call.keywords):
                ctx.inst('R14.3', f, repo.norm(call), True, 'forwards *args/**kwargs unchanged', call, nontrivial=False)
                continue
            kw = {k.arg: k.value for k in call.keywords}
            cfg_ok = 'config' in kw and dotted(kw['config']) == 'config' or \
                (not dyn and targets and len(call.args) > param_names(repo.functions[targets[0]]).index('config'))
            path_ok = 'path' in kw or (not dyn and targets and len(call.args) > param_names(repo.functions[targets[0]]).index('path'))
            if cfg_ok and path_ok:
                ctx.inst('R14.3', f, repo.norm(call), True, 'path and config forwarded', call)
                continue
            # not (fully) forwarded: is there an ignorable below / a wrong-path hit?
            if own_path is None:
                # generic differ without a fixed path: differs without config parameter use are string leaf diffs
                leaf = _string_leaf_call(repo, cg, fnode, call)
                ctx.inst('R14.3', f, repo.norm(call), leaf, 'string leaf diff (no sub-paths)' if leaf else
                         'generic differ drops %s' % ('config' if not cfg_ok else 'path'), call)
                continue
            alts = _applicable_alternatives(sch, own_path, fnode, call, repo)
            keys = set()
            for a in alts:
                keys |= set(a.get('properties', {}))
            below = sorted(p for p in ign_paths if p.startswith(own_path + '/') and
                           (p[len(own_path) + 1:].split('/')[0] in keys))
            self_keys = sorted(k for p, (cat, kind, ks, nd) in table.items() if p == own_path and kind == 'keys' for k in ks)
            wrong = sorted('/' + k for k in keys if ('/' + k) in ign_paths) if (cfg_ok and not path_ok) else []
            ok = not below and not wrong if not cfg_ok or not path_ok else True
            what = 'config' if not cfg_ok else 'path'
            ctx.inst('R14.3', f, repo.norm(call) + '  [at %s, keys %s]' % (own_path, sorted(keys)), ok,
                     ('drops %s, but no ignorable path lies below this node for the output types of this branch' % what) if ok else
                     ('drops %s although %s lie(s) below: the ignore configured there is bypassed' % (what, below) if below else
                      'drops path: lookups happen at %s, which are ignorable paths of another level' % wrong), call)

    # ---------------------------------------------------------------- R14.4
    si = repo.func(NB + ':set_notebook_diff_ignores')
    loops = [n for n in walk_no_nested(si) if isinstance(n, ast.For)]
    chain = [s for s in loops[0].body if isinstance(s, ast.If)][0] if loops else None
    if chain is None:
        raise AnalysisError('set_notebook_diff_ignores: dispatch chain not found')
    arms, orelse = if_chain(chain)
    seen = {}
    for test, body, node in arms:
        if isinstance(test, ast.Compare) and isinstance(test.ops[0], ast.Is) and const_val(test.comparators[0]) is True:
            st = [s for s in body if isinstance(s, ast.Assign)]
            ok = bool(st) and dotted(st[0].value) == 'diff_ignore' and isinstance(st[0].targets[0], ast.Subscript) and dotted(st[0].targets[0].value) == 'notebook_differs'
            seen['True'] = True
            ctx.inst('R14.4', NB + ':set_notebook_diff_ignores', 'True -> %s' % (repo.norm(st[0]) if st else '?'), ok,
                     'whole path ignored by the always-empty differ' if ok else 'True does not install the ignore differ', node)
        elif isinstance(test, ast.Compare) and isinstance(test.ops[0], ast.Is) and const_val(test.comparators[0]) is False:
            dels = [s for s in ast.walk(node) if isinstance(s, ast.Delete)]
            g = CFG(si)
            ok = bool(dels) and all(any(pol and isinstance(t, ast.Compare) and isinstance(t.ops[0], ast.In) for t, pol in cond_guards(g, d)) for d in dels)
            seen['False'] = True
            ctx.inst('R14.4', NB + ':set_notebook_diff_ignores', 'False -> guarded delete', ok,
                     'resets the path to its default differ' if ok else 'False does not (safely) reset the path', node)
        elif isinstance(test, ast.Call) and dotted(test.func) == 'isinstance':
            # the store into the table: a key filter around (something derived from) the differ currently installed, with (at least) the keys given
            sdefs = local_defs(si)
            st = [s for s in body if isinstance(s, ast.Assign) and isinstance(s.targets[0], ast.Subscript) and dotted(s.targets[0].value) == 'notebook_differs']
            subk = loops[0].target.elts[1].id if isinstance(loops[0].target, ast.Tuple) and len(loops[0].target.elts) == 2 and isinstance(loops[0].target.elts[1], ast.Name) else None
            if st and isinstance(st[0].value, ast.Call) and ('func', NB + ':diff_ignore_keys') not in cg.resolve(st[0].value.func, si):
                raise AnalysisError('set_notebook_diff_ignores: the stored differ is not built by %s:diff_ignore_keys (constructor not recognised)' % NB)
            ok = bool(st) and isinstance(st[0].value, ast.Call) and ('func', NB + ':diff_ignore_keys') in cg.resolve(st[0].value.func, si) and len(st[0].value.args) >= 2 and \
                depends_on(si, st[0].value.args[0], lambda x: isinstance(x, ast.Subscript) and dotted(x.value) == 'notebook_differs', sdefs) is not None and \
                (subk is None or depends_on(si, st[0].value.args[1], lambda x: isinstance(x, ast.Name) and x.id == subk, sdefs) is not None)
            seen['coll'] = True
            ctx.inst('R14.4', NB + ':set_notebook_diff_ignores', 'collection -> %s' % (repo.norm(st[0]) if st else '?'), ok,
                     'key filter wraps the differ currently installed for the path' if ok else 'key filter does not wrap the current differ', node)
            # a key filter that is unwrapped (so that filters do not nest) must hand its keys on: otherwise only the last list installed survives
            unwraps = [x for b_ in body for x in ast.walk(b_) if isinstance(x, ast.Attribute) and x.attr == 'inner_differ']
            if unwraps and st:
                keeps = depends_on(si, st[0].value.args[1], lambda x: isinstance(x, ast.Attribute) and x.attr == 'ignore_keys', sdefs) is not None
                ctx.inst('R14.4', NB + ':set_notebook_diff_ignores', 'unwrapped key filter: its keys %s' % ('are merged into the new filter' if keeps else 'are dropped'), keeps,
                         'key lists installed for one path by different sources stack' if keeps else
                         'an existing key filter is unwrapped but its keys are not carried over: the details category (execution_count) and a list-valued Ignore entry for the same '
                         'path no longer combine -- whichever was installed first shows up again', unwraps[0])
    ok = len(seen) == 3 and bool(orelse) and isinstance(orelse[-1], ast.Raise)
    ctx.inst('R14.4', NB + ':set_notebook_diff_ignores', 'arms %s + else raise' % sorted(seen), ok,
             'three value kinds handled, anything else rejected' if ok else 'an ignore value kind is unhandled or silently accepted', chain)
    di = repo.func(NB + ':diff_ignore')
    rets = [n for n in walk_no_nested(di) if isinstance(n, ast.Return)]
    ok = len(rets) == 1 and isinstance(rets[0].value, ast.List) and not rets[0].value.elts
    ctx.inst('R14.4', NB + ':diff_ignore', repo.norm(rets[0]) if rets else '?', ok, 'fresh empty diff' if ok else 'ignore differ does not return a fresh []', di)
    ik = repo.func(NB + ':diff_ignore_keys.ignored_diff')
    tests = [n for n in ast.walk(ik) if isinstance(n, ast.Compare) and isinstance(n.ops[0], ast.NotIn)]
    ok = len(tests) == 1 and dotted(tests[0].comparators[0]) == 'ignore_keys' and dotted(tests[0].left) and dotted(tests[0].left).endswith('.key')
    ctx.inst('R14.4', NB + ':diff_ignore_keys.ignored_diff', repo.norm(tests[0]) if tests else '?', ok,
             'drops exactly the entries whose key is listed' if ok else 'key filter condition changed', ik)


def key_filters_stack(ctx, rule):
    """diff_ignore_keys(inner, keys) must filter what *its argument* produces: key lists installed for one path by
    different sources (the `details` category, an Ignore mapping) then stack, each hiding its own keys."""
    repo = ctx.repo
    outer = repo.func(NB + ':diff_ignore_keys')
    inner = repo.func(NB + ':diff_ignore_keys.ignored_diff')
    prm = outer.args.args[0].arg
    kprm = outer.args.args[1].arg
    rebinds = [(v, k, st) for v, k, st in local_defs(outer).get(prm, [])]
    calls = [c for c in calls_in(inner) if isinstance(c.func, ast.Name) and c.func.id == prm]
    ok = not rebinds and len(calls) >= 1
    ctx.inst(rule, NB + ':diff_ignore_keys', 'wrapped differ: parameter %s, %d rebinding(s), called %d time(s) by the filter' % (prm, len(rebinds), len(calls)), ok,
             'the filter calls the differ it was given' if ok else
             ('the wrapped differ is replaced before it is called (%s): a key filter installed earlier for the same path is unwrapped and its keys show up again'
              % ast.unparse(rebinds[0][0])[:70] if rebinds else 'the filter no longer calls the wrapped differ'),
             rebinds[0][2] if rebinds and isinstance(rebinds[0][2], ast.AST) else outer)
    krebinds = local_defs(outer).get(kprm, []) + local_defs(inner).get(kprm, [])
    ctx.inst(rule, NB + ':diff_ignore_keys', 'key list: parameter %s, %d rebinding(s)' % (kprm, len(krebinds)), not krebinds,
             'filters exactly the keys it was given' if not krebinds else 'the key list is altered before filtering', outer)


def _own_path(fn):
    """Fixed path of a node-specific differ: from `assert path == "<lit>"` or the default of `path`."""
    for n in walk_no_nested(fn):
        if isinstance(n, ast.Assert) and isinstance(n.test, ast.Compare) and dotted(n.test.left) == 'path' and \
                isinstance(const_val(n.test.comparators[0]), str):
            return const_val(n.test.comparators[0])
    return None


def _string_leaf_call(repo, cg, fn, call):
    ts = [t for t in cg.resolve(call.func, fn) if t[0] == 'func']
    return bool(ts) and all(t[1].endswith(':diff_strings_linewise') or t[1].endswith(':diff_strings_by_char') or t[1].endswith('diff_sequence')
                            for t in ts)


def _applicable_alternatives(sch, own_path, fn, call, repo):
    """Schema alternatives at own_path consistent with `<x>.output_type in (...)` guards of the call."""
    alts = [a for a in sch.at(own_path) if isinstance(a, dict)]
    g = CFG(fn)
    st = repo.stmt_of(call)
    for t, pol in cond_guards(g, st):
        while isinstance(t, ast.UnaryOp) and isinstance(t.op, ast.Not):
            t, pol = t.operand, not pol
        if isinstance(t, ast.Compare) and len(t.ops) == 1 and isinstance(t.ops[0], (ast.Eq, ast.NotEq)) and isinstance(t.left, ast.Attribute) and \
                isinstance(t.comparators[0], ast.Constant):
            t = ast.Compare(left=t.left, ops=[ast.In() if isinstance(t.ops[0], ast.Eq) else ast.NotIn()], comparators=[ast.Tuple(elts=[t.comparators[0]], ctx=ast.Load())])
        if isinstance(t, ast.Compare) and len(t.ops) == 1 and isinstance(t.ops[0], (ast.In, ast.NotIn)) and isinstance(t.left, ast.Attribute) and \
                isinstance(t.comparators[0], (ast.Tuple, ast.List, ast.Set)):
            if isinstance(t.ops[0], ast.NotIn):
                pol = not pol
            field = t.left.attr
            vals = {const_val(e) for e in t.comparators[0].elts}
            keep = []
            for a in alts:
                en = a.get('properties', {}).get(field, {}).get('enum')
                if en is None:
                    keep.append(a)
                elif (set(en) & vals and pol) or (not (set(en) <= vals) and not pol):
                    keep.append(a)
            alts = keep
    return alts


def _tv_and(vals):
    if any(v is False for v in vals):
        return False
    return True if all(v is True for v in vals) else None


def _tv_or(vals):
    if any(v is True for v in vals):
        return True
    return False if all(v is False for v in vals) else None


def swallowed_value_errors(ctx, rule):
    """ConfigBackedParser.parse_known_args wraps the whole "read configuration, install it as defaults" step in
    `except ValueError: pass` (meant for: this program has no configuration section).  Any OTHER ValueError raised on that
    path makes the parser silently run with no configuration at all -- flags from config files, including the Ignore
    mapping and the ignorable categories, are dropped without a message."""
    import ast as _ast
    from ..util import calls_in as _calls
    repo, cg = ctx.repo, ctx.cg
    pk = repo.func('nbdime.args:ConfigBackedParser.parse_known_args')
    tries = [n for n in _ast.walk(pk) if isinstance(n, _ast.Try) and any(h.type is not None and 'ValueError' in _ast.unparse(h.type) and
                                                                          all(isinstance(b, _ast.Pass) for b in h.body) for h in n.handlers)]
    if not tries:
        ctx.inst(rule, 'nbdime.args:ConfigBackedParser.parse_known_args', 'no `except ValueError: pass` around the configuration step', True,
                 'errors while building the configuration are not swallowed', pk, nontrivial=False)
        return
    roots = set()
    for st in tries[0].body:
        for c in _calls(st):
            for t in cg.resolve(c.func, pk):
                if t[0] == 'func':
                    roots.add(t[1])
    reach = cg.reachable(sorted(roots))
    ALLOWED = {
        'nbdime.config:build_config': 'entrypoint',      # unknown program name: the documented reason for the swallow
        'nbdime.diffing.notebooks:set_notebook_diff_ignores': None,   # runs after the defaults were installed
    }
    n = 0
    for fid in sorted(reach):
        if not fid.startswith(('nbdime.config', 'nbdime.args', 'nbdime.diffing.notebooks')):
            continue
        fn = repo.functions[fid]
        for r in walk_no_nested(fn):
            if isinstance(r, _ast.Raise) and r.exc is not None and 'ValueError' in _ast.unparse(r.exc)[:30]:
                n += 1
                ok = fid in ALLOWED and (ALLOWED[fid] is None or
                                         any(pol and ALLOWED[fid] in _ast.unparse(t) for t, pol in cond_guards(CFG(fn), r)))
                ctx.inst(rule, fid, repo.norm(r)[:110], ok,
                         'the documented reason for the swallow / raised after the defaults were installed' if ok else
                         'this ValueError is raised while the configuration is read and is swallowed by `except ValueError: pass` in '
                         'ConfigBackedParser.parse_known_args: the whole configuration (incl. Ignore and the ignorable categories) is silently dropped', r)
    if n == 0:
        raise AnalysisError('no ValueError raise found on the configuration path (anchor moved)')

def run(ctx):
    """R14.5: an ignore installed for a whole path is *consulted*.

    set_notebook_diff_ignores stores `diff_ignore` under the path in the differ table; that only hides the category if the
    differ of the parent object looks the table up for that key.  diff_dicts does so under a guard; the guard is evaluated
    here, three-valued, for every whole-path entry of the category table with: the JSON types nbformat's schema admits at
    the path, the `atomic_paths` literal of notebook_config, and the fallback of DiffConfig.is_atomic."""
    ctx.rule('R14.9', 'alignment predicates are reflexive: under y := x no `return False` is reachable before the equality shortcut (symbolic folding of each compare_* function)', floor=12)
    ctx.rule('R14.8', 'no ValueError other than "unknown program name" can be raised while the configuration is read: the parser swallows ValueError and would silently run unconfigured', floor=1)
    ctx.rule('R14.7', 'in diff_dicts no entry for a key present on both sides is emitted past the differ table: every builder call in the common-key loop is '
             'either the result of the table lookup or lies on the branch where the lookup guard is false (atomic / type change)', floor=2)
    ctx.rule('R14.6', 'key filters stack: diff_ignore_keys filters the output of the very differ it was given, with the key list it was given', floor=2)
    ctx.rule('R14.5', 'every path a category is ignored at as a whole is looked up in the differ table by its parent differ, '
             'for every JSON type the schema admits there (atomic paths included)', floor=6)
    _run_base(ctx)
    key_filters_stack(ctx, 'R14.6')
    repo = ctx.repo
    fn, params, table = ignore_table(ctx)
    sch = NbSchema(5)
    # atomic_paths literal of notebook_config
    nc = repo.module_assign(NB, 'notebook_config')
    atomic = {}
    if isinstance(nc, ast.Call):
        for k in nc.keywords:
            if k.arg == 'atomic_paths' and isinstance(k.value, ast.Dict):
                atomic = {const_val(a): const_val(b) for a, b in zip(k.value.keys, k.value.values)}
    # fallback of is_atomic
    ia = repo.func('nbdime.diffing.config:DiffConfig.is_atomic')
    nonatomic_types = set()
    for c in calls_in(ia):
        if isinstance(c.func, ast.Name) and c.func.id == 'isinstance' and len(c.args) == 2 and isinstance(c.args[1], ast.Tuple):
            nonatomic_types = {ast.unparse(e) for e in c.args[1].elts}
    if not nonatomic_types:
        raise AnalysisError('DiffConfig.is_atomic: isinstance fallback not found')
    json_of = {'str': 'string', 'list': 'array', 'dict': 'object'}
    nonatomic_json = {json_of[t] for t in nonatomic_types if t in json_of}
    GEN = 'nbdime.diffing.generic'
    dd = repo.func(GEN + ':diff_dicts')
    g = CFG(dd)
    lookups = [n for n in walk_no_nested(dd) if isinstance(n, ast.Subscript) and isinstance(n.ctx, ast.Load) and
               isinstance(n.value, ast.Attribute) and n.value.attr == 'differs']
    if not lookups:
        raise AnalysisError('diff_dicts: lookup of config.differs[...] not found')
    st = repo.stmt_of(lookups[0])
    guards = cond_guards(g, st)

    ddefs = local_defs(dd)

    def ev(e, is_atomic):
        def leaf(x):
            if isinstance(x, ast.Call) and isinstance(x.func, ast.Attribute) and x.func.attr == 'is_atomic':
                return is_atomic
            if isinstance(x, ast.Compare) and len(x.ops) == 1:
                l, r = ast.unparse(x.left), ast.unparse(x.comparators[0])
                if isinstance(x.ops[0], (ast.Is, ast.Eq)) and l.startswith('type(') and r.startswith('type('):
                    return True         # both sides hold the same schema type at this path
                if isinstance(x.ops[0], ast.In) and r.endswith('.differs'):
                    return True         # the ignore has been installed for this path
                if isinstance(x.ops[0], ast.NotIn) and r.endswith('.differs'):
                    return False
            return None
        return tv_eval(e, leaf, ddefs)
    for path, (cat, kind, keys, node) in sorted(table.items()):
        if kind != 'whole':
            continue
        types = sorted(t for t in sch.types_at(path) if t != 'null') or ['?']
        for t in types:
            is_atomic = atomic[path] if path in atomic else (t not in nonatomic_json)
            verdicts = [ev(test, is_atomic) if pol else (lambda v: None if v is None else (not v))(ev(test, is_atomic)) for test, pol in guards]
            ok = not any(v is False for v in verdicts) and any(v is True for v in verdicts)
            ctx.inst('R14.5', GEN + ':diff_dicts', 'ignore at %s (category %s, schema type %s, atomic=%s)' % (path, cat, t, is_atomic), ok,
                     'the differ table is consulted for this key: the installed ignore takes effect' if ok else
                     'values at %s are atomic for the differ (%s), so diff_dicts never looks the path up in the differ table: ignoring %s has no effect '
                     'and two notebooks differing only there still produce a diff' % (
                         path, 'atomic_paths entry' if path in atomic else 'type %s' % t, cat), st)

    # ---------------------------------------------------------------- R14.7
    loop = None
    for n in walk_no_nested(dd):
        if isinstance(n, ast.For) and any(x is lookups[0] for x in ast.walk(n)):
            loop = n
    if loop is None:
        raise AnalysisError('diff_dicts: loop holding the differ-table lookup not found')
    lookup_if = None
    p_ = repo.parent(st)
    while p_ is not None and p_ is not loop:
        if isinstance(p_, ast.If) and any(x is st for b in p_.body for x in ast.walk(b)):
            lookup_if = p_
        p_ = repo.parent(p_)
    if lookup_if is None:
        raise AnalysisError('diff_dicts: the differ-table lookup is not under a guard')
    emits = [c for c in calls_in(loop) if isinstance(c.func, ast.Attribute) and dotted(c.func.value) in builder_names(dd) and
             c.func.attr in ('replace', 'patch', 'add', 'remove', 'append')]
    if not emits:
        raise AnalysisError('diff_dicts: no builder calls in the common-key loop')
    for c in emits:
        cst = repo.stmt_of(c)
        in_lookup_branch = any(x is cst for b in lookup_if.body for x in ast.walk(b))
        gds = list(cond_guards(g, cst))
        on_negative_branch = any(t is lookup_if.test and pol is False for t, pol in gds)
        # values the lookup guard rejects (atomic, or of a different type on the two sides: null -> 2) can still lie on an ignored path:
        # a separate test of the table must have excluded that
        def _asks_ignore(t):
            for x in ast.walk(t):
                if isinstance(x, ast.Call):
                    for tt in ctx.cg.resolve(x.func, dd):
                        if tt[0] == 'func' and tt[1] in repo.functions and any(isinstance(y, ast.Attribute) and y.attr == 'differs' for y in ast.walk(repo.functions[tt[1]])):
                            return True
            return False
        ignore_excluded = any(t is not lookup_if.test and pol is False and _asks_ignore(t) for t, pol in gds)
        ok = in_lookup_branch or (on_negative_branch and ignore_excluded)
        if on_negative_branch and not ignore_excluded and not in_lookup_branch:
            ctx.inst('R14.7', GEN + ':diff_dicts', repo.norm(c), False,
                     'this entry is emitted for values the lookup guard rejects (atomic, or of different types on the two sides) without asking whether the path is ignored: '
                     'with {"Ignore": {"/cells/*/execution_count": true}} a change 1 -> 2 is hidden but null -> 2 (unexecuted -> executed) is reported; metadata that is a dict '
                     'on one side and a NotebookNode on the other is reported as replaced under --ignore-metadata', c)
            continue
        ctx.inst('R14.7', GEN + ':diff_dicts', repo.norm(c), ok,
                 'emitted from the configured differ\'s result' if in_lookup_branch else
                 ('emitted only for values the lookup guard rejects (atomic or of changed type) and the path is not ignored' if ok else
                  'this entry is emitted for a key present on both sides without consulting the differ table: an ignore installed for the path '
                  '(e.g. /cells/*/source) is bypassed for the inputs this shortcut catches'), c)
    swallowed_value_errors(ctx, 'R14.8')
    from ..reflexive import check_reflexive
    check_reflexive(ctx, 'R14.9')


from .extra import with_extra  # noqa: E402
run = with_extra('C14', run)
