"""Rules added after the per-property modules were written (session 4: defects hunted on the unchanged tree).

Each entry: property -> [(rule id, rule text, instance floor, function(ctx, rule id))].  `with_extra` wraps a module's
`run` so that every consumer (check, self-test, run_sub) sees the extra rules as part of the property.
"""
import ast

from ..core import AnalysisError, dotted, walk_no_nested
from ..util import const_val, calls_in, builder_names

EXTRA = {}


def extra(prop, rule, text, floor=1):
    def deco(fn):
        EXTRA.setdefault(prop, []).append((rule, text, floor, fn))
        return fn
    return deco


def with_extra(prop, run):
    def wrapped(ctx):
        for rule, text, floor, fn in EXTRA.get(prop, []):
            ctx.rule(rule, text, floor=floor)
        # an AnalysisError of one rule (anchor moved, idiom not modelled) must not hide what the OTHER rules of the property prove: it is deferred; finish()
        # turns it into exit 2 unless some rule reports a new violation (a proven violation stands whatever else could not be evaluated)
        if not hasattr(ctx, 'deferred'):
            ctx.deferred = []
        try:
            run(ctx)
        except AnalysisError as e:
            ctx.deferred.append((prop + ' base rules', str(e)))
        for rule, text, floor, fn in EXTRA.get(prop, []):
            try:
                fn(ctx, rule)
            except AnalysisError as e:
                ctx.deferred.append((rule, str(e)))
    wrapped.__wrapped__ = run
    return wrapped


# ------------------------------------------------------------------------------------------------ mime values
_MIME_TEXT = ('the mime-value differ, evaluated over every (mimetype class, JSON kind, JSON kind, equal?) the nbformat schema admits, '
              'sends only two strs / two lists / two dicts to the recursive differ and never drops a difference')


def _mime(ctx, rule):
    from ..mimekinds import check_add_mime_diff
    check_add_mime_diff(ctx, rule)


extra('C01', 'R01.12', _MIME_TEXT, 4)(_mime)
extra('C02', 'R02.12', _MIME_TEXT, 4)(_mime)
extra('C14', 'R14.10', _MIME_TEXT, 4)(_mime)


# ------------------------------------------------------------------------------------------------ renderer fallback
@extra('C14', 'R14.11', 'the cell renderer\'s "anything not special-cased" fallback excludes every field the function prints through a branch gated by an '
       'ignore option (a field missing from the exclude set is printed whatever the option says)', 5)
@extra('C16', 'R16.13', 'the cell renderer\'s "anything not special-cased" fallback excludes every field the function prints through a branch gated by an '
       'ignore option (a field missing from the exclude set is printed twice, and printed whatever the option says)', 5)
def fallback_excludes_gated_fields(ctx, rule):
    repo = ctx.repo
    PP = 'nbdime.prettyprint'
    fn = repo.func(PP + ':pretty_print_cell')
    cellp = fn.args.args[1].arg
    got = {}
    for n in walk_no_nested(fn):
        if isinstance(n, ast.Assign) and len(n.targets) == 1 and isinstance(n.targets[0], ast.Name) and isinstance(n.value, ast.Call) and \
                isinstance(n.value.func, ast.Attribute) and n.value.func.attr == 'get' and isinstance(n.value.func.value, ast.Name) and \
                n.value.func.value.id == cellp and n.value.args and isinstance(const_val(n.value.args[0]), str):
            got[n.targets[0].id] = const_val(n.value.args[0])
    gated = {}
    for n in walk_no_nested(fn):
        if isinstance(n, ast.If):
            names = {x.id for x in ast.walk(n.test) if isinstance(x, ast.Name)}
            cfg = [x.attr for x in ast.walk(n.test) if isinstance(x, ast.Attribute) and isinstance(x.value, ast.Name) and x.value.id == 'config']
            for nm in names & set(got):
                if cfg:
                    gated[got[nm]] = (cfg[0], n)
    excl = None
    for n in walk_no_nested(fn):
        if isinstance(n, ast.Assign) and isinstance(n.value, ast.Set) and all(isinstance(const_val(e), str) for e in n.value.elts):
            excl = ({const_val(e) for e in n.value.elts}, n)
    if excl is None or not gated:
        raise AnalysisError('pretty_print_cell: gated field branches / exclude set literal not found')
    for field, (cfg, node) in sorted(gated.items()):
        ok = field in excl[0]
        ctx.inst(rule, PP + ':pretty_print_cell', 'field %r (gated by config.%s)' % (field, cfg), ok,
                 'excluded from the fallback' if ok else
                 'field %r is not in the fallback\'s exclude set %s: it is printed by the fallback as well, also when config.%s is off' % (field, sorted(excl[0]), cfg), excl[1])


# ------------------------------------------------------------------------------------------------ renderer gates agree with the path filter
def ignore_gates_for(repo, starred):
    """Evaluate PrettyPrintConfig.should_ignore_path for one concrete starred path: the set of self.<attr> its verdict reads."""
    fn = repo.func('nbdime.prettyprint:PrettyPrintConfig.should_ignore_path')
    var = None
    for st in fn.body:
        if isinstance(st, ast.Assign) and isinstance(st.targets[0], ast.Name) and isinstance(st.value, ast.Call) and dotted(st.value.func) == 'star_path':
            var = st.targets[0].id
    if var is None:
        raise AnalysisError('should_ignore_path: starred path variable not found')

    def test(e):
        if isinstance(e, ast.BoolOp):
            vs = [test(v) for v in e.values]
            return all(vs) if isinstance(e.op, ast.And) else any(vs)
        if isinstance(e, ast.Call) and isinstance(e.func, ast.Attribute) and e.func.attr == 'startswith' and isinstance(e.func.value, ast.Name) and \
                e.func.value.id == var and isinstance(const_val(e.args[0]), str):
            return starred.startswith(const_val(e.args[0]))
        if isinstance(e, ast.Call) and isinstance(e.func, ast.Attribute) and e.func.attr == 'startswith' and isinstance(e.func.value, ast.Name) and \
                e.func.value.id == var and isinstance(e.args[0], (ast.Tuple, ast.List)) and all(isinstance(const_val(x), str) for x in e.args[0].elts):
            return starred.startswith(tuple(const_val(x) for x in e.args[0].elts))
        if isinstance(e, ast.Compare) and isinstance(e.left, ast.Name) and e.left.id == var and isinstance(e.ops[0], ast.Eq) and \
                isinstance(const_val(e.comparators[0]), str):
            return starred == const_val(e.comparators[0])
        raise AnalysisError('should_ignore_path: test `%s` not modelled' % ast.unparse(e))

    def attrs(e):
        out = set()
        if isinstance(e, ast.BoolOp):
            # (starred == '...' and not self.details): keep the conjunct only when its path test holds
            if isinstance(e.op, ast.And):
                path_tests = [v for v in e.values if any(isinstance(x, ast.Name) and x.id == var for x in ast.walk(v))]
                if all(test(v) for v in path_tests):
                    for v in e.values:
                        if v not in path_tests:
                            out |= attrs(v)
                return out
            for v in e.values:
                out |= attrs(v)
            return out
        for x in ast.walk(e):
            if isinstance(x, ast.Attribute) and isinstance(x.value, ast.Name) and x.value.id == 'self':
                out.add(x.attr)
        return out
    for st in fn.body:
        if isinstance(st, ast.If) and not st.orelse and len(st.body) == 1 and isinstance(st.body[0], ast.Return):
            if test(st.test):
                return attrs(st.body[0].value)
        elif isinstance(st, ast.Return):
            return attrs(st.value)
        elif isinstance(st, ast.For) and any(isinstance(x, ast.Return) for x in ast.walk(st)):
            # table-driven form:  for prefixes, option in <TABLE>: if starred.startswith(prefixes): return not getattr(self, option)
            tbl = repo.module_assign('nbdime.prettyprint', st.iter.id) if isinstance(st.iter, ast.Name) else st.iter
            ok_shape = isinstance(tbl, (ast.Tuple, ast.List)) and isinstance(st.target, ast.Tuple) and len(st.target.elts) == 2 and len(st.body) == 1 and \
                isinstance(st.body[0], ast.If) and len(st.body[0].body) == 1 and isinstance(st.body[0].body[0], ast.Return)
            if not ok_shape:
                raise AnalysisError('should_ignore_path: loop form not modelled')
            pv, ov = (e.id for e in st.target.elts)
            ret = st.body[0].body[0].value
            ga = [c for c in ast.walk(ret) if isinstance(c, ast.Call) and dotted(c.func) == 'getattr' and len(c.args) == 2 and dotted(c.args[1]) == ov]
            t_ = st.body[0].test
            if not (ga and isinstance(t_, ast.Call) and isinstance(t_.func, ast.Attribute) and t_.func.attr == 'startswith' and dotted(t_.args[0]) == pv):
                raise AnalysisError('should_ignore_path: loop body not modelled')
            for row in tbl.elts:
                prefixes, option = row.elts
                pf = tuple(const_val(x) for x in prefixes.elts) if isinstance(prefixes, (ast.Tuple, ast.List)) else const_val(prefixes)
                if starred.startswith(pf):
                    return {const_val(option)}
        elif any(isinstance(x, ast.Return) for x in ast.walk(st)):
            raise AnalysisError('should_ignore_path: statement `%s` not modelled' % ast.unparse(st)[:50])
    return set()


@extra('C14', 'R14.12', 'the cell renderer gates each field by an option that the renderer\'s own path filter (should_ignore_path) consults for that field\'s path', 5)
def renderer_gates_agree(ctx, rule):
    repo = ctx.repo
    PP = 'nbdime.prettyprint'
    fn = repo.func(PP + ':pretty_print_cell')
    cellp = fn.args.args[1].arg
    got = {}
    for n in walk_no_nested(fn):
        if isinstance(n, ast.Assign) and len(n.targets) == 1 and isinstance(n.targets[0], ast.Name) and isinstance(n.value, ast.Call) and \
                isinstance(n.value.func, ast.Attribute) and n.value.func.attr == 'get' and isinstance(n.value.func.value, ast.Name) and \
                n.value.func.value.id == cellp and n.value.args and isinstance(const_val(n.value.args[0]), str):
            got[n.targets[0].id] = const_val(n.value.args[0])
    k = 0
    for n in walk_no_nested(fn):
        if not isinstance(n, ast.If):
            continue
        names = {x.id for x in ast.walk(n.test) if isinstance(x, ast.Name)}
        cfg = [x.attr for x in ast.walk(n.test) if isinstance(x, ast.Attribute) and isinstance(x.value, ast.Name) and x.value.id == 'config']
        for nm in sorted(names & set(got)):
            field = got[nm]
            gates = ignore_gates_for(repo, '/cells/*/' + field)
            ok = bool(cfg) and set(cfg) <= gates
            k += 1
            ctx.inst(rule, PP + ':pretty_print_cell', 'field %r printed under config.%s; path filter reads %s' % (field, '/'.join(cfg) or '<nothing>', sorted(gates)), ok,
                     'same option' if ok else 'a cell that is rendered whole (inserted, deleted, nbshow) shows/hides %r by option %s, while changes inside it are shown/hidden by %s: '
                     'ignoring %s does not hide it, ignoring %s hides it although it is not ignored' % (field, cfg, sorted(gates), sorted(gates), cfg), n)
    if not k:
        raise AnalysisError('pretty_print_cell: no gated field found')


# ------------------------------------------------------------------------------------------------ optional fields of ignored categories
@extra('C14', 'R14.13', 'a field that is ignored as a whole but optional in the schema (present in one notebook, absent in the other) is also hidden when it is '
       'added/removed: diff_dicts consults the differ table before emitting a one-sided key, or the parent path carries a key filter naming the field', 2)
def one_sided_keys_of_ignored_paths(ctx, rule):
    from ..cfg import CFG, cond_guards
    from ..schema import NbSchema
    from . import c14
    repo, cg = ctx.repo, ctx.cg
    GEN = 'nbdime.diffing.generic'
    dd = repo.func(GEN + ':diff_dicts')
    g = CFG(dd)

    def reads_table(e, depth=0):
        for x in ast.walk(e):
            if isinstance(x, ast.Attribute) and x.attr == 'differs':
                return True
            if isinstance(x, ast.Call) and depth < 2:
                for t in cg.resolve(x.func, dd):
                    if t[0] == 'func' and t[1] in repo.functions and t[1].startswith('nbdime.diffing.'):
                        if any(isinstance(y, ast.Attribute) and y.attr == 'differs' for y in ast.walk(repo.functions[t[1]])):
                            return True
        return False
    loops = [n for n in dd.body if isinstance(n, ast.For)]
    one_sided = []
    for lp in loops:
        it = ast.unparse(lp.iter)
        if '-' in it and '&' not in it:
            for c in calls_in(lp):
                if isinstance(c.func, ast.Attribute) and c.func.attr in ('add', 'remove') and dotted(c.func.value) in builder_names(dd):
                    one_sided.append(c)
    if len(one_sided) < 2:
        raise AnalysisError('diff_dicts: the two one-sided key loops (remove / add) were not found')
    consults = {}
    for c in one_sided:
        guards = cond_guards(g, repo.stmt_of(c))
        consults[c] = any(reads_table(t) for t, pol in guards)
    # which whole-ignored fields are optional?
    fn, params, table = c14.ignore_table(ctx)
    sch = NbSchema(5)
    optional = []
    for path, (cat, kind, keys, node) in sorted(table.items()):
        if kind != 'whole':
            continue
        parent, field = path.rsplit('/', 1)
        alts = [a for a in sch.at(parent or '/') if isinstance(a, dict) and field in a.get('properties', {})] if parent else \
            [a for a in sch.alternatives(sch.s) if isinstance(a, dict) and field in a.get('properties', {})]
        if not alts:
            continue
        opt = [a for a in alts if field not in a.get('required', [])]
        if opt:
            filt = [ks for p, (c2, k2, ks, nd) in table.items() if p == parent and k2 == 'keys' and c2 == cat and field in (ks or ())]
            optional.append((path, cat, bool(filt)))
    if not optional:
        raise AnalysisError('no optional whole-ignored field found in the schema (attachments expected)')
    for path, cat, filt in optional:
        ok = filt or all(consults.values())
        bad = [c for c, v in consults.items() if not v]
        ctx.inst(rule, GEN + ':diff_dicts', 'optional field %s (category %s)' % (path, cat), ok,
                 ('the parent carries a key filter naming it' if filt else 'one-sided keys are emitted only after the differ table was consulted for their path') if ok else
                 '%s is optional in the nbformat schema, but `%s` emits a key that exists on one side only without asking the differ table: with %s ignored, '
                 'a cell that gains or loses the field still produces an add/remove entry (two notebooks differing only in %s give a non-empty diff)' % (
                     path, repo.norm(bad[0]), cat, cat), bad[0] if bad else dd)
    for c in one_sided:
        ctx.inst(rule, GEN + ':diff_dicts', repo.norm(c), True, 'consults the differ table first' if consults[c] else 'unconditional (see the optional-field instances)', c, nontrivial=False)


# ------------------------------------------------------------------------------------------------ renderers do not write to the config they are given
@extra('C13', 'R13.4', 'the renderers never store into the PrettyPrintConfig argument (its default is the module-wide DefaultConfig shared by all calls): '
       'an attribute store on `config` is preceded by rebinding `config` to a copy', 1)
def renderers_do_not_store_on_config(ctx, rule):
    from ..cfg import CFG
    repo = ctx.repo
    PP = 'nbdime.prettyprint'
    n_fn = n_store = 0
    for fid, fn in sorted(repo.functions.items()):
        if not fid.startswith(PP + ':') or '.' in fid.split(':')[1]:
            continue
        params = [a.arg for a in fn.args.args + fn.args.kwonlyargs]
        if 'config' not in params:
            continue
        n_fn += 1
        stores = [n for n in walk_no_nested(fn) if isinstance(n, ast.Attribute) and isinstance(n.ctx, (ast.Store, ast.Del)) and
                  isinstance(n.value, ast.Name) and n.value.id == 'config']
        stores += [c for c in calls_in(fn, nested=False) if dotted(c.func) == 'setattr' and c.args and dotted(c.args[0]) == 'config']
        if not stores:
            continue
        g = CFG(fn)
        rebinds = [st for st in walk_no_nested(fn) if isinstance(st, ast.Assign) and any(isinstance(t, ast.Name) and t.id == 'config' for t in st.targets) and
                   isinstance(st.value, ast.Call) and (dotted(st.value.func) in ('copy.copy', 'copy.deepcopy', 'copy', 'deepcopy', 'PrettyPrintConfig'))]
        for s in stores:
            n_store += 1
            st = repo.stmt_of(s)
            ok = bool(rebinds) and g.dominated_by(st, rebinds)
            ctx.inst(rule, fid, repo.norm(st), ok, 'stored on a private copy' if ok else
                     'the value is written into the caller\'s config object; with the default argument that is prettyprint.DefaultConfig, shared by every later call: '
                     'the argument is modified and the next notebook is rendered with what this one left behind', s)
    ctx.inst(rule, PP, '%d renderer function(s) taking `config`, %d store(s) on it' % (n_fn, n_store), n_fn >= 10, 'all examined' if n_fn >= 10 else 'renderer functions not found', None, nontrivial=False)


# ------------------------------------------------------------------------------------------------ decision rendering: only diffs of base are applied to base
@extra('C16', 'R16.14', 'pretty_print_merge_decision renders against `base` only decision fields that hold diffs OF base: no field the merge builder fills from a diff '
       'between the two sides\' inserted values (perform_diff(local, remote)) is in its key list', 1)
def decision_fields_rendered_on_base(ctx, rule):
    repo, cg = ctx.repo, ctx.cg
    MG = 'nbdime.merging.generic'
    sa = repo.func(MG + ':_split_addrange')
    params = [a.arg for a in sa.args.args]
    # variables holding a diff between two parameters of _split_addrange (not base)
    side_diffs = set()
    for st in walk_no_nested(sa):
        if isinstance(st, ast.Assign) and isinstance(st.value, ast.Call) and dotted(st.value.func) in ('perform_diff', 'diff') and len(st.value.args) >= 2 and \
                all(isinstance(a, ast.Name) and a.id in params for a in st.value.args[:2]):
            side_diffs |= {t.id for t in st.targets if isinstance(t, ast.Name)}
    if not side_diffs:
        raise AnalysisError('_split_addrange: the diff between the two inserted value lists was not found')
    elems = set()
    for st in walk_no_nested(sa):
        if isinstance(st, ast.Assign) and isinstance(st.value, ast.Subscript) and isinstance(st.value.value, ast.Name) and st.value.value.id in side_diffs:
            elems |= {t.id for t in st.targets if isinstance(t, ast.Name)}
        if isinstance(st, ast.For) and any(isinstance(x, ast.Name) and x.id in side_diffs for x in ast.walk(st.iter)):
            elems |= {x.id for x in ast.walk(st.target) if isinstance(x, ast.Name)}
    fields = {}
    for c in calls_in(sa, nested=False):
        if not (isinstance(c.func, ast.Attribute) and dotted(c.func.value) == 'decisions'):
            continue
        for i, a in enumerate(c.args):
            names = {x.id for x in ast.walk(a) if isinstance(x, ast.Name)}
            if not names & (elems | side_diffs):
                continue
            # skip valuelists (d.valuelist / d.value): those are VALUES, the op built around them is on base
            if not (isinstance(a, ast.List) and len(a.elts) == 1 and isinstance(a.elts[0], ast.Name)) and not isinstance(a, ast.Name):
                continue
            meth = repo.functions.get('nbdime.merging.decisions:MergeDecisionBuilder.' + c.func.attr)
            if meth is None:
                raise AnalysisError('MergeDecisionBuilder.%s not found' % c.func.attr)
            mparams = [x.arg for x in meth.args.args[1:]]
            if i >= len(mparams):
                continue
            p = mparams[i]
            for c2 in calls_in(meth):
                for k in c2.keywords:
                    if k.arg and isinstance(k.value, ast.Name) and k.value.id == p:
                        fields[k.arg] = (c, c.func.attr, p)
    if not fields:
        raise AnalysisError('no decision field filled from the side-to-side diff was found (similar_insert expected)')
    pm = repo.func('nbdime.prettyprint:pretty_print_merge_decision')
    loops = [n for n in walk_no_nested(pm) if isinstance(n, ast.For) and any(isinstance(c.func, ast.Name) and c.func.id == 'pretty_print_diff' for c in calls_in(n))]
    if not loops:
        raise AnalysisError('pretty_print_merge_decision: loop rendering the diffs not found')
    it = loops[0].iter
    if isinstance(it, ast.Name):
        vals = [s.value for s in walk_no_nested(pm) if isinstance(s, ast.Assign) and any(isinstance(t, ast.Name) and t.id == it.id for t in s.targets)]
        it = vals[-1] if vals else it
    if not isinstance(it, (ast.Tuple, ast.List)):
        raise AnalysisError('pretty_print_merge_decision: key list of the rendering loop is not a literal')
    keys = [const_val(e) for e in it.elts]
    for f, (c, m, p) in sorted(fields.items()):
        ok = f not in keys
        ctx.inst(rule, 'nbdime.prettyprint:pretty_print_merge_decision', 'decision field %r (filled by MergeDecisionBuilder.%s from the diff between the inserted values)' % (f, m), ok,
                 'not applied to base' if ok else
                 '%r is a diff between the LOCAL and REMOTE inserted items, but the loop over %s renders it with pretty_print_diff(<value of base at common_path>, ...): '
                 'its keys index the inserted list, not base -- IndexError/KeyError/AssertionError for every "similar insert" decision that stays conflicted' % (f, keys), loops[0])


# ------------------------------------------------------------------------------------------------ values out of diffs are plain mappings
@extra('C16', 'R16.15', 'renderers reached with values taken out of diffs (pretty_print_value_at -> cell/output/attachment printers) read fields by key, never by attribute: '
       'inserted values built by the merge strategies are plain dicts', 3)
def rendered_values_read_by_key(ctx, rule):
    from ..schema import NbSchema
    repo, cg = ctx.repo, ctx.cg
    PP = 'nbdime.prettyprint'
    roots = [PP + ':pretty_print_cell', PP + ':pretty_print_output', PP + ':pretty_print_outputs', PP + ':pretty_print_attachments',
             PP + ':pretty_print_metadata', PP + ':pretty_print_source', PP + ':pretty_print_dict', PP + ':pretty_print_value', PP + ':pretty_print_list']
    sch = NbSchema(5)
    fields = set()
    for d in sch.s.get('definitions', {}).values():
        for alt in sch.alternatives(d):
            if isinstance(alt, dict):
                fields |= set(alt.get('properties', {}))
    fields |= set(sch.s.get('properties', {}))
    n = 0
    for fid in roots:
        if fid not in repo.functions:
            continue
        fn = repo.functions[fid]
        params = {a.arg for a in fn.args.args} - {'config', 'prefix'}
        bad = [x for x in ast.walk(fn) if isinstance(x, ast.Attribute) and isinstance(x.ctx, ast.Load) and isinstance(x.value, ast.Name) and
               x.value.id in params and x.attr in fields]
        n += 1
        ctx.inst(rule, fid, 'attribute reads of schema fields on %s: %s' % (sorted(params), sorted({'%s.%s' % (b.value.id, b.attr) for b in bad}) or 'none'), not bad,
                 'fields are read by key / .get()' if not bad else
                 '%s.%s is attribute access: it works for nbformat NotebookNode values but raises AttributeError for the plain dict the inline merge strategy puts '
                 'into a custom_diff (and for any diff loaded from JSON)' % (bad[0].value.id, bad[0].attr), bad[0] if bad else fn)
    if n < 3:
        raise AnalysisError('value renderers not found')


# ------------------------------------------------------------------------------------------------ temp files for external tools
@extra('C16', 'R16.16', 'texts handed to git/diff/diff3 through temp files are encoded with an error handler that cannot raise on a lone surrogate '
       '(JSON "\\ud800" is accepted by nbformat), and the tool output is decoded with the matching handler', 3)
@extra('C07', 'R07.10', 'texts handed to git merge-file/diff3 through temp files are encoded with an error handler that cannot raise on a lone surrogate, '
       'and the tool output is decoded with the matching handler', 2)
def tool_tempfiles_encode_everything(ctx, rule):
    repo = ctx.repo
    PP = 'nbdime.prettyprint'
    lossy = {'replace', 'backslashreplace', 'xmlcharrefreplace', 'ignore', 'namereplace'}
    n = 0
    for fid, fn in sorted(repo.functions.items()):
        if not fid.startswith(PP + ':'):
            continue
        if rule.startswith('R07') and 'merge' not in fid:
            continue
        if not any(dotted(c.func) in ('Popen', 'subprocess.Popen') for c in calls_in(fn, nested=False)):
            continue
        handlers = set()
        for c in calls_in(fn, nested=False):
            d = dotted(c.func)
            if d in ('io.open', 'open') and len(c.args) >= 2 and 'w' in str(const_val(c.args[1])) and 'b' not in str(const_val(c.args[1])):
                kw = {k.arg: const_val(k.value) for k in c.keywords}
                enc = (kw.get('encoding') or '').lower().replace('-', '')
                err = kw.get('errors') or 'strict'
                ok = enc in ('utf8',) and (err == 'surrogatepass' or err in lossy)
                handlers.add(err)
                n += 1
                ctx.inst(rule, fid, repo.norm(c), ok, 'errors=%s: every str can be written' % err if ok else
                         'encoding=%r errors=%r raises UnicodeEncodeError for a source/output text containing a lone surrogate: rendering aborts although the built-in '
                         'renderer handles the same text' % (kw.get('encoding'), err), c)
        for c in calls_in(fn, nested=False):
            if isinstance(c.func, ast.Attribute) and c.func.attr == 'decode' and c.args and str(const_val(c.args[0])).lower().replace('-', '') == 'utf8':
                kw = {k.arg: const_val(k.value) for k in c.keywords}
                err = kw.get('errors') or (const_val(c.args[1]) if len(c.args) > 1 else 'strict')
                need = 'surrogatepass' in handlers
                ok = (err == 'surrogatepass') if need else True
                n += 1
                ctx.inst(rule, fid, repo.norm(c), ok, 'decodes what was written' if ok else
                         'the files are written with surrogatepass, so the tool echoes encoded surrogates; decode(errors=%r) raises on them' % err, c)
    if n < 2:
        raise AnalysisError('external tool temp-file sites not found')


# ------------------------------------------------------------------------------------------------ a failing merge tool is not a merge result
TOOL_ERROR_STATUS = {'git': [128, 255, -1, -9], 'diff3': [2, -9]}     # git merge-file: negative / >127 on error; diff3: 2 = trouble
TOOL_OK_STATUS = {'git': [0, 1, 127], 'diff3': [0, 1]}


def _merge_tool_status(ctx, rule):
    from ..cfg import CFG, cond_guards
    from ..util import final_fallback
    repo, cg = ctx.repo, ctx.cg
    PP = 'nbdime.prettyprint'
    mr = repo.func(PP + ':merge_render')
    g = CFG(mr)
    k = 0
    for c in calls_in(mr, nested=False):
        tg = [t[1] for t in cg.resolve(c.func, mr) if t[0] == 'func']
        tool = 'git' if PP + ':merge_render_with_git' in tg else 'diff3' if PP + ':merge_render_with_diff3' in tg else None
        if tool is None:
            continue
        k += 1
        st = repo.stmt_of(c)
        where = PP + ':merge_render'
        if isinstance(st, ast.Return):
            ctx.inst(rule, where, repo.norm(st), False,
                     'the %s result is returned whatever its exit status: when the tool fails (binary-looking text such as a NUL character, unreadable temp dir) its empty output '
                     'and error status are taken for "merged text" and "number of conflicts" -- the cell source is replaced by \'\' and every line of all three versions is lost' % tool, st)
            continue
        if not (isinstance(st, ast.Assign) and isinstance(st.targets[0], ast.Tuple) and len(st.targets[0].elts) == 2 and isinstance(st.targets[0].elts[1], ast.Name)):
            raise AnalysisError('merge_render: result of the %s renderer is neither returned nor unpacked into (text, status)' % tool)
        sv = st.targets[0].elts[1].id
        rets = [r for r in walk_no_nested(mr) if isinstance(r, ast.Return) and isinstance(r.value, ast.Tuple) and
                any(isinstance(x, ast.Name) and x.id == sv for x in ast.walk(r.value)) and g.dominated_by(r, [st])]
        if not rets:
            raise AnalysisError('merge_render: no return of the %s result found' % tool)
        for r in rets:
            guards = [(t, pol) for t, pol in cond_guards(g, r) if any(isinstance(x, ast.Name) and x.id == sv for x in ast.walk(t))]
            def passes(val):
                for t, pol in guards:
                    try:
                        v = bool(eval(compile(ast.Expression(t), '<guard>', 'eval'), {'__builtins__': {}}, {sv: val}))
                    except Exception:
                        raise AnalysisError('merge_render: status guard `%s` not evaluable' % ast.unparse(t))
                    if v != pol:
                        return False
                return True
            leaks = [v for v in TOOL_ERROR_STATUS[tool] if passes(v)]
            blocked = [v for v in TOOL_OK_STATUS[tool] if not passes(v)]
            ok = not leaks and not blocked
            ctx.inst(rule, where, '%s: %s under %s' % (tool, repo.norm(r), [ast.unparse(t) for t, pol in guards] or 'no status test'), ok,
                     'error statuses %s fall through to the built-in renderer, result statuses %s are returned' % (TOOL_ERROR_STATUS[tool], TOOL_OK_STATUS[tool]) if ok else
                     ('exit status %s of %s means the tool FAILED, yet its (empty) output is returned as the merged text' % (leaks, tool) if leaks else
                      'exit status %s of %s is a genuine result but is discarded' % (blocked, tool)), r)
    if k < 2:
        raise AnalysisError('merge_render: calls of the git / diff3 renderers not found')
    ok = final_fallback(repo, cg, mr, PP + ':builtin_merge_render')
    ctx.inst(rule, PP + ':merge_render', 'falls through to builtin_merge_render', ok, 'a failed tool is replaced by the built-in renderer' if ok else 'no built-in fallback after the tools', mr)


extra('C07', 'R07.11', 'an external merge tool\'s failure status (git merge-file: negative or >127; diff3: 2) is never returned as a merge result: those statuses fall through to the built-in renderer', 3)(_merge_tool_status)
extra('C03', 'R03.21', 'an external merge tool\'s failure status (git merge-file: negative or >127; diff3: 2) is never returned as a merge result: those statuses fall through to the built-in renderer', 3)(_merge_tool_status)


# ------------------------------------------------------------------------------------------------ diff3 and unterminated last lines
@extra('C07', 'R07.12', 'diff3 -m glues its conflict markers onto an unterminated last line ("b = 2||||||| base"): the diff3 renderer is reached only with texts that end in a '
       'newline (unterminated texts are sent elsewhere or terminated first)', 1)
def diff3_gets_terminated_texts(ctx, rule):
    from ..cfg import CFG, cond_guards
    repo, cg = ctx.repo, ctx.cg
    PP = 'nbdime.prettyprint'
    fn = repo.func(PP + ':merge_render_with_diff3')
    texts = [a.arg for a in fn.args.args[:3]]
    g = CFG(fn)
    ext = [c for c in calls_in(fn, nested=False) if (PP + ':external_merge_render') in [t[1] for t in cg.resolve(c.func, fn) if t[0] == 'func']]
    if not ext:
        raise AnalysisError('merge_render_with_diff3: external_merge_render call not found')

    def covers_all(test):
        """the test asks .endswith('\\n') of all three texts (explicitly, or through any()/all() over a tuple of them)"""
        asked = set()
        for c in ast.walk(test):
            if isinstance(c, ast.Call) and isinstance(c.func, ast.Attribute) and c.func.attr == 'endswith' and c.args and const_val(c.args[0]) in ('\n', ('\n',), ('\n', '\r')):
                if isinstance(c.func.value, ast.Name):
                    asked.add(c.func.value.id)
        for ge in ast.walk(test):
            if isinstance(ge, ast.GeneratorExp) and len(ge.generators) == 1 and isinstance(ge.generators[0].target, ast.Name) and \
                    ge.generators[0].target.id in asked and isinstance(ge.generators[0].iter, (ast.Tuple, ast.List)):
                asked |= {e.id for e in ge.generators[0].iter.elts if isinstance(e, ast.Name)}
        return set(texts) <= asked
    for c in ext:
        st = repo.stmt_of(c)
        guarded = any(covers_all(t) for t, pol in cond_guards(g, st))
        # early return under such a test also dominates the call without being a cond_guard of it
        early = [i for i in walk_no_nested(fn) if isinstance(i, ast.If) and covers_all(i.test) and i.body and isinstance(i.body[-1], ast.Return) and
                 i.lineno < st.lineno and i in fn.body]
        terminated = all(any(isinstance(a, ast.Assign) and any(isinstance(t, ast.Name) and t.id == p for t in a.targets) and
                             any(isinstance(k, ast.Constant) and k.value == '\n' for k in ast.walk(a.value)) and a.lineno < st.lineno
                             for a in walk_no_nested(fn)) for p in texts)
        ok = guarded or bool(early) or terminated
        ctx.inst(rule, PP + ':merge_render_with_diff3', repo.norm(c), ok,
                 'only newline-terminated texts reach diff3' if ok else
                 'a source without a final newline (the normal case for notebook cells) is handed to `diff3 -m` as is: the markers are appended to the unterminated last line, so added '
                 'lines are lost as lines and lines from no input appear in the merged source (machines with diff3 but without git)', c)


# ------------------------------------------------------------------------------------------------ asserts on the two inserted cells
@extra('C03', 'R03.22', 'an assert that two "similar" inserted cells agree on a field is backed by evidence: every /cells alignment predicate rejects cells differing in '
       'that field, or the function routes such pairs away before the assert', 1)
@extra('C07', 'R07.13', 'an assert that two "similar" inserted cells agree on a field is backed by evidence: every /cells alignment predicate rejects cells differing in '
       'that field, or the function routes such pairs away before the assert', 1)
def similar_cell_asserts_are_backed(ctx, rule):
    repo = ctx.repo
    STR = 'nbdime.merging.strategies'
    NB = 'nbdime.diffing.notebooks'
    fn = repo.func(STR + ':resolve_strategy_inline_recurse')
    np_ = repo.module_assign(NB, 'notebook_predicates')
    preds = []
    for d in ast.walk(np_):
        if isinstance(d, ast.Dict):
            for k, v in zip(d.keys, d.values):
                if const_val(k) == '/cells' and isinstance(v, (ast.List, ast.Tuple)):
                    preds = [e.id for e in v.elts if isinstance(e, ast.Name)]
    if not preds:
        raise AnalysisError('notebook_predicates["/cells"] not found')
    n = 0
    for a in walk_no_nested(fn):
        if not (isinstance(a, ast.Assert) and isinstance(a.test, ast.Compare) and len(a.test.ops) == 1 and isinstance(a.test.ops[0], ast.Eq)):
            continue
        l, r = a.test.left, a.test.comparators[0]
        if not (isinstance(l, ast.Subscript) and isinstance(r, ast.Subscript) and isinstance(const_val(l.slice), str) and const_val(l.slice) == const_val(r.slice)):
            continue
        field = const_val(l.slice)
        n += 1
        lacking = []
        for p in preds:
            pf = repo.func(NB + ':' + p)
            has = False
            for st in pf.body:
                if isinstance(st, ast.If) and isinstance(st.test, ast.Compare) and isinstance(st.test.ops[0], ast.NotEq) and \
                        any(isinstance(c, ast.Constant) and c.value == field for c in ast.walk(st.test)) and \
                        st.body and isinstance(st.body[0], ast.Return) and const_val(st.body[0].value) is False:
                    has = True
            if not has:
                lacking.append(p)
        routed = [c for c in ast.walk(fn) if isinstance(c, ast.Compare) and isinstance(c.ops[0], ast.NotEq) and c.lineno < a.lineno and
                  any(isinstance(k, ast.Constant) and k.value == field for k in ast.walk(c))]
        ok = not lacking or bool(routed)
        ctx.inst(rule, STR + ':resolve_strategy_inline_recurse', repo.norm(a), ok,
                 ('every /cells predicate rejects cells whose %r differs' % field if not lacking else 'pairs differing in %r are routed to the cell-level conflict before the assert' % field) if ok else
                 'predicate(s) %s align cells without comparing %r (two branches that insert/move the same cell id, one of them changing its type): the pair is declared a similar '
                 'insert and this assert aborts the merge with AssertionError' % (lacking, field), a)
    if not n:
        ctx.inst(rule, STR + ':resolve_strategy_inline_recurse', 'no field-agreement assert on the two inserted cells', True, 'nothing to back', fn)


# ------------------------------------------------------------------------------------------------ placeholder notebooks and the format version
def _placeholder_version(ctx, rule):
    from ..cfg import CFG
    repo, cg = ctx.repo, ctx.cg
    APP = 'nbdime.nbmergeapp'
    fn = repo.func(APP + ':main_merge')
    g = CFG(fn)
    reads = [c for c in calls_in(fn, nested=False) if ('func', 'nbdime.utils:read_notebook') in cg.resolve(c.func, fn) and
             any(const_val(k.value) == 'minimal' for k in c.keywords)]
    merges = [c for c in calls_in(fn, nested=False) if any(t[0] == 'func' and t[1].endswith(':merge_notebooks') for t in cg.resolve(c.func, fn))]
    if not reads or not merges:
        raise AnalysisError('main_merge: read_notebook(.., "minimal") / merge_notebooks calls not found')
    rn = repo.func('nbdime.utils:read_notebook')
    synth = [c for c in calls_in(rn) if dotted(c.func) and dotted(c.func).endswith('new_notebook') and not c.args and not c.keywords]
    mst = repo.stmt_of(merges[0])
    stores = []
    for n in walk_no_nested(fn):
        if isinstance(n, (ast.Attribute, ast.Subscript)) and isinstance(n.ctx, ast.Store):
            nm = n.attr if isinstance(n, ast.Attribute) else const_val(n.slice)
            if nm == 'nbformat_minor':
                st = repo.stmt_of(n)
                if st.lineno < mst.lineno:
                    stores.append(st)
    # helper called before the merge that stores it
    for c in calls_in(fn, nested=False):
        if repo.stmt_of(c).lineno < mst.lineno:
            for t in cg.resolve(c.func, fn):
                if t[0] == 'func' and t[1].startswith('nbdime.') and t[1] != 'nbdime.utils:read_notebook' and t[1] in repo.functions:
                    f2 = repo.functions[t[1]]
                    if any(isinstance(n, (ast.Attribute, ast.Subscript)) and isinstance(n.ctx, ast.Store) and
                           (n.attr if isinstance(n, ast.Attribute) else const_val(n.slice)) == 'nbformat_minor' for n in ast.walk(f2)):
                        stores.append(repo.stmt_of(c))
    versioned = not synth       # read_notebook no longer synthesises a default-version notebook
    ok = bool(stores) or versioned
    # read_notebook substitutes a new notebook for a MISSING file and (on_empty) for an EMPTY file: a placeholder test on the file NAME alone misses the second kind
    by_empty = any(k.arg == 'on_empty' and const_val(k.value) == 'minimal' for c in reads for k in c.keywords)
    if ok and stores and by_empty:
        g2 = CFG(fn)
        from ..cfg import cond_guards
        fname_vars = {st.targets[0].id for st in walk_no_nested(fn) if isinstance(st, ast.Assign) and isinstance(st.targets[0], ast.Name) and
                      isinstance(st.value, ast.Attribute) and dotted(st.value.value) == 'args' and st.value.attr in ('base', 'local', 'remote')}
        for st in stores:
            tests = []
            anc = repo.parent(st)
            while anc is not None and anc is not fn:
                if isinstance(anc, ast.If):
                    tests.append(anc.test)
                anc = repo.parent(anc)
            names = {x.id for t in tests for x in ast.walk(t) if isinstance(x, ast.Name)}
            # loop variables bound from tuples that pair file names with notebooks
            loop = repo.enclosing(st, (ast.For,))
            by_name = 'EXPLICIT_MISSING_FILE' in names or bool(names & fname_vars)
            if loop is not None and isinstance(loop.target, ast.Tuple):
                tnames = {e.id for e in loop.target.elts if isinstance(e, ast.Name)}
                by_name = by_name or any(isinstance(c, ast.Compare) and any(isinstance(x, ast.Name) and x.id == 'EXPLICIT_MISSING_FILE' for x in ast.walk(c)) for t in tests for c in ast.walk(t))
            if by_name:
                ctx.inst(rule, APP + ':main_merge', repo.norm(st)[:80] + '  [placeholder recognised by file name]', False,
                         'the alignment only covers inputs whose NAME is the null file, but read_notebook(on_empty=\'minimal\') also substitutes new_notebook() (minor 5) for an EMPTY '
                         'base file -- what git passes for a file added on both branches: the merge of a 4.4 and a 4.5 side still takes the maximum over the placeholder', st)
                ok = False
    ctx.inst(rule, APP + ':main_merge', '%d input(s) may be replaced by nbformat.v4.new_notebook(); format version aligned before merge_notebooks: %s' % (
        len(reads), 'yes' if ok else 'no'), ok,
        'the placeholder takes the format version of the real inputs' if ok else
        'a missing/empty input is replaced by new_notebook(), whose nbformat_minor is the newest one nbformat knows (5); the merge takes the MAXIMUM minor version, so merging two '
        '4.4 notebooks with a deleted/added side yields a 4.5 notebook whose cells have no ids -- invalid, and nbformat.write then invents random ids: the file differs from the '
        'library result and from run to run', mst)


extra('C04', 'R04.8', 'a placeholder for a missing/empty input does not upgrade the merge\'s format version: its nbformat_minor is aligned with the real inputs before merge_notebooks', 1)(_placeholder_version)
extra('C08', 'R08.10', 'a placeholder for a missing/empty input does not upgrade the merge\'s format version: its nbformat_minor is aligned with the real inputs before merge_notebooks '
      '(else the written file is not the library result: nbformat.write repairs the missing ids with random ones)', 1)(_placeholder_version)


# ------------------------------------------------------------------------------------------------ {entry.key: entry} over un-combined diffs
def _by_key_maps(ctx, rule):
    from ..util import local_defs
    repo, cg = ctx.repo, ctx.cg
    n = 0
    for fid, fn in sorted(repo.functions.items()):
        if not fid.startswith('nbdime.merging.'):
            continue
        defs = None
        for dc in walk_no_nested(fn):
            if not (isinstance(dc, ast.DictComp) and len(dc.generators) == 1 and isinstance(dc.key, ast.Attribute) and dc.key.attr == 'key' and
                    isinstance(dc.generators[0].target, ast.Name) and isinstance(dc.key.value, ast.Name) and dc.key.value.id == dc.generators[0].target.id and
                    isinstance(dc.value, ast.Name) and dc.value.id == dc.key.value.id):
                continue
            n += 1
            it = dc.generators[0].iter
            combined = isinstance(it, ast.Call) and (dotted(it.func) or '').split('.')[-1] == 'combine_patches'
            src = None
            if isinstance(it, ast.Name):
                defs = defs or local_defs(fn)
                for v, k, st in defs.get(it.id, []):
                    if isinstance(v, ast.Call):
                        if (dotted(v.func) or '').split('.')[-1] == 'combine_patches':
                            combined = True
                        for t in cg.resolve(v.func, fn):
                            if t[0] == 'func' and t[1] in repo.functions:
                                src = t[1]
            per_decision = False
            if src and not combined:
                f2 = repo.functions[src]
                ext = [c for c in calls_in(f2) if isinstance(c.func, ast.Attribute) and c.func.attr == 'extend']
                comb = [c for c in calls_in(f2) if (dotted(c.func) or '').split('.')[-1] == 'combine_patches']
                per_decision = bool(ext) and not comb
            ok = combined or not per_decision
            ctx.inst(rule, fid, repo.norm(dc), ok,
                     'the entries were combined per key first' if combined else ('source yields one entry per key' if ok else
                     '%s extends its result with the diffs of every conflicting decision and does not combine them: two decisions on the same key (two conflicting MIME entries of one '
                     'attachment) give two `patch <name>` entries, and this mapping keeps only the last -- the other conflict disappears from the decisions and the LOCAL_/REMOTE_ copies '
                     'carry the base payload for it' % src.split(':')[1]), dc)
    if not n:
        raise AnalysisError('no {entry.key: entry} mapping found in the merge package (resolve_strategy_inline_attachments expected)')


extra('C09', 'R09.14', 'a {entry.key: entry} mapping is built only from diffs that hold one entry per key (combined first): nothing is overwritten', 2)(_by_key_maps)
extra('C03', 'R03.23', 'a {entry.key: entry} mapping is built only from diffs that hold one entry per key (combined first): nothing is overwritten', 2)(_by_key_maps)


# ------------------------------------------------------------------------------------------------ C07 shares C09's input-order rule
@extra('C07', 'R07.14', 'a key-only (stable) re-sort of diff entries is only applied to input whose order already puts an inserted line before the patch of the line at the same index '
       '(C09 R09.15): otherwise a cleanly merged source contains a line found in no input', 0)
def c07_input_order(ctx, rule):
    from ..report import run_sub
    from . import c09
    run_sub(ctx, c09, {'R09.15': rule})


# ------------------------------------------------------------------------------------------------ vacuous emptiness guards
def _vacuous_guards(ctx, rule):
    """`if base or split_diffs:` where split_diffs = [f(d) for d in diffs] and diffs is the *args tuple every caller fills with
    one diff per side: the list has one element per side and is never empty, so the guard is constant."""
    from ..keys import truth_uses
    from ..util import local_defs
    repo, cg = ctx.repo, ctx.cg
    n = 0
    for fid, fn in sorted(repo.functions.items()):
        if not fid.startswith('nbdime.merging.'):
            continue
        va = fn.args.vararg.arg if fn.args.vararg else None
        if va is None:
            continue
        callers = [(cf, c) for cf, cfn in repo.functions.items() for c in calls_in(cfn, nested=False) if ('func', fid) in cg.resolve(c.func, cfn)]
        npos = len(fn.args.args)
        if not callers or not all(len(c.args) > npos and not any(isinstance(a, ast.Starred) for a in c.args) for cf, c in callers):
            continue        # some caller may pass no extra argument
        defs = local_defs(fn)
        per_side = {va}
        for nm, ds in defs.items():
            for v, k, st in ds:
                if k == 'assign' and isinstance(v, ast.ListComp) and len(v.generators) == 1 and not v.generators[0].ifs and \
                        isinstance(v.generators[0].iter, ast.Name) and v.generators[0].iter.id in per_side and len(ds) == 1:
                    per_side.add(nm)
        for e in truth_uses(fn):
            if isinstance(e, ast.Name) and e.id in per_side:
                n += 1
                ctx.inst(rule, fid, 'truthiness of %s in `%s`' % (e.id, repo.norm(repo.stmt_of(e))[:80]), False,
                         '%s holds one element per side (every caller passes %d diff(s)), so it is never empty and the test is constant: the guard was meant to ask whether any SIDE has '
                         'changes (any(%s)); with an empty base and no changes the assertions under it fire -- merging [] or "" with itself raises AssertionError' % (
                             e.id, min(len(c.args) - npos for cf, c in callers), e.id), e)
        ctx.inst(rule, fid, 'per-side collections %s' % sorted(per_side), True, 'no truthiness test of a never-empty per-side collection besides those reported', fn, nontrivial=False)


extra('C05', 'R05.7', 'no guard tests the truthiness of a collection that holds one element per side (never empty): "does any side change anything" is asked with any()', 1)(_vacuous_guards)
extra('C03', 'R03.24', 'no guard tests the truthiness of a collection that holds one element per side (never empty): "does any side change anything" is asked with any()', 1)(_vacuous_guards)


# ------------------------------------------------------------------------------------------------ mapping differs: the three key classes
def _mapping_differs_cover_key_classes(ctx, rule):
    repo = ctx.repo
    n = 0
    for fid, fn in sorted(repo.functions.items()):
        if not fid.startswith('nbdime.diffing.'):
            continue
        if not any(isinstance(c.func, ast.Name) and c.func.id == 'MappingDiffBuilder' for c in calls_in(fn, nested=False)):
            continue
        ps = [a.arg for a in fn.args.args[:2]]
        if len(ps) < 2:
            continue
        keysets = {}
        for st in walk_no_nested(fn):
            if isinstance(st, ast.Assign) and isinstance(st.targets[0], ast.Name) and isinstance(st.value, ast.Call) and dotted(st.value.func) == 'set' and st.value.args:
                inner = st.value.args[0]
                root = inner.func.value if isinstance(inner, ast.Call) and isinstance(inner.func, ast.Attribute) and inner.func.attr == 'keys' else inner
                if isinstance(root, ast.Name) and root.id in ps:
                    keysets[st.targets[0].id] = root.id
        if set(keysets.values()) != set(ps):
            continue        # not the set-algebra shape: not judged
        n += 1
        ka = next(k for k, v in keysets.items() if v == ps[0])
        kb = next(k for k, v in keysets.items() if v == ps[1])
        found = {}
        for lp in walk_no_nested(fn):
            if not isinstance(lp, ast.For):
                continue
            for e in ast.walk(lp.iter):
                if isinstance(e, ast.BinOp) and isinstance(e.left, ast.Name) and isinstance(e.right, ast.Name):
                    pair = (e.left.id, e.right.id)
                    ops = {c.func.attr for c in calls_in(lp) if isinstance(c.func, ast.Attribute) and c.func.attr in ('add', 'remove', 'patch', 'replace', 'append')}
                    if isinstance(e.op, ast.Sub) and pair == (ka, kb):
                        found['only in %s' % ps[0]] = ('remove' in ops, lp)
                    elif isinstance(e.op, ast.Sub) and pair == (kb, ka):
                        found['only in %s' % ps[1]] = ('add' in ops, lp)
                    elif isinstance(e.op, ast.BitAnd) and set(pair) == {ka, kb}:
                        found['in both'] = (True, lp)
        for cls, opname in (('only in %s' % ps[0], 'remove'), ('in both', 'patch/replace'), ('only in %s' % ps[1], 'add')):
            ok = cls in found and found[cls][0]
            ctx.inst(rule, fid, 'keys %s -> %s' % (cls, opname), ok,
                     'handled' if ok else
                     'no loop over the keys %s emits %s entries: a mapping that gains or loses a key (an attachment re-exported under the same name with another MIME type; '
                     'a bundle that gains a rendition) produces an EMPTY diff although the two notebooks differ' % (cls, opname), found.get(cls, (None, fn))[1])
    if n < 3:
        raise AnalysisError('fewer than 3 mapping differs with the key-set shape found (diff_dicts, diff_attachments, diff_mime_bundle expected)')


extra('C01', 'R01.13', 'every mapping differ (dicts, attachments, mime bundles) handles all three key classes: only in a -> remove, in both -> recurse/replace, only in b -> add', 9)(_mapping_differs_cover_key_classes)
extra('C02', 'R02.14', 'every mapping differ (dicts, attachments, mime bundles) handles all three key classes: only in a -> remove, in both -> recurse/replace, only in b -> add', 9)(_mapping_differs_cover_key_classes)


# ------------------------------------------------------------------------------------------------ nbpatch writes what it computed
@extra('C01', 'R01.14', 'nbpatch -o: once an output file is named, every way to finish successfully passes through the write of the patched notebook to that file', 1)
def patch_output_always_written(ctx, rule):
    from ..cfg import CFG
    repo = ctx.repo
    fid = 'nbdime.nbpatchapp:main_patch'
    fn = repo.func(fid)
    g = CFG(fn)
    outvar = None
    for st in walk_no_nested(fn):
        if isinstance(st, ast.Assign) and isinstance(st.value, ast.Attribute) and st.value.attr == 'output' and isinstance(st.targets[0], ast.Name):
            outvar = st.targets[0].id
    if outvar is None:
        raise AnalysisError('main_patch: local holding args.output not found')
    writes = [repo.stmt_of(c) for c in calls_in(fn, nested=False) if isinstance(c.func, ast.Attribute) and c.func.attr in ('write', 'dump') and
              any(isinstance(a, ast.Name) and a.id == outvar for a in c.args)]
    # ... or a write through a file object opened on the output path
    for w in [n for n in walk_no_nested(fn) if isinstance(n, ast.With)]:
        if any(isinstance(c, ast.Call) and dotted(c.func) in ('open', 'io.open', 'codecs.open') and c.args and dotted(c.args[0]) == outvar for it in w.items for c in ast.walk(it.context_expr)):
            fobj = [dotted(it.optional_vars) for it in w.items if it.optional_vars is not None]
            for c in calls_in(w, nested=False):
                if isinstance(c.func, ast.Attribute) and c.func.attr == 'write' and dotted(c.func.value) in fobj:
                    writes.append(repo.stmt_of(c))
    tests = [s for s in g.stmts() if isinstance(s, ast.If) and isinstance(s.test, ast.Name) and s.test.id == outvar]
    if not writes or not tests:
        raise AnalysisError('main_patch: `if <output>: nbformat.write(<result>, <output>)` not found')
    start = g.branch(tests[0], True)
    # successful exits = returns of 0 / falling off the end; raising paths and non-zero returns are failures
    bad = []
    reach = g.reachable(start, removed=writes)
    for n in reach:
        if isinstance(n, ast.Return) and (n.value is None or const_val(n.value) in (0, None, False)):
            bad.append(n)
    ok = not bad
    ctx.inst(rule, fid, 'if %s: ... %s' % (outvar, repo.norm(writes[0])), ok,
             'every successful exit with an output file passes through the write' if ok else
             '`%s` is reached with an output file named but without writing it: nbpatch exits 0 and the file keeps whatever it held before '
             '(an old notebook), so diff-then-patch through files does not rebuild the target' % repo.norm(bad[0]), bad[0] if bad else tests[0])


# ------------------------------------------------------------------------------------------------ what may be declared atomic
def _atomic_only_non_containers(ctx, rule):
    repo = ctx.repo
    fid = 'nbdime.diffing.config:DiffConfig.is_atomic'
    fn = repo.func(fid)
    xparam = fn.args.args[1].arg
    n = 0
    # how are atomic values compared?  (diff_dicts: the arm taken when the differ table is not consulted)
    dd = repo.func('nbdime.diffing.generic:diff_dicts')
    cmp_names = {dotted(c.func) for c in calls_in(dd, nested=False) if dotted(c.func) in ('compare_strict', 'strict_equal')}
    # ... and in diff_lists: items the default predicate (compare_strict) pairs are not diffed further when atomic; that predicate is plain == on
    # containers unless it recurses itself
    cs = repo.func('nbdime.diffing.generic:compare_strict')
    predicate_deep = any(isinstance(c, ast.Call) and dotted(c.func) in ('strict_equal', 'compare_strict') for c in ast.walk(cs))
    deep_compare = cmp_names == {'strict_equal'} and predicate_deep
    for r in walk_no_nested(fn):
        if not isinstance(r, ast.Return):
            continue
        n += 1
        v = r.value
        if deep_compare:
            ctx.inst(rule, fid, repo.norm(r), True, 'atomic values are compared with the deep type-strict equality, so any value may be atomic', r)
            continue
        table = isinstance(v, ast.Subscript) and isinstance(v.value, ast.Attribute) and 'atomic' in v.value.attr
        fallback = isinstance(v, ast.UnaryOp) and isinstance(v.op, ast.Not) and isinstance(v.operand, ast.Call) and dotted(v.operand.func) == 'isinstance' and \
            dotted(v.operand.args[0]) == xparam and {ast.unparse(e) for e in getattr(v.operand.args[1], 'elts', [v.operand.args[1]])} >= {'list', 'dict'}
        false_ = const_val(v) is False
        ok = table or fallback or false_
        ctx.inst(rule, fid, repo.norm(r), ok,
                 ('explicit per-path table' if table else 'atomic exactly when the value is not a str/list/dict' if fallback else 'never atomic') if ok else
                 'this return can declare a list or dict atomic on a condition that is not the per-path table: atomic values are compared by compare_strict, which is type-strict '
                 'only at the top level, so below that point {"v": 1} vs {"v": true} or [1, 2] vs [1.0, 2] produce NO diff entry and patch(a, diff) != b', r)
    if n < 2:
        raise AnalysisError('DiffConfig.is_atomic: expected the table lookup and the isinstance fallback')


extra('C02', 'R02.15', 'only the per-path table or "not a str/list/dict" can make a value atomic (atomic values are compared shallowly)', 2)(_atomic_only_non_containers)
extra('C01', 'R01.15', 'only the per-path table or "not a str/list/dict" can make a value atomic (atomic values are compared shallowly)', 2)(_atomic_only_non_containers)


# ------------------------------------------------------------------------------------------------ a use-* strategy never decides WHETHER to merge
@extra('C10', 'R10.8', 'in the generic mergers a test of a strategy variable against use-* values never chooses between merging the parts recursively and treating the whole value '
       'as one conflict (use-X must equal "merge, then resolve every open conflict to X")', 1)
def strategy_never_gates_recursion(ctx, rule):
    repo = ctx.repo
    MG = 'nbdime.merging.generic'
    REC = {'_merge', '_merge_lists', '_merge_dicts', '_merge_strings', '_merge_concurrent_inserts'}
    n = 0
    for fid, fn in sorted(repo.functions.items()):
        if not fid.startswith(MG + ':'):
            continue
        for node in walk_no_nested(fn):
            if not isinstance(node, ast.If):
                continue
            consts = [c.value for c in ast.walk(node.test) if isinstance(c, ast.Constant) and isinstance(c.value, str)]
            strat = [x.id for x in ast.walk(node.test) if isinstance(x, ast.Name) and 'strategy' in x.id]
            if not strat or not any(c.startswith('use-') for c in consts):
                continue
            n += 1
            def recurses(block):
                return any(isinstance(c.func, ast.Name) and c.func.id in REC for st in block for c in calls_in(st))
            # the unconditional alternative of the whole if/elif chain this test belongs to
            last = node
            while len(last.orelse) == 1 and isinstance(last.orelse[0], ast.If):
                last = last.orelse[0]
            rb, ro = recurses(node.body), recurses(last.orelse)
            ok = rb or not ro
            ctx.inst(rule, fid, 'if %s' % repo.norm(node.test)[:90], ok,
                     'both outcomes treat the parts the same way (the strategy only picks a side)' if ok else
                     'under a use-* strategy this test replaces the recursive merge of the parts by a single whole-value decision: the other side\'s NON-conflicting changes '
                     'inside the value are dropped (and use-base drops both), which "merge, then resolve each conflict to X" never does', node)
    ctx.inst(rule, MG, '%d strategy test(s) against use-* values in the generic mergers' % n, True, 'each judged above', None, nontrivial=False)


# ------------------------------------------------------------------------------------------------ the merge returns what applying its decisions gives
_SUMM = {}


def _summaries(ctx):
    key = ctx.repo.root if hasattr(ctx.repo, 'root') else id(ctx.repo)
    if key not in _SUMM:
        from ..aliasing import Summaries
        from . import c13
        _SUMM[key] = Summaries(ctx.repo, ctx.cg, lambda f: not f.startswith(('nbdime.webapp', 'nbdime.vcs', 'nbdime.profiling', 'nbdime.config', 'nbdime.args')),
                               exempt=c13.EXEMPT, scalar_fields=c13.scalar_fields(ctx.repo),
                               input_fields={'local_diff', 'remote_diff', 'valuelist', 'value', 'diff'})
    return _SUMM[key]


def _merged_is_applied_decisions(ctx, rule):
    repo, cg = ctx.repo, ctx.cg
    fid = 'nbdime.merging.notebooks:merge_notebooks'
    fn = repo.func(fid)
    ap = [st for st in walk_no_nested(fn) if isinstance(st, ast.Assign) and isinstance(st.value, ast.Call) and
          any(t[0] == 'func' and t[1].endswith(':apply_decisions') for t in cg.resolve(st.value.func, fn)) and isinstance(st.targets[0], ast.Name)]
    if len(ap) != 1:
        raise AnalysisError('merge_notebooks: `merged = apply_decisions(base, decisions)` not found')
    mvar = ap[0].targets[0].id
    dvar = ap[0].value.args[1].id if len(ap[0].value.args) > 1 and isinstance(ap[0].value.args[1], ast.Name) else None
    rets = [r for r in walk_no_nested(fn) if isinstance(r, ast.Return)]
    ok_ret = bool(rets) and all(isinstance(r.value, ast.Tuple) and [dotted(e) for e in r.value.elts] == [mvar, dvar] for r in rets)
    ctx.inst(rule, fid, 'return %s' % (repo.norm(rets[0].value) if rets else '?'), ok_ret,
             'returns the applied result together with the decisions it was computed from' if ok_ret else
             'the returned pair is not (apply_decisions(base, decisions), decisions)', rets[0] if rets else fn)
    bad = []
    from ..cfg import CFG
    _g = CFG(fn)
    _after = {}

    def after(n):
        # textual position is meaningless once helpers were inlined: ask the flow graph whether the statement runs after the application
        st = n if isinstance(n, ast.stmt) else repo.stmt_of(n)
        if id(st) not in _after:
            _after[id(st)] = st is not ap[0] and _g.dominated_by(st, [ap[0]])
        return _after[id(st)]

    def root_of(e):
        while True:
            if isinstance(e, (ast.Subscript, ast.Attribute)):
                e = e.value
            elif isinstance(e, ast.Call) and isinstance(e.func, ast.Attribute) and e.func.attr in ('get', 'values', 'items', 'setdefault'):
                e = e.func.value
            elif isinstance(e, ast.Call) and dotted(e.func) in ('list', 'tuple', 'iter', 'reversed', 'enumerate') and e.args:
                e = e.args[0]
            elif isinstance(e, ast.BoolOp):
                e = e.values[0]
            elif isinstance(e, ast.IfExp):
                e = e.body
            elif isinstance(e, ast.BinOp):
                e = e.left if not isinstance(e.left, (ast.List, ast.Constant)) else e.right
            else:
                return e.id if isinstance(e, ast.Name) else None
    # names that hold (parts of) the merged notebook / the decisions after the application
    aliases = {mvar: mvar, dvar: dvar}
    for _ in range(3):
        for n in walk_no_nested(fn):
            if not isinstance(n, (ast.For, ast.Assign)) or not after(n):
                continue
            if isinstance(n, ast.For) and root_of(n.iter) in aliases:
                for t in ast.walk(n.target):
                    if isinstance(t, ast.Name):
                        aliases.setdefault(t.id, aliases[root_of(n.iter)])
            if isinstance(n, ast.Assign) and len(n.targets) == 1 and isinstance(n.targets[0], ast.Name) and not isinstance(n.value, ast.Call) or \
                    (isinstance(n, ast.Assign) and isinstance(n.value, ast.Call) and isinstance(n.value.func, ast.Attribute) and n.value.func.attr in ('get', 'setdefault')):
                if len(n.targets) == 1 and isinstance(n.targets[0], ast.Name) and root_of(n.value) in aliases and n.targets[0].id not in (mvar, dvar):
                    aliases.setdefault(n.targets[0].id, aliases[root_of(n.value)])
    for n in walk_no_nested(fn):
        if not isinstance(n, (ast.Subscript, ast.Attribute, ast.Assign, ast.Call)) or isinstance(n, ast.expr) and repo.stmt_of(n) is None or not after(n):
            continue
        if isinstance(n, (ast.Subscript, ast.Attribute)) and isinstance(n.ctx, (ast.Store, ast.Del)):
            r = root_of(n.value)
            if r in aliases:
                bad.append((n, 'store into %s' % aliases[r]))
        if isinstance(n, ast.Assign) and any(isinstance(t, ast.Name) and t.id in (mvar, dvar) for t in n.targets):
            bad.append((n, 're-assignment of %s' % ast.unparse(n.targets[0])))
        if isinstance(n, ast.Call):
            args = [a for a in list(n.args) + [k.value for k in n.keywords] if isinstance(a, ast.Name) and a.id in (mvar, dvar)]
            recv = isinstance(n.func, ast.Attribute) and isinstance(n.func.value, ast.Name) and n.func.value.id in (mvar, dvar)
            if recv and n.func.attr not in ('get', 'keys', 'items', 'values', 'copy'):
                bad.append((n, 'method %s.%s(...)' % (n.func.value.id, n.func.attr)))
            if isinstance(n.func, ast.Attribute) and not recv and n.func.attr in ('pop', 'update', 'clear', 'append', 'setdefault', 'remove', 'extend', 'insert', 'popitem', 'sort', '__setitem__', '__delitem__'):
                r = root_of(n.func.value)
                if r in aliases:
                    bad.append((n, 'mutator %s(...) on a part of %s' % (n.func.attr, aliases[r])))
            if args:
                ts = cg.resolve(n.func, fn)
                pure = any(t[0] == 'func' and t[1].startswith('nbdime.prettyprint:') for t in ts) or (dotted(n.func) or '').startswith(('nbdime.log.', 'logger.', 'logging.', 'len', 'any', 'all'))
                if not pure:
                    # package callee: ask the alias/mutation summaries (same analysis as C13) whether it modifies that parameter
                    S = _summaries(ctx)
                    fts = [t[1] for t in ts if t[0] == 'func' and t[1] in repo.functions]
                    verdicts = []
                    for ft in fts:
                        ps = [a.arg for a in repo.functions[ft].args.args]
                        for i, a in enumerate(n.args):
                            if a in args and i < len(ps):
                                verdicts.append((ft, ps[i]) in S.mutates)
                        for k in n.keywords:
                            if k.value in args:
                                verdicts.append((ft, k.arg) in S.mutates)
                    if fts and any(verdicts):
                        bad.append((n, 'passed to %s, which modifies it' % (dotted(n.func) or ast.unparse(n.func))))
                    # (a callee that cannot be resolved or whose parameter the call does not bind is not judged: no alarm without evidence)
    for n, what in bad:
        ctx.inst(rule, fid, '%s: %s' % (what, repo.norm(n)[:80]), False,
                 'the notebook is modified (or may be: the callee is not a renderer) after the decisions were applied: what merge_notebooks returns is no longer what the returned '
                 'decisions produce -- identity/one-sided adoption fail for notebooks this post-processing touches, and use-X no longer equals "merge then resolve to X"', n)
    if not bad:
        ctx.inst(rule, fid, 'nothing touches %s/%s between apply_decisions and the return' % (mvar, dvar), True, 'only renderers and loggers see them', ap[0])


extra('C09', 'R09.16', 'merge_notebooks returns exactly (apply_decisions(base, decisions), decisions): nothing modifies either between the application and the return', 2)(_merged_is_applied_decisions)
extra('C05', 'R05.8', 'merge_notebooks returns exactly (apply_decisions(base, decisions), decisions): nothing modifies either between the application and the return', 2)(_merged_is_applied_decisions)
extra('C10', 'R10.9', 'merge_notebooks returns exactly (apply_decisions(base, decisions), decisions): nothing modifies either between the application and the return', 2)(_merged_is_applied_decisions)


# ------------------------------------------------------------------------------------------------ combine_patches always folds
@extra('C03', 'R03.25', 'combine_patches hands back only the folded list (one patch per key, re-sorted): no path returns its input or anything not built by the fold -- '
       'consumers unpack exactly one patch per key', 1)
def combine_patches_always_folds(ctx, rule):
    from ..util import local_defs, depends_on
    repo = ctx.repo
    fid = 'nbdime.merging.strategies:combine_patches'
    fn = repo.func(fid)
    param = fn.args.args[0].arg
    defs = local_defs(fn)
    built = {nm for nm, ds in defs.items() if any(k == 'mutate' and isinstance(st, ast.Call) and isinstance(st.func, ast.Attribute) and st.func.attr == 'append' for v, k, st in ds)}
    if not built:
        raise AnalysisError('combine_patches: the list built by the fold was not found')
    k = 0
    for r in walk_no_nested(fn):
        if not isinstance(r, ast.Return):
            continue
        k += 1
        names = {x.id for x in ast.walk(r.value) if isinstance(x, ast.Name)} if r.value is not None else set()
        ok = bool(names & built) and param not in names
        ctx.inst(rule, fid, repo.norm(r), ok, 'the folded list' if ok else
                 'this path returns `%s` without folding: two patch entries on the same key stay separate, and resolve_strategy_inline_outputs (`e, = patches`) and the other consumers '
                 'that expect one patch per key raise ValueError -- the merge aborts when both sides change two fields of one output' % ast.unparse(r.value)[:40], r)
    if not k:
        raise AnalysisError('combine_patches: no return found')


# ------------------------------------------------------------------------------------------------ sided constants come in pairs
@extra('C05', 'R05.9', 'a function that compares against a side-naming constant (local_then_remote, use-local, local, ...) also compares against its mirror image: '
       'no behaviour is attached to one role only', 5)
def sided_constants_balanced(ctx, rule):
    from .. import mirror
    repo = ctx.repo
    n = 0
    for fid, fn in sorted(repo.functions.items()):
        if not fid.startswith(('nbdime.merging.', 'nbdime.prettyprint')):
            continue
        cs = {}
        for x in walk_no_nested(fn):
            if isinstance(x, ast.Compare):
                for c in ast.walk(x):
                    if isinstance(c, ast.Constant) and isinstance(c.value, str) and mirror.swap_const(c.value) != c.value:
                        cs.setdefault(c.value, []).append(x)
        if not cs:
            continue
        n += 1
        lone = sorted(c for c in cs if mirror.swap_const(c) not in cs and c != 'union')
        ctx.inst(rule, fid, 'side constants compared: %s' % sorted(cs), not lone,
                 'each has its mirror image in the same function' if not lone else
                 '%r is tested but %r never is: what this function does for one role it does not do for the other, so swapping local and remote changes the result '
                 '(e.g. an item kept only when the inserting side happens to be called local)' % (lone[0], mirror.swap_const(lone[0])), cs[lone[0]][0] if lone else fn)


# ------------------------------------------------------------------------------------------------ C07: both halves of a conflict are treated alike
@extra('C07', 'R07.15', 'in the text-merge renderers and the inline source strategy, adjacent assignments to a local/remote pair are mirror images, and a bound shared by both '
       'is not computed from one side only (else the longer half of a conflict loses lines)', 2)
def c07_mirror_pairs(ctx, rule):
    from . import c05
    only = {f for f in ctx.repo.functions if f.startswith('nbdime.prettyprint:') and ('merge' in f or 'render' in f)} | \
        {'nbdime.merging.strategies:resolve_strategy_inline_source', 'nbdime.merging.strategies:resolve_strategy_inline_recurse'}
    c05.mirror_statement_pairs(ctx, rule, only=only)


# ------------------------------------------------------------------------------------------------ notebooks written to stdout stay the same notebook
@extra('C08', 'R08.11', 'the merged notebook printed to stdout (no --out) is well-formed JSON whatever the encoding of the stream: it is serialised ASCII-only unless the '
       'stream takes UTF-8; the error handler installed on the stream (backslashreplace) is then reached only by lone surrogates, for which it writes a JSON escape '
       '(for other characters it would write \\xNN / \\UNNNNNNNN, which JSON does not have)', 2)
def stdout_handler_is_json_lossless(ctx, rule):
    repo, cg = ctx.repo, ctx.cg
    fid = 'nbdime.utils:_setup_std_stream_encoding'
    fn = repo.func(fid)
    sites = []
    for c in calls_in(fn):
        for k in c.keywords:
            if k.arg == 'errors' and isinstance(const_val(k.value), str):
                sites.append((c, const_val(k.value)))
    if not sites:
        raise AnalysisError('_setup_std_stream_encoding: no call with an errors= handler found')
    for c, h in sites:
        ok = h == 'backslashreplace'
        ctx.inst(rule, fid, repo.norm(c)[:90], ok,
                 'a lone surrogate becomes a \\udXXX escape, which JSON reads back' if ok else
                 'errors=%r: an unencodable character is written as %s -- well-formed JSON, exit 0, '
                 'but not the notebook the library merge returned' % (h, {'replace': '"?"', 'ignore': 'nothing', 'xmlcharrefreplace': '"&#NNNN;"', 'namereplace': '"\\N{...}"'}.get(h, 'something else')), c)
    mm = repo.func('nbdime.nbmergeapp:main_merge')
    from ..util import local_defs
    defs = local_defs(mm)
    outs = [c for c in calls_in(mm, nested=False) if any(dotted(a) == 'sys.stdout' for a in c.args) and
            (({t[1] for t in cg.resolve(c.func, mm) if t[0] == 'ext'} | {dotted(c.func) or ''}) & {'nbformat.write', 'json.dump'})]
    outs += [c for c in calls_in(mm, nested=False) if dotted(c.func) == 'sys.stdout.write']
    if not outs:
        raise AnalysisError('main_merge: the call that prints the merged notebook to stdout was not found')
    for c in outs:
        ser = c
        if dotted(c.func) == 'sys.stdout.write' and c.args:
            inner = [x for x in ast.walk(c.args[0]) if isinstance(x, ast.Call) and (dotted(x.func) or '').split('.')[-1] in ('writes', 'dumps')]
            if isinstance(c.args[0], ast.Name):
                for v, k, st in defs.get(c.args[0].id, []):
                    inner += [x for x in ast.walk(v) if isinstance(x, ast.Call) and (dotted(x.func) or '').split('.')[-1] in ('writes', 'dumps')]
            if not inner:
                continue
            ser = inner[0]
        ea = next((k.value for k in ser.keywords if k.arg == 'ensure_ascii'), None)
        is_json_dump = (dotted(ser.func) or '').split('.')[-1] in ('dump', 'dumps') and (dotted(ser.func) or '').startswith('json')
        if ea is None:
            ok = is_json_dump          # json's own default is ASCII-only; nbformat's is not
        elif isinstance(ea, ast.Constant):
            ok = ea.value is True
        else:
            # decided at run time: must look at the encoding of the stream
            src = [ea] + [v for x in ast.walk(ea) if isinstance(x, ast.Name) for v, k, st in defs.get(x.id, [])]
            ok = any(isinstance(y, ast.Constant) and y.value == 'encoding' or isinstance(y, ast.Attribute) and y.attr == 'encoding' for e in src for y in ast.walk(e))
        ctx.inst(rule, 'nbdime.nbmergeapp:main_merge', repo.norm(c)[:90], ok,
                 'non-ASCII text is written as \\uXXXX escapes unless the stream is UTF-8' if ok else
                 'the notebook is serialised with non-ASCII characters as they are: under a stream that is not UTF-8 (LC_ALL=C, latin-1, cp1252) the error handler turns them '
                 'into \\xNN / \\UNNNNNNNN, which are not JSON escapes -- exit 0, output not well-formed JSON', c)


@extra('C08', 'R08.16', 'the output file is opened for writing only when the complete content exists (as bytes, or as ASCII-only text): serialising or encoding after the open '
       'can fail with the file already truncated -- an earlier result, or for the git driver the user\'s own file, is gone although the run reports failure', 2)
def r08_16(ctx, rule):
    _r_content_before_open(ctx, rule, 'nbdime.nbmergeapp:main_merge', 'out')


def _r_content_before_open(ctx, rule, fid, out_attr):
    from ..util import local_defs
    repo, cg = ctx.repo, ctx.cg
    fn = repo.func(fid)
    defs = local_defs(fn)
    outvar = None
    for nm, ds in defs.items():
        if any(isinstance(v, ast.Attribute) and v.attr == out_attr for v, k, st in ds):
            outvar = nm
    if outvar is None:
        raise AnalysisError('%s: the local holding args.%s was not found' % (fid, out_attr))
    n = 0
    # a helper that is handed the output path does the writing: judge it with the path parameter in the role of the output
    work = [(fn, fid, outvar, defs)]
    for c in calls_in(fn, nested=False):
        for i, a in enumerate(c.args):
            if dotted(a) == outvar:
                for t in cg.resolve(c.func, fn):
                    if t[0] == 'func' and t[1] in repo.functions and t[1].startswith('nbdime.'):
                        h = repo.functions[t[1]]
                        if i < len(h.args.args):
                            work.append((h, t[1], h.args.args[i].arg, local_defs(h)))
    for fn, fid, outvar, defs in work:
        for c in calls_in(fn, nested=False):
            names = {t[1] for t in cg.resolve(c.func, fn) if t[0] == 'ext'} | {dotted(c.func) or ''}
            # serialise-and-write in one call, given the path
            if names & {'nbformat.write', 'json.dump'} and any(dotted(a) == outvar for a in c.args):
                n += 1
                ctx.inst(rule, fid, repo.norm(c), False,
                         'this call opens %s and only then serialises and encodes: a value that cannot be serialised / encoded (a lone surrogate in a source string) raises after '
                         'the file was truncated to 0 bytes' % outvar, c)
            if dotted(c.func) == 'os.open' and c.args and dotted(c.args[0]) == outvar:
                # low-level open: what os.write is given must be ready-made (a name bound before); whether its result is checked is R08.12
                n += 1
                wr = [x for x in calls_in(fn, nested=False) if dotted(x.func) == 'os.write' and len(x.args) == 2]
                ok = bool(wr) and all(isinstance(x.args[1], ast.Name) for x in wr)
                ctx.inst(rule, fid, repo.norm(c), ok, 'os.write is handed ready-made bytes' if ok else 'the bytes are produced while the descriptor is open', c)
            if dotted(c.func) in ('open', 'io.open', 'codecs.open') and c.args and dotted(c.args[0]) == outvar:
                mode = const_val(c.args[1]) if len(c.args) > 1 else next((const_val(k.value) for k in c.keywords if k.arg == 'mode'), 'r')
                if not (isinstance(mode, str) and any(ch in mode for ch in 'wax+')):
                    continue
                n += 1
                w = repo.stmt_of(c)
                body_calls = [x for st in getattr(w, 'body', []) for x in ast.walk(st) if isinstance(x, ast.Call)]
                late = [x for x in body_calls if not (isinstance(x.func, ast.Attribute) and x.func.attr == 'write' and len(x.args) == 1 and
                                                       isinstance(x.args[0], (ast.Name, ast.Constant)))]
                binary = 'b' in mode
                # text mode: what is written must be ASCII-only (json.dumps default) or the open must be binary with pre-encoded bytes
                ok = not late and (binary or all(
                    isinstance(x.args[0], ast.Constant) or any(isinstance(y, ast.Call) and dotted(y.func) in ('json.dumps',) and not any(k.arg == 'ensure_ascii' for k in y.keywords)
                                                               for v, k_, st_ in defs.get(x.args[0].id, []) for y in ast.walk(v)) for x in body_calls))
                ctx.inst(rule, fid, repo.norm(c), ok, 'only ready-made content is written inside the with block' if ok else
                         'inside the block that holds %s open, %s still has to serialise or encode: if that fails the file is already truncated' % (
                             outvar, repo.norm(late[0])[:60] if late else 'the text-mode write'), (late or [c])[0])
    if n == 0:
        raise AnalysisError('%s: no write to the output file found' % fid)


# ------------------------------------------------------------------------------------------------ output alignment does not look at ignorable fields
@extra('C14', 'R14.14', 'the output alignment predicate never compares fields of ignorable categories: for every output type, the schema\'s metadata / execution_count keys are in '
       'its skip set before the catch-all comparison of remaining keys (else outputs differing only in ignored metadata stop aligning and show up as remove + add)', 4)
def output_alignment_skips_ignorables(ctx, rule):
    from ..schema import NbSchema
    repo = ctx.repo
    fid = 'nbdime.diffing.notebooks:compare_output_approximate'
    fn = repo.func(fid)
    otvar = None
    hvar = None
    for st in fn.body:
        if isinstance(st, ast.Assign) and isinstance(st.targets[0], ast.Name):
            if isinstance(st.value, ast.Subscript) and const_val(st.value.slice) == 'output_type':
                otvar = st.targets[0].id
            if isinstance(st.value, ast.Call) and dotted(st.value.func) == 'set' and st.value.args and isinstance(st.value.args[0], (ast.Tuple, ast.List, ast.Set)):
                hvar = st.targets[0].id
    if otvar is None or hvar is None:
        raise AnalysisError('compare_output_approximate: output type local / handled-set local not found')

    def test(e, ot):
        if isinstance(e, ast.BoolOp):
            vs = [test(v, ot) for v in e.values]
            return all(vs) if isinstance(e.op, ast.And) else any(vs)
        if isinstance(e, ast.Compare) and len(e.ops) == 1 and dotted(e.left) == otvar:
            r = e.comparators[0]
            vals = [const_val(x) for x in r.elts] if isinstance(r, (ast.Tuple, ast.List, ast.Set)) else [const_val(r)]
            if isinstance(e.ops[0], (ast.Eq, ast.In)):
                return ot in vals
            if isinstance(e.ops[0], (ast.NotEq, ast.NotIn)):
                return ot not in vals
        return None

    def run(stmts, ot, handled):
        for st in stmts:
            if isinstance(st, ast.Assign) and isinstance(st.targets[0], ast.Name) and st.targets[0].id == hvar and isinstance(st.value, ast.Call) and st.value.args:
                handled.clear()
                handled.update(const_val(e) for e in st.value.args[0].elts)
            elif isinstance(st, ast.Expr) and isinstance(st.value, ast.Call) and isinstance(st.value.func, ast.Attribute) and dotted(st.value.func.value) == hvar and \
                    st.value.func.attr in ('update', 'add') and st.value.args:
                a = st.value.args[0]
                handled.update(const_val(e) for e in a.elts) if isinstance(a, (ast.Tuple, ast.List, ast.Set)) else handled.add(const_val(a))
            elif isinstance(st, ast.If):
                t = test(st.test, ot)
                if t is True:
                    run(st.body, ot, handled)
                elif t is False:
                    run(st.orelse, ot, handled)
                else:
                    # unrelated test (early `return False` cut-offs): both arms, keys handled only if handled in both
                    h1, h2 = set(handled), set(handled)
                    run(st.body, ot, h1)
                    run(st.orelse, ot, h2)
                    handled.clear()
                    handled.update(h1 & h2)
    sch = NbSchema(5)
    odefs = {k: v for k, v in sch.s.get('definitions', {}).items() if k in ('execute_result', 'display_data', 'stream', 'error')}
    ignorable = {'metadata', 'execution_count'}
    for ot, d in sorted(odefs.items()):
        handled = set()
        run(fn.body, ot, handled)
        need = ignorable & set(d.get('properties', {}))
        missing = sorted(need - handled)
        ctx.inst(rule, fid, 'output type %s: ignorable keys %s, skipped %s' % (ot, sorted(need), sorted(handled & ignorable)), not missing,
                 'not compared when aligning' if not missing else
                 '%s of a %s output take part in the alignment decision: with that category ignored, two outputs differing only there no longer align -- the outputs list diff '
                 'becomes remove + add of the whole output, which never passes the per-path ignore, so two notebooks differing only in ignored %s give a non-empty diff' % (
                     missing, ot, missing[0]), fn)


# ------------------------------------------------------------------------------------------------ C15: the `clear` action on a key absent from base
@extra('C15', 'R15.8', 'the `clear` action builds the same kind of entry on both sides for a key that is ABSENT from base (both sides added it): an addition, never a replacement of a missing key', 1)
def clear_on_absent_key_agrees(ctx, rule):
    from ..tsscan import TsFile
    repo = ctx.repo
    TS = 'packages/nbdime/src/'
    dec = TsFile(repo, TS + 'merge/decisions.ts')
    body = dec.function_body('resolveAction')
    toks = [t.text if t.kind != 'str' else repr(t.value) for t in body]
    # tokens of the `clear` arm: from  a === 'clear'  to the next  a === '<other>'
    try:
        i0 = next(i for i in range(len(toks) - 2) if toks[i] == 'a' and toks[i + 1] == '===' and toks[i + 2] == "'clear'")
    except StopIteration:
        raise AnalysisError("resolveAction (TS): arm a === 'clear' not found")
    i1 = next((i for i in range(i0 + 3, len(toks) - 2) if toks[i] == 'a' and toks[i + 1] == '==='), len(toks))
    arm = toks[i0:i1]
    ts_add = any(t in ('opAdd', 'opAddRange') for t in arm)
    ts_rep = 'opReplace' in arm
    ra = repo.func('nbdime.merging.decisions:resolve_action')
    py_add = py_rep = False
    for n in walk_no_nested(ra):
        if isinstance(n, ast.If) and any(isinstance(c, ast.Constant) and c.value == 'clear' for c in ast.walk(n.test)):
            for c in calls_in(n, nested=False):
                if any(x is c for b in n.body for x in ast.walk(b)):
                    if dotted(c.func) == 'op_add':
                        py_add = True
                    if dotted(c.func) == 'op_replace':
                        py_rep = True
    if not py_rep and not py_add:
        raise AnalysisError('resolve_action (Python): the clear arm was not found')
    ok = py_add == ts_add
    ctx.inst(rule, TS + 'merge/decisions.ts:resolveAction', "clear arm: Python builds %s, TypeScript builds %s" % (
        '/'.join(x for x, b in (('op_add (key absent)', py_add), ('op_replace', py_rep)) if b), '/'.join(x for x, b in (('opAdd', ts_add), ('opReplace', ts_rep)) if b)), ok,
        'same entry kinds on both sides' if ok else
        'for a key that neither base has (a markdown cell converted to code on both sides with different execution_count; any transient field both sides add) Python emits '
        '`add key <cleared>` while the browser builds opReplace(key, makeClearedValue(base[key])) and validateObjectOp throws "Invalid replace key diff op: Missing key": '
        'the server sends a decision list the web merge tool cannot apply', None)


@extra('C15', 'R15.9', 'every path the strategy table clears names a field the schema REQUIRES in at least one alternative of its parent: the browser\'s `clear` arm replaces base[key] '
       'and throws when the key is absent, so a cleared field must normally exist in base', 2)
def cleared_fields_exist_in_base(ctx, rule):
    from ..schema import NbSchema
    from . import c03
    table, transients = c03.strategy_table(ctx)
    sch = NbSchema(5)
    k = 0
    for path, vals in sorted(table.items(), key=str):
        if 'clear' not in vals:
            continue
        k += 1
        parent, field = path.rsplit('/', 1)
        alts = [a for a in sch.at(parent) if isinstance(a, dict)]
        declared = any(field in a.get('properties', {}) for a in alts)
        required = any(field in a.get('required', []) for a in alts)
        ok = declared and required
        ctx.inst(rule, 'nbdime.merging.notebooks:notebook_merge_strategies', 'clear on %s' % path, ok,
                 'required by the schema in some alternative of %s' % parent if ok else
                 '%s is %s: the field is usually absent from base, both sides adding it with different values is the normal conflict, and for that case Python emits `add` while the '
                 'browser\'s clear arm builds a replace of a missing key and throws (R15.8)' % (path, 'optional everywhere' if declared else 'not declared by the schema (free-form)'), None)
    if not k:
        raise AnalysisError('no path with the clear strategy found in the strategy table')


# ------------------------------------------------------------------------------------------------ TS: no `in` operator on JSON documents
@extra('C15', 'R15.10', 'the TypeScript diff/patch/merge code never tests key presence in a JSON document with the `in` operator (it also sees Object.prototype: '
       'a key named "constructor" or "toString" is "present" in every object); Python\'s `in` on a dict has no such keys', 4)
def ts_no_in_operator_on_documents(ctx, rule):
    from ..tsscan import TsFile
    repo = ctx.repo
    TS = 'packages/nbdime/src/'
    files = ['diff/diffentries.ts', 'diff/util.ts', 'patch/generic.ts', 'patch/stringified.ts', 'patch/common.ts', 'merge/decisions.ts', 'common/util.ts']
    for rel in files:
        f = TsFile(repo, TS + rel)
        toks = f.toks if hasattr(f, 'toks') else f.tokens
        hits = []
        depth_for = []
        for i, t in enumerate(toks):
            if t.kind == 'id' and t.text == 'in':
                # `for (let k in obj)` / `for (const k in obj)`: iteration, not a presence test (own-property filtering is a separate matter)
                j = i - 1
                in_for = False
                k = j
                while k >= 0 and k > i - 6:
                    if toks[k].kind == 'id' and toks[k].text == 'for':
                        in_for = True
                    k -= 1
                if not in_for:
                    hits.append(t)
        ctx.inst(rule, TS + rel, '%d `in` presence test(s)' % len(hits), not hits,
                 'none' if not hits else
                 'line %d uses `<key> in <object>` as a presence test: for a key that names a property of Object.prototype (constructor, toString, valueOf, hasOwnProperty, ...) it is true '
                 'for every object, so a Python-produced `add` of such a key is rejected ("Key already present") while Python applies it' % hits[0].line, None)


# ------------------------------------------------------------------------------------------------ renderers: indexing possibly empty line lists
@extra('C16', 'R16.17', 'in the renderers a constant index into the result of .splitlines() (directly or through a local) is taken only after the list was tested non-empty: '
       '"".splitlines() is [] and an empty-string value is valid everywhere the schema allows a string', 1)
def splitlines_index_guarded(ctx, rule):
    from ..cfg import CFG, cond_guards
    from ..util import local_defs, truth_under
    repo = ctx.repo
    mods = ['nbdime.prettyprint'] if ctx.tier == 'quick' else ['nbdime.prettyprint', 'nbdime.nbshowapp', 'nbdime.nbdiffapp', 'nbdime.diff_utils', 'nbdime.merging.strategies']
    n = 0
    for fid, fn in sorted(repo.functions.items()):
        if not any(fid.startswith(m + ':') for m in mods):
            continue
        defs = None
        g = None
        for sub in walk_no_nested(fn):
            if not (isinstance(sub, ast.Subscript) and isinstance(sub.ctx, ast.Load)):
                continue
            idx = sub.slice
            if isinstance(idx, ast.UnaryOp) and isinstance(idx.op, ast.USub):
                idx = idx.operand
            if not (isinstance(idx, ast.Constant) and isinstance(idx.value, int)):
                continue
            v = sub.value
            var = None
            direct = isinstance(v, ast.Call) and isinstance(v.func, ast.Attribute) and v.func.attr == 'splitlines'
            if isinstance(v, ast.Name):
                defs = defs or local_defs(fn)
                ds = defs.get(v.id, [])
                if ds and all(isinstance(d, ast.Call) and isinstance(d.func, ast.Attribute) and d.func.attr == 'splitlines' for d, k, st in ds if k == 'assign') and \
                        any(k == 'assign' for d, k, st in ds) and not any(k in ('mutate', 'aug') for d, k, st in ds):
                    var = v.id
            if not direct and var is None:
                continue
            n += 1
            ok = False
            if var is not None:
                g = g or CFG(fn)
                st = repo.stmt_of(sub)
                isvar = lambda e, _v=var: isinstance(e, ast.Name) and e.id == _v
                lenvar = lambda e, _v=var: isinstance(e, ast.Call) and dotted(e.func) == 'len' and e.args and isinstance(e.args[0], ast.Name) and e.args[0].id == _v
                for t, pol in cond_guards(g, st):
                    if truth_under(t, pol, isvar) is True:
                        ok = True
                    for c in ast.walk(t):
                        if isinstance(c, ast.Compare) and lenvar(c.left) and pol is True and isinstance(c.ops[0], (ast.Gt, ast.GtE, ast.NotEq)):
                            ok = True
                        if isinstance(c, ast.Compare) and lenvar(c.left) and pol is False and isinstance(c.ops[0], (ast.Lt, ast.LtE, ast.Eq)):
                            ok = True
                # earlier conjunct of the same `and` / IfExp test
                p = repo.parent(sub)
                while p is not None and not isinstance(p, ast.stmt):
                    if isinstance(p, ast.BoolOp) and isinstance(p.op, ast.And):
                        for val in p.values:
                            if any(x is sub for x in ast.walk(val)):
                                break
                            if isvar(val):
                                ok = True
                    if isinstance(p, ast.IfExp) and any(x is sub for x in ast.walk(p.body)) and truth_under(p.test, True, isvar) is True:
                        ok = True
                    p = repo.parent(p)
            ctx.inst(rule, fid, repo.norm(sub), ok, 'only after the list was tested non-empty' if ok else
                     'the text can be the empty string ("text/html": "", a metadata value "", an empty traceback line): .splitlines() is then [] and the constant index raises IndexError -- '
                     'rendering aborts for a valid notebook', sub)
    ctx.inst(rule, 'nbdime.prettyprint', '%d constant index(es) into splitlines() results' % n, True, 'each judged above', None, nontrivial=False)


# ------------------------------------------------------------------------------------------------ renderers forward their config
@extra('C16', 'R16.18', 'inside the renderer module a function that received a config passes it on to every helper that takes one: a helper called without it falls back to the '
       'module-wide DefaultConfig (colour ON, stdout), whatever the caller asked for', 20)
def renderers_forward_config(ctx, rule):
    repo, cg = ctx.repo, ctx.cg
    PP = 'nbdime.prettyprint'
    n = 0
    for fid, fn in sorted(repo.functions.items()):
        if not fid.startswith(PP + ':'):
            continue
        ps = [a.arg for a in fn.args.args + fn.args.kwonlyargs]
        has_cfg = 'config' in ps or (ps[:1] == ['self'] and '.' in fid.split(':')[1])
        if 'config' not in ps:
            continue
        for c in calls_in(fn, nested=False):
            for t in cg.resolve(c.func, fn):
                if t[0] != 'func' or not t[1].startswith(PP + ':') or t[1] not in repo.functions:
                    continue
                callee = repo.functions[t[1]]
                cps = [a.arg for a in callee.args.args]
                if 'config' not in cps:
                    continue
                pos = cps.index('config')
                if isinstance(repo.parent(callee), ast.ClassDef):
                    continue
                given = len(c.args) > pos or any(k.arg == 'config' for k in c.keywords) or any(k.arg is None for k in c.keywords) or any(isinstance(a, ast.Starred) for a in c.args)
                n += 1
                ctx.inst(rule, fid, repo.norm(c)[:90], given, 'config forwarded' if given else
                         '%s takes a config (default: the module-wide DefaultConfig, colour on) but is called without the caller\'s: its output ignores use_color / the output stream / '
                         'the ignore options -- ANSI codes appear with colour disabled' % t[1].split(':')[1], c, nontrivial=False)
                break
    # ... and a function that was GIVEN a config never reads the module-wide default instead (what a helper called without it would do)
    for fid, fn in sorted(repo.functions.items()):
        if not fid.startswith(PP + ':') or 'config' not in [a.arg for a in fn.args.args + fn.args.kwonlyargs]:
            continue
        body_reads = [x for st in fn.body for x in ast.walk(st) if isinstance(x, ast.Name) and x.id == 'DefaultConfig' and isinstance(x.ctx, ast.Load)]
        if body_reads:
            ctx.inst(rule, fid, 'reads DefaultConfig in its body', False,
                     'the function has the caller\'s config but takes a setting from the module-wide DefaultConfig (colour on, stdout): with colour disabled its output still carries ANSI codes', body_reads[0])
    if n < 20:
        raise AnalysisError('fewer than 20 config-taking helper calls found in the renderer module')


# ------------------------------------------------------------------------------------------------ web handlers: no class-level mutable state
@extra('C20', 'R20.13', 'request handler classes keep no mutable container at class level that methods write through self (one object shared by every handler, request and '
       'application in the process: parameters of one server would leak into the next)', 4)
def handlers_no_shared_class_state(ctx, rule):
    from . import c16
    c16.shared_class_state(ctx, rule, ['nbdime.webapp'])


# ------------------------------------------------------------------------------------------------ sub-command parsers are config backed too
@extra('C19', 'R19.10', 'sub-command parsers read the configuration like the top-level parser: ConfigBackedParser does not hand argparse another parser_class for its sub-parsers, '
       'and no add_subparsers/add_parser call on the command path passes a plain parser class', 1)
def subparsers_config_backed(ctx, rule):
    repo = ctx.repo
    cls = repo.cls('nbdime.args:ConfigBackedParser')
    ov = [f for f in cls.body if isinstance(f, ast.FunctionDef) and f.name in ('add_subparsers',)]
    bad = None
    for f in ov:
        for n in ast.walk(f):
            if isinstance(n, ast.Constant) and n.value == 'parser_class':
                bad = f
            if isinstance(n, ast.keyword) and n.arg == 'parser_class':
                bad = f
    ctx.inst(rule, 'nbdime.args:ConfigBackedParser', 'add_subparsers %s' % ('overridden with a parser_class' if bad else 'inherited' if not ov else 'overridden, parser_class untouched'), bad is None,
             'argparse creates sub-parsers of type(self): they resolve the configuration too' if bad is None else
             'sub-command parsers become plain parsers: argparse parses a sub-command into a fresh namespace built from the SUB-parser\'s defaults and copies it over the parent\'s, so for '
             'every option a sub-command defines the built-in default beats every configuration section (git drivers and tools: `git-nbdiffdriver diff`, `git-nbmergedriver merge`)', bad or cls)
    k = 0
    for fid, fn in sorted(repo.functions.items()):
        if not fid.startswith('nbdime.'):
            continue
        for c in calls_in(fn, nested=False):
            if isinstance(c.func, ast.Attribute) and c.func.attr == 'add_subparsers':
                k += 1
                pc = [kw for kw in c.keywords if kw.arg == 'parser_class']
                ok = not pc or (dotted(pc[0].value) or '').endswith('ConfigBackedParser')
                ctx.inst(rule, fid, repo.norm(c)[:80], ok, 'sub-parsers are config backed' if ok else 'sub-parsers created with a plain parser class ignore the configuration', c)


# ------------------------------------------------------------------------------------------------ the output file name is resolved against the server's cwd only
@extra('C20', 'R20.14', 'file names in the server parameters are resolved in one place, against the server\'s `cwd` parameter (join(curdir, name)): nothing in the web application rewrites '
       'params[\'outputfilename\'] or makes a parameter path absolute against the PROCESS directory (abspath/realpath/getcwd)', 2)
def server_paths_resolved_against_cwd_param(ctx, rule):
    repo = ctx.repo
    n = 0
    for fid, fn in sorted(repo.functions.items()):
        if not fid.startswith('nbdime.webapp.nbdimeserver:'):
            continue
        n += 1
        bad = []
        for x in walk_no_nested(fn):
            if isinstance(x, ast.Subscript) and isinstance(x.ctx, ast.Store) and const_val(x.slice) in ('outputfilename', 'cwd') and isinstance(x.value, (ast.Name, ast.Attribute)) and \
                    (dotted(x.value) or '').split('.')[-1] in ('params', 'kwargs', 'settings'):
                st_ = repo.stmt_of(x)
                v_ = st_.value if isinstance(st_, ast.Assign) else None
                joins_cwd = isinstance(v_, ast.Call) and dotted(v_.func) in ('os.path.join', 'join') and v_.args and \
                    any(isinstance(c, ast.Constant) and c.value == 'cwd' for c in ast.walk(v_.args[0]))
                if not joins_cwd:
                    bad.append((x, 'rewrites params[%r]' % const_val(x.slice)))
            if isinstance(x, ast.Call) and dotted(x.func) in ('os.path.abspath', 'os.path.realpath', 'os.getcwd', 'abspath', 'realpath', 'os.path.expanduser') and \
                    any(isinstance(c, ast.Constant) and c.value in ('outputfilename',) for a in x.args for c in ast.walk(a)):
                bad.append((x, 'makes the output file name absolute against the process directory'))
        for x, what in bad:
            ctx.inst(rule, fid, repo.norm(repo.stmt_of(x))[:90], False,
                     '%s: the store handler joins the name onto the server\'s working directory (`cwd` parameter, -w); an absolute name makes that join a no-op, so with a working '
                     'directory different from the process directory /api/store answers 200 but writes somewhere else' % what, x)
    ctx.inst(rule, 'nbdime.webapp.nbdimeserver', '%d function(s) examined' % n, n >= 10, 'no rewriting of path parameters besides those reported', None, nontrivial=n > 0)
    ctx.inst(rule, 'nbdime.webapp.nbdimeserver', 'path parameters are read-only after start-up', True, 'see above', None)


# ------------------------------------------------------------------------------------------------ a replacement names a present key
@extra('C11', 'R11.10', 'a `replace` entry built by the merge code for a variable key is backed by evidence that the key is present in the object it will be applied to '
       '(membership guard, an earlier subscript lookup with that key, or a constant key asserted/required): a replacement of an absent key is not a well-formed diff', 3)
def replace_names_present_key(ctx, rule):
    from ..cfg import CFG, cond_guards
    repo = ctx.repo
    n = 0
    for fid, fn in sorted(repo.functions.items()):
        if not fid.startswith('nbdime.merging.'):
            continue
        g = None
        for c in calls_in(fn, nested=False):
            if not (dotted(c.func) == 'op_replace' and c.args):
                continue
            n += 1
            k = c.args[0]
            if isinstance(k, ast.Constant):
                # constant key: a membership guard on that constant, or nothing to say (fixed schema field)
                ctx.inst(rule, fid, repo.norm(c)[:80], True, 'constant key', c, nontrivial=False)
                continue
            ktxt = ast.unparse(k)
            g = g or CFG(fn)
            st = repo.stmt_of(c)
            ev = None
            for t, pol in cond_guards(g, st):
                for cmp_ in ast.walk(t):
                    if isinstance(cmp_, ast.Compare) and len(cmp_.ops) == 1 and ast.unparse(cmp_.left) == ktxt:
                        if isinstance(cmp_.ops[0], ast.In) and pol is True:
                            ev = 'under `%s`' % ast.unparse(cmp_)
                        if isinstance(cmp_.ops[0], ast.NotIn) and pol is False:
                            ev = 'after the `%s` case was sent elsewhere' % ast.unparse(cmp_)
            if ev is None:
                # subscript lookup X[K] (Load) in a statement that dominates the call, or an assert K == <const>
                for x in walk_no_nested(fn):
                    if isinstance(x, ast.Subscript) and isinstance(x.ctx, ast.Load) and ast.unparse(x.slice) == ktxt and isinstance(x.value, ast.Name) and \
                            x.value.id in {a.arg for a in fn.args.args}:
                        # (only a lookup in an object the function was GIVEN says something about the document; a local index built from the diffs does not)
                        xs = repo.stmt_of(x)
                        if xs is st or g.dominated_by(st, [xs]):
                            ev = 'after the lookup `%s`' % ast.unparse(x)[:40]
                            break
                    if isinstance(x, ast.Assert) and isinstance(x.test, ast.Compare) and ast.unparse(x.test.left) == ktxt and isinstance(x.test.comparators[0], ast.Constant) and \
                            g.dominated_by(st, [x]):
                        ev = 'key asserted to be the constant %r' % x.test.comparators[0].value
                        break
            ctx.inst(rule, fid, repo.norm(c)[:80], ev is not None, ev or
                     'nothing establishes that %s is a key of the object this diff is applied to: when both sides ADDED it (absent from base) the decision carries `replace <absent key>` '
                     '-- Python\'s patch tolerates it, the format and the browser\'s validator do not' % ktxt, c)
    if n < 4:
        raise AnalysisError('fewer than 4 op_replace sites found in the merge package')


# ------------------------------------------------------------------------------------------------ lifting a diff to an outer level
@extra('C11', 'R11.11', 'when a diff is lifted to an outer level it is wrapped in patch entries from the INNERMOST remaining key outwards (the wrapping loop runs over the remaining '
       'path reversed): the outermost patch must carry the first remaining key', 1)
def lifted_diffs_nest_outermost_first(ctx, rule):
    repo = ctx.repo
    fid = 'nbdime.merging.strategies:adjust_patch_level'
    fn = repo.func(fid)
    verdict, node, why = None, fn, ''

    def order_of(seq):
        if isinstance(seq, ast.Call) and dotted(seq.func) == 'reversed':
            return 'reversed'
        if isinstance(seq, ast.Subscript) and isinstance(seq.slice, ast.Slice) and seq.slice.step is not None and ast.unparse(seq.slice.step).replace(' ', '') == '-1':
            return 'reversed'
        if isinstance(seq, (ast.Subscript, ast.Name, ast.Attribute)):
            return 'forward'
        return None
    for n in walk_no_nested(fn):
        if isinstance(n, ast.For) and any(dotted(c.func) == 'op_patch' for c in calls_in(n)):
            verdict, node = order_of(n.iter), n
        if isinstance(n, ast.Call) and (dotted(n.func) or '').split('.')[-1] == 'reduce' and len(n.args) >= 2 and \
                any(isinstance(c, ast.Call) and dotted(c.func) == 'op_patch' for c in ast.walk(n.args[0])):
            verdict, node = order_of(n.args[1]), n
    if verdict is None:
        ctx.inst(rule, fid, 'wrapping construct not recognised', True, 'not judged (neither a for loop nor a reduce over the remaining path)', fn, nontrivial=False)
        return
    ok = verdict == 'reversed'
    ctx.inst(rule, fid, repo.norm(node)[:100], ok, 'innermost key first' if ok else
             'the remaining path is walked front to back, so the FIRST remaining key ends up innermost: a decision two or more levels below the target (outputs/0/text/1) is lifted as '
             'patch 1 -> patch "text" -> patch 0 -- keys at the wrong level, indices out of bounds in the decision\'s local/remote diffs', node)


# ------------------------------------------------------------------------------------------------ rules of one property that are necessary conditions of another
@extra('C02', 'R02.16', 'a nested list patch is keyed by the index IN A of the item its sub-diff was computed from (C11 R11.5): sequence keys are relative to the first document', 1)
def c02_nested_patch_keys(ctx, rule):
    from ..report import run_sub
    from . import c11
    run_sub(ctx, c11, {'R11.5': rule})


@extra('C01', 'R01.16', 'a nested list patch is keyed by the index IN A of the item its sub-diff was computed from (C11 R11.5)', 1)
def c01_nested_patch_keys(ctx, rule):
    from ..report import run_sub
    from . import c11
    run_sub(ctx, c11, {'R11.5': rule})


@extra('C03', 'R03.26', 'one line model (C07 R07.8): the string merger counts lines exactly as the differ that produced the line keys (else chunk boundaries fall outside the base: AssertionError)', 4)
def c03_line_model(ctx, rule):
    from ..report import run_sub
    from . import c07
    run_sub(ctx, c07, {'R07.8': rule})


# ------------------------------------------------------------------------------------------------ no strategy deletes a required field
@extra('C04', 'R04.9', 'no (path -> strategy) pair of the strategy table resolves a conflict by DELETING a field the schema requires: a strategy whose tryresolve arm yields the '
       '`remove` action is not mapped to a required field', 1)
def no_remove_of_required_field(ctx, rule):
    from ..schema import NbSchema
    from . import c03
    repo = ctx.repo
    tr = repo.func('nbdime.merging.decisions:MergeDecisionBuilder.tryresolve')
    # strategies for which tryresolve produces action "remove"
    removing = set()
    for n in walk_no_nested(tr):
        if isinstance(n, ast.If):
            consts = [c.value for c in ast.walk(n.test) if isinstance(c, ast.Constant) and isinstance(c.value, str)]
            sets_remove = any(isinstance(a, ast.Assign) and const_val(a.value) == 'remove' for b in n.body for a in ast.walk(b) if isinstance(a, ast.Assign)) or \
                any(isinstance(c, ast.Call) and isinstance(c.func, ast.Attribute) and c.func.attr == 'remove' and dotted(c.func.value) == 'self' for b in n.body for c in ast.walk(b))
            if sets_remove:
                removing |= set(consts)
    table, transients = c03.strategy_table(ctx)
    sch = NbSchema(5)
    k = 0
    for path, vals in sorted(table.items(), key=str):
        hit = sorted(v for v in vals if isinstance(v, str) and v in removing)
        if not (vals & {'remove'}) and not hit:
            continue
        k += 1
        parent, field = path.rsplit('/', 1)
        alts = [a for a in sch.at(parent) if isinstance(a, dict)]
        required = any(field in a.get('required', []) for a in alts)
        ok = not (hit and required)
        ctx.inst(rule, 'nbdime.merging.notebooks:notebook_merge_strategies', '%s -> %s; tryresolve arms yielding `remove`: %s' % (path, sorted(map(str, vals)), sorted(removing) or 'none'), ok,
                 ('the strategy has no resolving arm (the conflict stays open and the base value is kept)' if not hit else 'the field is optional') if ok else
                 'a conflict on %s is resolved by removing the field, which the schema REQUIRES (cell ids in 4.5): both sides give a cell a new id -> the merged cell has no id, the notebook '
                 'fails validation, and no conflict is reported' % path, tr)
    if not k:
        ctx.inst(rule, 'nbdime.merging.notebooks:notebook_merge_strategies', 'no path is mapped to a removing strategy', True, 'nothing to check', None)


@extra('C14', 'R14.15', 'installing the ignore options keeps no memo of its own (C12 R12.1: nothing on the option/diff path writes module-level state): whether an ignore is in force is '
       'read from the differ table, which other calls rewrite, never from a record of what was requested earlier', 8)
def c14_no_installation_memo(ctx, rule):
    from ..report import run_sub
    from . import c12
    run_sub(ctx, c12, {'R12.1': rule})


# ------------------------------------------------------------------------------------------------ git mode: the base side is a revision
@extra('C17', 'R17.10', 'when the arguments turn out to be paths only, the base revision is HEAD on every arm: resolve_diff_args never sets the BASE to None, which downstream means '
       '"working tree" (the base side of every pair would be read from disk and each notebook compared with itself)', 1)
def base_is_never_the_working_tree(ctx, rule):
    repo = ctx.repo
    fid = 'nbdime.args:resolve_diff_args'
    fn = repo.func(fid)
    basevar = None
    for st in walk_no_nested(fn):
        if isinstance(st, ast.Assign) and isinstance(st.value, ast.Attribute) and st.value.attr == 'base' and isinstance(st.targets[0], ast.Name):
            basevar = st.targets[0].id
    if basevar is None:
        raise AnalysisError('resolve_diff_args: local holding args.base not found')
    gr = repo.module_assign('nbdime.gitfiles', 'GitRefWorkingTree')
    wt_is_none = gr is not None and const_val(gr) is None
    k = 0
    for st in walk_no_nested(fn):
        if not isinstance(st, ast.Assign) or isinstance(st.value, ast.Attribute):
            continue
        vals = []
        for t in st.targets:
            if isinstance(t, ast.Name) and t.id == basevar:
                vals.append(st.value)
            if isinstance(t, ast.Tuple) and isinstance(st.value, ast.Tuple) and len(t.elts) == len(st.value.elts):
                vals += [v for e, v in zip(t.elts, st.value.elts) if isinstance(e, ast.Name) and e.id == basevar]
        for val in vals:
            k += 1
            ok = not (isinstance(val, ast.Constant) and val.value is None and wt_is_none)
            ctx.inst(rule, fid, repo.norm(st), ok, 'a revision' if ok else
                     'base is set to None, the value gitfiles uses for the WORKING TREE (GitRefWorkingTree): changed_notebooks diffs HEAD against the working tree, but '
                     '_get_diff_entry_stream opens the base side from disk too -- `nbdiff a.ipynb b.ipynb c.ipynb` (what the shell makes of `nbdiff *.ipynb`) compares every notebook with '
                     'itself and prints nothing', st)
    # guard-clause form: the base is given as the first element of a returned tuple
    for st in walk_no_nested(fn):
        if isinstance(st, ast.Return) and isinstance(st.value, ast.Tuple) and len(st.value.elts) == 3 and not (isinstance(st.value.elts[0], ast.Name) and st.value.elts[0].id == basevar):
            k += 1
            val = st.value.elts[0]
            ok = not (isinstance(val, ast.Constant) and val.value is None and wt_is_none)
            ctx.inst(rule, fid, repo.norm(st), ok, 'a revision' if ok else
                     'the base is returned as None, the value gitfiles uses for the WORKING TREE (GitRefWorkingTree): every notebook would be compared with itself', st)
    if not k:
        raise AnalysisError('resolve_diff_args: no re-assignment of the base revision found')


# ------------------------------------------------------------------------------------------------ git filters on the working-tree side
@extra('C17', 'R17.11', 'applying the clean filter to a working-tree file cannot abort the listing: the call that opens the file for the filter sits inside the same '
       '"cannot open => deleted" handler as the plain open, and a filter command that fails is treated as pass-through (git does that for non-required filters)', 2)
def filters_cannot_abort_listing(ctx, rule):
    repo, cg = ctx.repo, ctx.cg
    GF = 'nbdime.gitfiles'
    fn = repo.func(GF + ':_get_diff_entry_stream')
    BROAD = {'OSError', 'IOError', 'EnvironmentError', 'Exception', 'BaseException'}
    calls = [c for c in calls_in(fn, nested=False) if any(t[0] == 'func' and t[1].endswith(':apply_possible_filter') for t in cg.resolve(c.func, fn))]
    if not calls:
        raise AnalysisError('_get_diff_entry_stream: apply_possible_filter call not found')
    apf = repo.func('nbdime.vcs.git.filter_integration:apply_possible_filter')
    # does apply_possible_filter itself tolerate a missing file?
    own_guard = False
    for c in calls_in(apf, nested=False):
        if dotted(c.func) in ('io.open', 'open'):
            tr = repo.parent(repo.stmt_of(c))
            while tr is not None and not isinstance(tr, ast.Try):
                tr = repo.parent(tr)
            if tr is not None and any(h.type is None or set(dotted(e) for e in (h.type.elts if isinstance(h.type, ast.Tuple) else [h.type])) & BROAD for h in tr.handlers):
                own_guard = True
    for c in calls:
        tr = repo.parent(repo.stmt_of(c))
        while tr is not None and not (isinstance(tr, ast.Try) and any(x is c for b in tr.body for x in ast.walk(b))):
            tr = repo.parent(tr)
        caught = tr is not None and any(h.type is None or set(dotted(e) for e in (h.type.elts if isinstance(h.type, ast.Tuple) else [h.type])) & BROAD for h in tr.handlers)
        ok = caught or own_guard
        ctx.inst(rule, GF + ':_get_diff_entry_stream', repo.norm(c), ok,
                 'a file that cannot be opened for the filter is a deletion too' if ok else
                 'apply_possible_filter opens the working-tree file itself and is called OUTSIDE the try that maps "cannot open" to the null file: with a clean filter configured '
                 '(nbstripout) and a notebook deleted from the working tree, FileNotFoundError aborts the listing and no notebook is examined', c)
    runs = [c for c in calls_in(apf, nested=False) if dotted(c.func) in ('check_output', 'subprocess.check_output', 'check_call') and
            not (c.args and isinstance(c.args[0], ast.List))]
    if not runs:
        raise AnalysisError('apply_possible_filter: the call running the filter command was not found')
    for c in runs:
        tr = repo.parent(repo.stmt_of(c))
        while tr is not None and not (isinstance(tr, ast.Try) and any(x is c for b in tr.body for x in ast.walk(b))):
            tr = repo.parent(tr)
        names = set()
        if tr is not None:
            for h in tr.handlers:
                names |= {'BaseException'} if h.type is None else {dotted(e) for e in (h.type.elts if isinstance(h.type, ast.Tuple) else [h.type])}
        ok = bool(names & {'CalledProcessError', 'subprocess.CalledProcessError', 'Exception', 'BaseException', 'SubprocessError'})
        ctx.inst(rule, 'nbdime.vcs.git.filter_integration:apply_possible_filter', repo.norm(c)[:70], ok,
                 'a failing filter command falls back to the unfiltered file' if ok else
                 'a clean filter that is not installed on this machine (exit 127) or exits non-zero raises CalledProcessError out of changed_notebooks: nothing is examined, '
                 'while git treats a failing non-required filter as pass-through and shows the change', c)


@extra('C17', 'R17.12', 'a path handed to git on a command line is separated from the options by `--` (a notebook named "-x.ipynb" is otherwise parsed as an option: '
       'git exits 129 and the failure is read as "no filter")', 1)
def git_paths_after_double_dash(ctx, rule):
    repo = ctx.repo
    n = 0
    for fid, fn in sorted(repo.functions.items()):
        if not fid.startswith(('nbdime.vcs.git.', 'nbdime.gitfiles')):
            continue
        for c in calls_in(fn, nested=False):
            if dotted(c.func) not in ('check_output', 'check_call', 'subprocess.check_output', 'subprocess.check_call', 'Popen', 'subprocess.Popen', 'call'):
                continue
            argv = c.args[0] if c.args else None
            if isinstance(argv, ast.Name):       # the argument list bound once to a local
                ds = [x.value for x in walk_no_nested(fn) if isinstance(x, ast.Assign) and len(x.targets) == 1 and isinstance(x.targets[0], ast.Name) and x.targets[0].id == argv.id]
                argv = ds[0] if len(ds) == 1 else None
            if not (isinstance(argv, ast.List) and argv.elts and const_val(argv.elts[0]) == 'git'):
                continue
            elts = argv.elts
            var_paths = [i for i, e in enumerate(elts) if isinstance(e, ast.Name) and ('path' in e.id.lower() or 'file' in e.id.lower())]
            if not var_paths:
                continue
            n += 1
            dd = [i for i, e in enumerate(elts) if const_val(e) == '--']
            ok = bool(dd) and dd[0] < var_paths[0]
            ctx.inst(rule, fid, repo.norm(c)[:90], ok, '`--` precedes the path' if ok else
                     'the path argument follows the options without `--`: a file whose name starts with "-" is taken for an option', c)
    if not n:
        raise AnalysisError('no git command line with a path variable found (git check-attr in interrogate_filter expected)')


@extra('C17', 'R17.13', 'on the working-tree side git\'s verdict "deleted" decides, not the disk: what git reports about the entry (deleted_file / change_type / b_mode) reaches the '
       'function that opens the file, and the open is guarded by it (`git rm --cached` leaves the file on disk)', 2)
def worktree_side_honours_git_deletion(ctx, rule):
    from ..cfg import CFG, cond_guards
    repo, cg = ctx.repo, ctx.cg
    GF = 'nbdime.gitfiles'
    cn = repo.func(GF + ':changed_notebooks')
    gs = repo.func(GF + ':_get_diff_entry_stream')
    calls = [c for c in calls_in(cn, nested=False) if ('func', GF + ':_get_diff_entry_stream') in cg.resolve(c.func, cn)]
    if len(calls) < 2:
        raise AnalysisError('changed_notebooks: the two _get_diff_entry_stream calls were not found')
    FLAGS = {'deleted_file', 'change_type', 'b_mode', 'new_file', 'a_mode'}
    bcall = [c for c in calls if any(isinstance(x, ast.Attribute) and x.attr == 'b_path' for x in ast.walk(c))]
    # (if no call mentions b_path the pairing itself is broken -- R17.2 reports that; judge the second call here)
    c = bcall[0] if bcall else calls[1]
    flag_args = [(i, a) for i, a in enumerate(list(c.args) + [k.value for k in c.keywords]) if any(isinstance(x, ast.Attribute) and x.attr in FLAGS for x in ast.walk(a))]
    ok1 = bool(flag_args)
    ctx.inst(rule, GF + ':changed_notebooks', repo.norm(c)[:100], ok1, 'git\'s change type is passed along' if ok1 else
             'nothing git says about the entry besides path and blob reaches the stream function: a working-tree blob is always None, so "deleted" cannot be told from "modified" '
             'and the file on disk decides -- after `git rm --cached nb.ipynb` git reports D, nbdime shows the file as (un)modified', c)
    # the open on the working-tree arm is guarded by a parameter other than path/blob/ref/repo_dir
    ps = [a.arg for a in gs.args.args]
    extra_params = set(ps[4:]) | {a.arg for a in gs.args.kwonlyargs}
    g = CFG(gs)
    opens = [o for o in calls_in(gs, nested=False) if dotted(o.func) in ('io.open', 'open')]
    for o in opens:
        st = repo.stmt_of(o)
        guards = cond_guards(g, st)
        ok2 = any(any(isinstance(x, ast.Name) and x.id in extra_params for x in ast.walk(t)) for t, pol in guards)
        ctx.inst(rule, GF + ':_get_diff_entry_stream', repo.norm(o)[:80], ok2 or not ok1 and False, 'reached only when git did not report the entry as deleted' if ok2 else
                 'the working-tree file is opened whatever git reported for the entry', o)


# =================================================================================================== round 5 triage
@extra('C02', 'R02.17', 'the mapping differ never tests the VALUES of the two documents by truthiness: null, false, 0, 0.0, "", [] and {} are seven different JSON values that are all falsy', 1)
@extra('C01', 'R01.18', 'the mapping differ never tests the VALUES of the two documents by truthiness: null, false, 0, 0.0, "", [] and {} are seven different JSON values that are all falsy', 1)
def differ_values_not_tested_by_truthiness(ctx, rule):
    from ..keys import truth_uses
    from ..util import local_defs
    repo = ctx.repo
    n = 0
    for fid in ('nbdime.diffing.generic:diff_dicts', 'nbdime.diffing.generic:diff_lists', 'nbdime.diffing.notebooks:diff_mime_bundle',
                'nbdime.diffing.notebooks:diff_attachments', 'nbdime.diffing.notebooks:add_mime_diff'):
        if fid not in repo.functions:
            continue
        fn = repo.functions[fid]
        ps = [a.arg for a in fn.args.args]
        docs = set(ps[:2]) if not fid.endswith('add_mime_diff') else set()
        defs = local_defs(fn)
        vals = set(ps[1:3]) if fid.endswith('add_mime_diff') else set()
        for nm, ds in defs.items():
            for v, k, st in ds:
                if k == 'assign' and isinstance(v, ast.Subscript) and isinstance(v.value, ast.Name) and v.value.id in docs:
                    vals.add(nm)
        bad = [e for e in truth_uses(fn) if isinstance(e, ast.Name) and e.id in vals]
        n += 1
        ctx.inst(rule, fid, 'value names %s: %d truthiness test(s)' % (sorted(vals), len(bad)), not bad,
                 'values are only compared, never tested for truth' if not bad else
                 '`%s` is a value taken out of one of the documents and is tested by truthiness (%s): two DIFFERENT falsy values under one key -- null vs [], false vs 0, "" vs {} -- '
                 'take the same branch, so the diff is empty and patch(a, diff) returns a instead of b' % (bad[0].id, repo.norm(repo.stmt_of(bad[0]))[:60]), bad[0] if bad else fn)
    if n < 3:
        raise AnalysisError('mapping/list differs not found')


@extra('C12', 'R12.10', 'a value looked up in the predicate/differ tables (a list shared by every later call) is never modified in place: no del/append/sort/slice-assignment on it', 2)
def table_values_not_mutated(ctx, rule):
    from ..util import local_defs
    repo = ctx.repo
    MUT = {'append', 'extend', 'insert', 'remove', 'pop', 'clear', 'sort', 'reverse'}
    n = 0
    for fid, fn in sorted(repo.functions.items()):
        if not fid.startswith(('nbdime.diffing.', 'nbdime.merging.')):
            continue
        defs = local_defs(fn)
        tv = set()
        for nm, ds in defs.items():
            for v, k, st in ds:
                if k == 'assign' and isinstance(v, ast.Subscript) and isinstance(v.value, ast.Attribute) and v.value.attr in ('predicates', 'differs'):
                    tv.add(nm)
        if not tv:
            continue
        n += 1
        bad = []
        for x in walk_no_nested(fn):
            if isinstance(x, ast.Delete):
                for t in x.targets:
                    if isinstance(t, ast.Subscript) and isinstance(t.value, ast.Name) and t.value.id in tv:
                        bad.append((x, 'del %s[...]' % t.value.id))
            if isinstance(x, ast.Subscript) and isinstance(x.ctx, ast.Store) and isinstance(x.value, ast.Name) and x.value.id in tv:
                bad.append((x, '%s[...] = ...' % x.value.id))
            if isinstance(x, ast.AugAssign) and isinstance(x.target, ast.Name) and x.target.id in tv:
                bad.append((x, '%s %s= ...' % (x.target.id, type(x.op).__name__)))
            if isinstance(x, ast.Call) and isinstance(x.func, ast.Attribute) and x.func.attr in MUT and isinstance(x.func.value, ast.Name) and x.func.value.id in tv:
                bad.append((x, '%s.%s(...)' % (x.func.value.id, x.func.attr)))
        ctx.inst(rule, fid, 'table values %s' % sorted(tv), not bad, 'read only' if not bad else
                 '%s modifies the list held by the process-wide table (for /cells it is the ONE list stored in notebook_predicates): every later diff and merge in the process sees '
                 'the shortened/changed list, and resetting the ignore options does not bring it back' % bad[0][1], bad[0][0] if bad else fn)
    if n < 2:
        raise AnalysisError('no function reading the predicate/differ tables into a local found')


@extra('C14', 'R14.16', 'no function whose answer depends on the (mutable, process-wide) differ/predicate tables is memoised: an lru_cache keyed by (config, path) keeps the first answer '
       'while the ignore options rewrite the table in place', 1)
@extra('C12', 'R12.11', 'no function whose answer depends on the (mutable, process-wide) differ/predicate tables is memoised: an lru_cache keyed by (config, path) keeps the first answer '
       'while the ignore options rewrite the table in place', 1)
def table_readers_not_memoised(ctx, rule):
    repo = ctx.repo
    n = 0
    for fid, fn in sorted(repo.functions.items()):
        if not fid.startswith('nbdime.diffing.'):
            continue
        reads = any(isinstance(x, ast.Attribute) and x.attr in ('differs', 'predicates') for x in ast.walk(fn)) or \
            any(isinstance(x, ast.Name) and x.id in ('notebook_differs', 'notebook_predicates') and isinstance(x.ctx, ast.Load) for x in ast.walk(fn))
        if not reads:
            continue
        n += 1
        memo = [d for d in fn.decorator_list if any(isinstance(x, (ast.Name, ast.Attribute)) and (getattr(x, 'id', None) or getattr(x, 'attr', None)) in ('lru_cache', 'cache', 'memoize', 'cached')
                                                      for x in ast.walk(d))]
        ctx.inst(rule, fid, 'reads the option tables; memoised: %s' % ('yes' if memo else 'no'), not memo, 'evaluated on every call' if not memo else
                 'the result is cached per argument tuple, but it depends on what the table holds NOW: after the ignore options change (or are reset) the cached answer of the '
                 'earlier configuration is returned -- an ignored field is reported, or a change in a field that is no longer ignored is dropped', memo[0] if memo else fn)
    if n < 4:
        raise AnalysisError('fewer than 4 functions reading the option tables found')


@extra('C05', 'R05.10', 'both sides are always diffed against base (C09 R09.9): a side that compares == to base may still differ from it in the type of a number', 2)
def c05_both_sides_diffed(ctx, rule):
    from ..report import run_sub
    from . import c09
    run_sub(ctx, c09, {'R09.9': rule})


@extra('C06', 'R06.1', 'merge_notebooks returns exactly (apply_decisions(base, decisions), decisions) (C05 R05.8): no post-processing drops content neither side touched', 2)
def c06_merged_is_applied(ctx, rule):
    _merged_is_applied_decisions(ctx, rule)


@extra('C18', 'R18.11', 'enabling a driver registers it in the git configuration on every path that goes on to the attributes file: no return that follows the repository check '
       'precedes the `git config <section>.* ...` writes (an attributes file that already routes *.ipynb must not skip the registration)', 2)
def driver_registered_before_any_return(ctx, rule):
    from ..cfg import CFG
    repo = ctx.repo
    for short, mod in (('diffdriver', 'nbdime.vcs.git.diffdriver'), ('mergedriver', 'nbdime.vcs.git.mergedriver')):
        fid = mod + ':enable'
        fn = repo.func(fid)
        g = CFG(fn)
        regs = [repo.stmt_of(c) for c in calls_in(fn, nested=False) if dotted(c.func) in ('check_call', 'subprocess.check_call') and
                any(isinstance(k, ast.Constant) and isinstance(k.value, str) and 'jupyternotebook' in k.value for k in ast.walk(c))]
        if not regs:
            raise AnalysisError('%s: registration of the driver (git config ... jupyternotebook ...) not found' % fid)
        # returns that are not inside an except handler (the "not in a git repository" exits) and not dominated by every registration
        bad = []
        for r in [x for x in walk_no_nested(fn) if isinstance(x, ast.Return)]:
            if repo.enclosing(r, (ast.ExceptHandler,)) is not None:
                continue
            guards_none = any(isinstance(t, ast.Compare) and isinstance(t.ops[0], ast.Is) and const_val(t.comparators[0]) is None for t in
                              [getattr(repo.enclosing(r, (ast.If,)), 'test', None)] if t is not None)
            if not all(g.dominated_by(r, [rg]) for rg in regs):
                bad.append((r, guards_none))
        bad = [b for b in bad]
        ctx.inst(rule, fid, '%d registration call(s); returns not preceded by them: %d' % (len(regs), len(bad)), not bad,
                 'the driver is registered before the attributes file is looked at' if not bad else
                 '`%s` can be reached before the driver is registered: when the attributes file already routes *.ipynb to the driver (after enable; disable; enable -- disable keeps the '
                 'attributes line) the registration is skipped, so git is told to use a driver that is not configured' % repo.norm(bad[0][0]), bad[0][0] if bad else fn)


@extra('C08', 'R08.12', 'low-level writes on the command path check how much was written: the result of os.write is not discarded (a short write -- disk full, quota, file size limit -- '
       'would leave truncated JSON behind a zero exit status)', 0)
def os_write_result_checked(ctx, rule):
    repo = ctx.repo
    n = 0
    for fid, fn in sorted(repo.functions.items()):
        if not fid.startswith(('nbdime.nbmergeapp', 'nbdime.utils', 'nbdime.vcs.git.mergedriver', 'nbdime.nbdiffapp', 'nbdime.nbpatchapp')):
            continue
        for c in calls_in(fn, nested=False):
            if dotted(c.func) in ('os.write', 'os.pwrite'):
                n += 1
                st = repo.stmt_of(c)
                ok = not (isinstance(st, ast.Expr) and st.value is c)
                ctx.inst(rule, fid, repo.norm(c)[:70], ok, 'the byte count is used' if ok else
                         'os.write may write fewer bytes than given and says so only through its return value, which is discarded here: the output is silently truncated and the '
                         'command still exits 0', c)
    ctx.inst(rule, 'nbdime (command path)', '%d os.write call(s)' % n, True, 'each judged above', None, nontrivial=False)


@extra('C09', 'R09.17', 'the decisions file is dumped in a form that cannot fail half way through the stream: json.dump of the decisions keeps ensure_ascii (a lone surrogate in notebook '
       'text raises UnicodeEncodeError in the middle of a utf8 stream and leaves a truncated, unparsable file)', 1)
def decisions_dump_ascii(ctx, rule):
    repo = ctx.repo
    fid = 'nbdime.nbmergeapp:main_merge'
    fn = repo.func(fid)
    dumps = [c for c in calls_in(fn, nested=False) if dotted(c.func) in ('json.dump', 'json.dumps') and c.args and 'decision' in (dotted(c.args[0]) or '')]
    if not dumps:
        raise AnalysisError('main_merge: json.dump(decisions, ...) not found')
    for c in dumps:
        ea = [k for k in c.keywords if k.arg == 'ensure_ascii']
        ok = not ea or const_val(ea[0].value) is True
        ctx.inst(rule, fid, repo.norm(c)[:80], ok, 'ASCII-only output: every str can be written' if ok else
                 'ensure_ascii=False streams raw characters into a strict utf8 file: text with a lone surrogate (valid JSON \\\\udXXX, accepted by nbformat) raises half way -- the decisions file is truncated', c)


@extra('C16', 'R16.19', 'pprint is never given a computed width that can be zero (pprint raises ValueError for width == 0): a width expression is a constant or is clamped with max(..)', 0)
def pprint_width_positive(ctx, rule):
    repo = ctx.repo
    n = 0
    for fid, fn in sorted(repo.functions.items()):
        if not fid.startswith('nbdime.prettyprint:'):
            continue
        for c in calls_in(fn, nested=False):
            if (dotted(c.func) or '').split('.')[-1] in ('pformat', 'pprint', 'PrettyPrinter'):
                w = [k.value for k in c.keywords if k.arg == 'width']
                if not w:
                    continue
                n += 1
                e = w[0]
                ok = isinstance(e, ast.Constant) or (isinstance(e, ast.Call) and dotted(e.func) == 'max' and any(isinstance(a, ast.Constant) and isinstance(a.value, int) and a.value > 0 for a in e.args))
                ctx.inst(rule, fid, repo.norm(c)[:80], ok, 'width is positive' if ok else
                         'width = %s can be exactly 0 (a list printed under a prefix as wide as the line): pprint raises ValueError("width must be != 0") and rendering a valid, deeply nested '
                         'notebook aborts' % ast.unparse(e), c)
    ctx.inst(rule, 'nbdime.prettyprint', '%d pprint call(s) with a width' % n, True, 'each judged above', None, nontrivial=False)


@extra('C17', 'R17.14', 'the committed/staged side is decoded as a whole and strictly: blob bytes are not decoded piecewise or with a lossy error handler (a multi-byte character split '
       'across chunks, or invalid bytes, would silently become U+FFFD and the stream would no longer be what git holds)', 1)
def blob_decoded_whole_and_strict(ctx, rule):
    repo = ctx.repo
    n = 0
    for fid, fn in sorted(repo.functions.items()):
        if not fid.startswith('nbdime.gitfiles:'):
            continue
        for c in calls_in(fn, nested=False):
            if isinstance(c.func, ast.Attribute) and c.func.attr == 'decode':
                n += 1
                errs = [const_val(k.value) for k in c.keywords if k.arg == 'errors'] + ([const_val(c.args[1])] if len(c.args) > 1 else [])
                lossy = any(e in ('replace', 'ignore', 'backslashreplace') for e in errs)
                in_loop = repo.enclosing(c, (ast.For, ast.While, ast.ListComp, ast.GeneratorExp)) is not None and repo.func_of(repo.enclosing(c, (ast.For, ast.While, ast.ListComp, ast.GeneratorExp))) is fn
                ok = not lossy and not in_loop
                ctx.inst(rule, fid, repo.norm(c)[:80], ok, 'whole blob, strict' if ok else
                         ('decoded with errors=%r' % errs[0] if lossy else 'decoded piece by piece inside a loop') +
                         ': the text handed to the differ is not the blob git holds (silently: the notebook still parses)', c)
    if not n:
        raise AnalysisError('gitfiles: no decode of blob data found')


@extra('C20', 'R20.15', 'file names taken from a request body are used verbatim: nothing on the way from the JSON body to read_notebook unescapes / unquotes / normalises them '
       '(a JSON string is not URL-encoded; "v1+2.ipynb" and "%41.ipynb" are ordinary names)', 1)
def request_names_verbatim(ctx, rule):
    repo = ctx.repo
    DEC = ('url_unescape', 'unquote', 'unquote_plus', 'url_unescape', 'normpath', 'unescape', 'xhtml_unescape')
    n = 0
    for fid, fn in sorted(repo.functions.items()):
        if not fid.startswith('nbdime.webapp.nbdimeserver:') or not any(k in fid for k in ('get_notebook_argument', 'read_notebook', 'get_pair_argument', 'ApiDiffHandler.post', 'ApiMergeHandler.post')):
            continue
        n += 1
        bad = [c for c in calls_in(fn, nested=False) if (dotted(c.func) or '').split('.')[-1] in DEC]
        ctx.inst(rule, fid, '%d decoding call(s) on request data' % len(bad), not bad, 'names are used as given' if not bad else
                 '%s rewrites a name that came out of the JSON body: a request for "v1+2.ipynb" reads "v1 2.ipynb" -- the response describes other notebooks than the ones asked for' % repo.norm(bad[0])[:50],
                 bad[0] if bad else fn)
    if not n:
        raise AnalysisError('request argument functions of the server not found')


@extra('C19', 'R19.11', 'the entry point whose configuration a parser reads is found by EXACT lookup of the program name: no prefix/substring matching against the table of entry points '
       '("nbdiff" is a prefix of "nbdiff-web")', 1)
def entrypoint_exact_lookup(ctx, rule):
    repo = ctx.repo
    n = 0
    for fid, fn in sorted(repo.functions.items()):
        if not fid.startswith(('nbdime.args:', 'nbdime.config:')):
            continue
        uses = [x for x in ast.walk(fn) if isinstance(x, ast.Name) and x.id == 'entrypoint_configurables']
        if not uses and 'prog' not in fid and not any(isinstance(x, ast.Attribute) and x.attr == 'prog' for x in ast.walk(fn)):
            continue
        n += 1
        # names that range over the entry point table
        ep_vars = set()
        for x in ast.walk(fn):
            if isinstance(x, (ast.For, ast.comprehension)) and any(isinstance(y, ast.Name) and y.id == 'entrypoint_configurables' for y in ast.walk(x.iter)):
                ep_vars |= {t.id for t in ast.walk(x.target) if isinstance(t, ast.Name)}
        bad = []
        for c in calls_in(fn):
            if isinstance(c.func, ast.Attribute) and c.func.attr in ('startswith', 'endswith', 'find', 'index'):
                involved = {y.id for y in ast.walk(c) if isinstance(y, ast.Name)}
                if involved & ep_vars or any(isinstance(y, ast.Attribute) and y.attr == 'prog' for y in ast.walk(c)):
                    bad.append(c)
        for c in ast.walk(fn):
            if isinstance(c, ast.Compare) and isinstance(c.ops[0], (ast.In, ast.NotIn)) and isinstance(c.left, ast.Name) and c.left.id in ep_vars and not \
                    (isinstance(c.comparators[0], ast.Name) and c.comparators[0].id == 'entrypoint_configurables'):
                bad.append(c)
        ctx.inst(rule, fid, '%d prefix/substring test(s) on the program name' % len(bad), not bad, 'exact lookup' if not bad else
                 '%s matches entry points by prefix: "nbdiff-web" resolves to "nbdiff" (listed first), so the web tools read the NbDiff/NbMerge sections and ignore their own and the Web section' % repo.norm(bad[0])[:60],
                 bad[0] if bad else fn)
    if not n:
        raise AnalysisError('no function resolving the entry point name found')


@extra('C04', 'R04.10', 'when a cleared field is absent from base (both sides added it) the cleared value is ADDED: the field may be one the schema requires (execution_count of a cell '
       'both sides converted to code)', 1)
def clear_adds_when_absent(ctx, rule):
    repo = ctx.repo
    ra = repo.func('nbdime.merging.decisions:resolve_action')
    adds = [c for c in calls_in(ra) if dotted(c.func) == 'op_add']
    clear_if = [n for n in ast.walk(ra) if isinstance(n, ast.If) and any(isinstance(c, ast.Constant) and c.value == 'clear' for c in ast.walk(n.test))]
    if not clear_if:
        raise AnalysisError('resolve_action: the clear arm was not found')
    ok = any(any(x is c for ci in clear_if for x in ast.walk(ci)) for c in adds)
    ctx.inst(rule, 'nbdime.merging.decisions:resolve_action', 'clear arm builds op_add for a key absent from base: %s' % ('yes' if ok else 'no'), ok,
             'a required field both sides added is present (cleared) in the result' if ok else
             'for a key absent from base the clear action produces nothing: a markdown cell both sides convert to code (different execution counts) ends up WITHOUT execution_count, '
             'which the schema requires -- invalid notebook, no conflict reported', clear_if[0])


@extra('C01', 'R01.17', 'reviving a diff read from a file never rejects it because of what its PAYLOAD looks like: to_diffentry_dicts contains no validation/raise (a cell or JSON output '
       'that has a member called "op" is ordinary data)', 1)
def reviver_does_not_validate_payload(ctx, rule):
    repo = ctx.repo
    fid = 'nbdime.diff_utils:to_diffentry_dicts'
    fn = repo.func(fid)
    bad = [n for n in ast.walk(fn) if isinstance(n, ast.Raise)] + [c for c in calls_in(fn) if 'validate' in (dotted(c.func) or '')]
    ctx.inst(rule, fid, '%d raise/validate construct(s)' % len(bad), not bad, 'payload is only wrapped' if not bad else
             'the reviver walks values and valuelists too (whole cells, metadata, JSON outputs): a payload object with an "op" member (a JSON Patch document in an output, metadata '
             '{"step": {"op": "show"}}) is now judged as a diff entry and nbpatch aborts on a diff that nbdiff wrote', bad[0] if bad else fn)


@extra('C02', 'R02.18', 'the LCS length grid holds plain Python integers: no fixed-width cell type (bytearray, array, ctypes, numpy small ints) whose range the number of common items can exceed', 1)
def lcs_grid_unbounded_ints(ctx, rule):
    repo = ctx.repo
    n = 0
    for fid, fn in sorted(repo.functions.items()):
        if not fid.startswith(('nbdime.diffing.seq_bruteforce:', 'nbdime.diffing.lcs:', 'nbdime.diffing.seq_difflib:', 'nbdime.diffing.seq_myers:', 'nbdime.diffing.snakes:')):
            continue
        n += 1
        bad = [c for c in calls_in(fn) if (dotted(c.func) or '').split('.')[-1] in ('bytearray', 'bytes', 'array', 'c_uint8', 'c_uint16', 'uint8', 'uint16', 'int8', 'int16')]
        if bad:
            ctx.inst(rule, fid, repo.norm(bad[0])[:60], False,
                     'cells of this container hold at most 255 (65535): two sequences with more common items than that -- a 300-line output changed in one line -- make the differ raise '
                     'ValueError instead of returning a diff', bad[0])
    ctx.inst(rule, 'nbdime.diffing (sequence algorithms)', '%d function(s) examined' % n, n >= 3, 'no fixed-width integer containers besides those reported', None)


@extra('C12', 'R12.12', 'the option-processing path keeps no record of its own: no function of nbdime.args / nbdime.config writes a module-level container or rebinds a module-level name '
       '(what is in force lives in the differ table alone; a private memo of "what the last command installed" makes the next command depend on the previous one)', 1)
@extra('C14', 'R14.17', 'the option-processing path keeps no record of its own: no function of nbdime.args / nbdime.config writes a module-level container or rebinds a module-level name', 1)
def option_path_keeps_no_memo(ctx, rule):
    repo = ctx.repo
    MUT = {'append', 'extend', 'insert', 'remove', 'pop', 'clear', 'sort', 'reverse', 'update', 'setdefault', 'add', 'discard', 'popitem', '__setitem__'}
    for mod in ('nbdime.args', 'nbdime.config'):
        m = repo.mod(mod)
        containers = {nm for nm, vals in m.assigns.items() for v in vals
                      if isinstance(v, (ast.Dict, ast.List, ast.Set)) or (isinstance(v, ast.Call) and (dotted(v.func) or '').split('.')[-1] in ('dict', 'list', 'set', 'defaultdict', 'OrderedDict', 'deque'))}
        bad = []
        for fid, fn in sorted(repo.functions.items()):
            if not fid.startswith(mod + ':'):
                continue
            local = {a.arg for a in fn.args.args + fn.args.kwonlyargs} | {x.id for x in walk_no_nested(fn) if isinstance(x, ast.Name) and isinstance(x.ctx, ast.Store)}
            glob = {n for x in walk_no_nested(fn) if isinstance(x, ast.Global) for n in x.names}
            for x in walk_no_nested(fn):
                if isinstance(x, ast.Name) and isinstance(x.ctx, ast.Store) and x.id in glob:
                    bad.append((x, fid, 'rebinds the module-level name %s' % x.id))
                if isinstance(x, (ast.Subscript, ast.Attribute)) and isinstance(x.ctx, (ast.Store, ast.Del)) and isinstance(x.value, ast.Name) and x.value.id in containers and \
                        (x.value.id not in local or x.value.id in glob):
                    bad.append((x, fid, 'stores into the module-level %s' % x.value.id))
                if isinstance(x, ast.Call) and isinstance(x.func, ast.Attribute) and x.func.attr in MUT and isinstance(x.func.value, ast.Name) and x.func.value.id in containers and \
                        (x.func.value.id not in local or x.func.value.id in glob):
                    bad.append((x, fid, '%s.%s(...) on a module-level container' % (x.func.value.id, x.func.attr)))
        # named exemption (same as C12 R12.5): config_instance memoises the traitlets objects built from the config FILES, keyed by class; it records nothing about commands
        bad = [b for b in bad if not (b[1] == 'nbdime.config:config_instance' and '_config_cache' in b[2])]
        ctx.inst(rule, mod, 'module-level containers %s; writes from functions: %d' % (sorted(containers), len(bad)), not bad, 'none is written by a function' if not bad else
                 '%s (%s): the outcome of processing one command\'s options is remembered and consulted by the next one -- the N-th command no longer behaves like the same command in a '
                 'fresh process' % (bad[0][2], bad[0][1].split(':')[1]), bad[0][0] if bad else None)


@extra('C05', 'R05.11', 'the type-strict equality treats JSON objects as UNORDERED: its mapping branch compares key sets and values per key; it never turns .items() into a sequence '
       '(two sides making the same change with another key order must still agree)', 1)
@extra('C02', 'R02.19', 'the type-strict equality treats JSON objects as UNORDERED (a key-reordered but otherwise equal payload is not a change)', 1)
def strict_equal_unordered(ctx, rule):
    repo = ctx.repo
    fid = 'nbdime.diffing.generic:strict_equal'
    fn = repo.func(fid)
    bad = []
    for c in calls_in(fn):
        if dotted(c.func) in ('tuple', 'list', 'zip', 'iter', 'enumerate') and any(isinstance(x, ast.Call) and isinstance(x.func, ast.Attribute) and x.func.attr in ('items', 'values', 'keys')
                                                                                  for a in c.args for x in ast.walk(a)) and \
                not any(isinstance(x, ast.Call) and dotted(x.func) == 'sorted' for a in c.args for x in ast.walk(a)):
            bad.append(c)
    keyset = any(isinstance(c, ast.Compare) and any(isinstance(x, ast.Call) and isinstance(x.func, ast.Attribute) and x.func.attr == 'keys' for x in ast.walk(c)) for c in ast.walk(fn)) or \
        any(isinstance(c, ast.Call) and dotted(c.func) == 'set' for c in ast.walk(fn))
    ok = not bad and keyset
    ctx.inst(rule, fid, 'mapping branch: key sets compared: %s; items sequenced: %s' % ('yes' if keyset else 'no', 'yes' if bad else 'no'), ok,
             'order-insensitive' if ok else
             'objects are compared as ordered (key, value) sequences: two sides that add or replace the SAME JSON object written in a different key order no longer agree -- the merge '
             'reports a conflict (or under use-base silently drops the change), and the notebook differ reports a spurious replace', bad[0] if bad else fn)


# ------------------------------------------------------------------------------------------------ round 6
def _seq_roots(fn, expr, roots_of, defs, seen=None):
    """which of the names in roots_of does expr derive from (through local assignments, loop targets and comprehension targets)?"""
    from ..util import local_defs
    seen = set() if seen is None else seen
    comp_binds = {}
    for n in ast.walk(fn):
        if isinstance(n, (ast.ListComp, ast.SetComp, ast.GeneratorExp, ast.DictComp)):
            for gen in n.generators:
                for t in ast.walk(gen.target):
                    if isinstance(t, ast.Name):
                        comp_binds.setdefault(t.id, []).append(gen.iter)
    out = set()

    def flow(e):
        """names whose VALUE (not index, not length) flows into e"""
        if isinstance(e, ast.Name):
            return [e]
        if isinstance(e, (ast.Subscript, ast.Attribute, ast.Starred)):
            return flow(e.value)
        if isinstance(e, ast.Call):
            if isinstance(e.func, ast.Name) and e.func.id in ('list', 'tuple', 'reversed', 'sorted', 'iter', 'enumerate', 'zip') and e.args:
                return [x for a in e.args for x in flow(a)]
            return []
        if isinstance(e, ast.BinOp):
            return flow(e.left) + flow(e.right)
        if isinstance(e, ast.IfExp):
            return flow(e.body) + flow(e.orelse)
        if isinstance(e, (ast.Tuple, ast.List)):
            return [x for a in e.elts for x in flow(a)]
        return []
    for n in flow(expr):
        if n.id in roots_of:
            out.add(n.id)
        elif n.id not in seen:
            seen.add(n.id)
            for v, kind, st in defs.get(n.id, []):
                out |= _seq_roots(fn, v, roots_of, defs, seen)
            for it in comp_binds.get(n.id, []):
                out |= _seq_roots(fn, it, roots_of, defs, seen)
    return out


@extra('C02', 'R02.20', 'the similarity predicate is order-sensitive (difflib ratio of (x, y) differs from (y, x)): wherever the sequence differs call it, or hand the two '
       'sequences on together with it, the item/sequence of the FIRST document stays in the first position', 6)
def r02_20(ctx, rule):
    from ..util import local_defs, param_names
    repo, cg = ctx.repo, ctx.cg

    def seq_sig(f):
        """(first, second, predicate parameter) if f takes two sequences and a predicate"""
        ps = param_names(f)
        pred = [p for p in ps if p in ('compare', 'compares', 'predicate', 'predicates')]
        if len(ps) >= 3 and pred and ps[0] not in pred and ps[1] not in pred:
            return ps[0], ps[1], pred[0]
        return None
    for fid, fn in sorted(repo.functions.items()):
        if not fid.startswith('nbdime.diffing.'):
            continue
        sig = seq_sig(fn)
        if not sig:
            continue
        p0, p1, pred = sig
        defs = local_defs(fn)
        pred_names = {pred} | {nm for nm, ds in defs.items() if any(_seq_roots(fn, v, {pred}, defs) for v, k, st in ds)}
        for c in calls_in(fn):
            pair = None
            what = None
            if isinstance(c.func, ast.Name) and c.func.id in pred_names and len(c.args) >= 2:
                pair, what = (c.args[0], c.args[1]), 'predicate call'
            else:
                for kind, tgt in cg.resolve(c.func, fn):
                    if kind == 'func' and tgt in repo.functions and tgt.startswith('nbdime.diffing.'):
                        s2 = seq_sig(repo.functions[tgt])
                        if s2 and not any(isinstance(a, ast.Starred) for a in c.args):
                            gp = param_names(repo.functions[tgt])
                            bound = dict(zip(gp, c.args))
                            bound.update({k.arg: k.value for k in c.keywords if k.arg})
                            if s2[0] in bound and s2[1] in bound and s2[2] in bound and _seq_roots(fn, bound[s2[2]], pred_names, defs):
                                pair, what = (bound[s2[0]], bound[s2[1]]), 'hand-on to %s' % tgt.split(':')[1]
            if pair is None:
                continue
            r0 = _seq_roots(fn, pair[0], {p0, p1}, defs)
            r1 = _seq_roots(fn, pair[1], {p0, p1}, defs)
            if not r0 or not r1:
                ctx.inst(rule, fid, repo.norm(c), True, '%s: origin of the operands not determined' % what, c, nontrivial=False)
                continue
            ok = r0 == {p0} and r1 == {p1}
            ctx.inst(rule, fid, repo.norm(c), ok,
                     '%s: first operand from %s, second from %s' % (what, p0, p1) if ok else
                     '%s: the first operand derives from %s and the second from %s -- the order-sensitive predicate is asked (y, x) where the rest of the '
                     'algorithm (and its sanity check) means (x, y); a borderline pair is aligned one way and rejected the other' % (what, sorted(r0), sorted(r1)), c)


@extra('C07', 'R07.16', 'in the chunk switch of the list merger, an inserted range is never handed to a decision that keeps base or takes the other side alone '
       '(conflict/base, or local/remote with the insertion on the losing side): inserted cells and lines are applied, alone or next to the other side\'s change', 20)
def r07_16(ctx, rule):
    from ..consteval import reachable_arms, Abstract
    from .c03 import chunk_switch_model
    repo, cg = ctx.repo, ctx.cg
    m = chunk_switch_model(repo, cg)
    fid = 'nbdime.merging.generic:_merge_lists'
    bad_calls = {}
    for la, lp, ra, rp in m['combos']:
        if not (la or ra):
            continue
        ct = '%s%s/%s%s' % (la, lp, ra, rp)
        ev = m['make_ev'](la, lp, ra, rp)
        used = set()
        n_bad = 0
        for idx, body in reachable_arms(ev, m['bigif']):
            for st in body:
                for c in ast.walk(st):
                    if not (isinstance(c, ast.Call) and isinstance(c.func, ast.Attribute)):
                        continue
                    meth = c.func.attr
                    if meth not in ('conflict', 'base', 'local', 'remote') or len(c.args) < 3:
                        if meth in ('onesided', 'agreement', 'local_then_remote', 'remote_then_local', 'tryresolve', 'extend'):
                            used.add(meth)
                        continue
                    ops = [ev.ev(a) for a in c.args[1:3]]
                    has_a = [isinstance(o, Abstract) and 'A' in o.tag for o in ops]
                    lost = (meth in ('conflict', 'base') and any(has_a)) or (meth == 'local' and has_a[1]) or (meth == 'remote' and has_a[0])
                    if lost:
                        bad_calls.setdefault(id(c), (c, []))[1].append(ct)
                        n_bad += 1
        if not n_bad:
            ctx.inst(rule, fid, 'chunk type %s' % ct, True, 'insertions are applied (%s)' % ', '.join(sorted(used)) if used else 'no keep-base decision takes the insertion', m['bigif'])
    for c, cts in bad_calls.values():
        ctx.inst(rule, fid, repo.norm(c) + '  [chunk types %s]' % ', '.join(sorted(set(cts))), False,
                 'an inserted range goes into a `%s` decision: the merged list keeps base / the other side there, and every source line of the inserted cells is '
                 'missing from the merged notebook, not even inside conflict markers' % c.func.attr, c)


_LAZY_CALLS = {'filter', 'map', 'zip', 'iter', 'reversed', 'enumerate', 'itertools.chain', 'itertools.islice', 'itertools.filterfalse', 'chain', 'islice'}


def _command_path_functions(ctx, roots, prefixes):
    repo, cg = ctx.repo, ctx.cg
    reach = cg.reachable([r for r in roots if r in repo.functions])
    return sorted(f for f in reach if f.startswith(prefixes))


@extra('C08', 'R08.13', 'on the merge command path no one-shot iterator (generator expression, filter/map/zip object) is read at more than one place: what the first reader '
       'consumes is gone for the second, so a status computed after a logging loop is computed over nothing', 3)
def r08_13(ctx, rule):
    from ..util import local_defs
    repo = ctx.repo
    fids = _command_path_functions(ctx, ['nbdime.nbmergeapp:main_merge', 'nbdime.nbmergeapp:main', 'nbdime.vcs.git.mergedriver:main'],
                                   ('nbdime.nbmergeapp:', 'nbdime.vcs.git.mergedriver:', 'nbdime.utils:', 'nbdime.merging.notebooks:'))
    for fid in fids:
        fn = repo.functions[fid]
        defs = local_defs(fn)
        lazies = []
        for nm, ds in defs.items():
            if len(ds) != 1:
                continue
            v, kind, st = ds[0]
            if kind != 'assign':
                continue
            if isinstance(v, ast.GeneratorExp) or (isinstance(v, ast.Call) and dotted(v.func) in _LAZY_CALLS):
                lazies.append((nm, v, st))
        if not lazies:
            ctx.inst(rule, fid, 'no local is bound to a one-shot iterator', True, 'nothing to exhaust', fn, nontrivial=False)
            continue
        for nm, v, st in lazies:
            loads = [n for n in ast.walk(fn) if isinstance(n, ast.Name) and n.id == nm and isinstance(n.ctx, ast.Load)]
            in_loop = [n for n in loads if any(isinstance(a, (ast.For, ast.While)) and not any(x is st for x in ast.walk(a)) for a in repo.ancestors(n))]
            ok = len(loads) <= 1 and not in_loop
            ctx.inst(rule, fid, '%s = %s  [read at %d place(s)]' % (nm, repo.norm(v)[:60], len(loads)), ok,
                     'read once' if ok else
                     '`%s` is a one-shot iterator read at %d places (lines %s): after the first reader has consumed it, `any(%s)` / `if %s` / a second loop see nothing -- '
                     'with the conflicts listed first, the exit status is computed over an exhausted iterator' % (nm, len(loads), sorted({n.lineno for n in loads}), nm, nm), st)


@extra('C08', 'R08.14', 'no exception or clean-up handler on the merge command path removes, renames or truncates a file: a failure before the result is written leaves the '
       'output location (an earlier result, the user\'s %A file) as it was', 3)
def r08_14(ctx, rule):
    repo, cg = ctx.repo, ctx.cg
    fids = _command_path_functions(ctx, ['nbdime.nbmergeapp:main_merge', 'nbdime.nbmergeapp:main', 'nbdime.vcs.git.mergedriver:main'],
                                   ('nbdime.nbmergeapp:', 'nbdime.vcs.git.mergedriver:', 'nbdime.utils:', 'nbdime.merging.notebooks:'))
    DESTRUCTIVE = {'os.remove', 'os.unlink', 'os.rename', 'os.replace', 'os.truncate', 'os.rmdir', 'shutil.rmtree', 'shutil.move', 'os.ftruncate'}
    n = 0
    for fid in fids:
        fn = repo.functions[fid]
        for t in [x for x in walk_no_nested(fn) if isinstance(x, ast.Try)]:
            blocks = [(h.body, 'except %s' % (ast.unparse(h.type) if h.type is not None else '<all>')) for h in t.handlers] + ([(t.finalbody, 'finally')] if t.finalbody else [])
            for body, label in blocks:
                n += 1
                bad = []
                for st in body:
                    for c in ast.walk(st):
                        if isinstance(c, ast.Call):
                            names = {tt[1] for tt in cg.resolve(c.func, fn) if tt[0] == 'ext'} | {dotted(c.func) or ''}
                            if names & DESTRUCTIVE or (isinstance(c.func, ast.Attribute) and c.func.attr in ('unlink', 'truncate', 'rename', 'replace') and not c.args == [] and
                                                       dotted(c.func.value) not in ('str',) and c.func.attr in ('unlink', 'truncate')):
                                bad.append(c)
                            if (dotted(c.func) in ('open', 'io.open')) and len(c.args) > 1 and isinstance(const_val(c.args[1]), str) and 'w' in const_val(c.args[1]):
                                bad.append(c)
                ctx.inst(rule, fid, '%s handler at line %d' % (label, body[0].lineno if body else t.lineno), not bad,
                         'no destructive file operation' if not bad else
                         '%s in a %s handler: when the step before fails (serialising, opening the output), the file that was already at the output location is destroyed '
                         'although no result was written' % (repo.norm(bad[0]), label), bad[0] if bad else t)
    if n == 0:
        ctx.inst(rule, 'nbdime.nbmergeapp:main_merge', 'no handlers on the command path', True, 'nothing to check', None, nontrivial=False)


def _r_conflict_scan(ctx, rule):
    """has_conflicted() is what every resolution entry guard asks (R05.2): it must answer from the CURRENT conflict flags of the decisions held."""
    from ..util import local_defs
    repo = ctx.repo
    fid = 'nbdime.merging.decisions:MergeDecisionBuilder.has_conflicted'
    fn = repo.func(fid)
    defs = local_defs(fn)

    def scans(e):
        """e is truthy whenever some held decision has its conflict flag set"""
        if isinstance(e, ast.Name):
            ds = defs.get(e.id, [])
            return bool(ds) and all(scans(v) for v, k, st in ds)
        if isinstance(e, ast.Call) and dotted(e.func) in ('any',) and e.args and isinstance(e.args[0], (ast.GeneratorExp, ast.ListComp)):
            g = e.args[0]
            over = dotted(g.generators[0].iter) in ('self.decisions', 'self') and len(g.generators) == 1
            elt_conf = isinstance(g.elt, ast.Attribute) and g.elt.attr == 'conflict' and not g.generators[0].ifs
            filt_conf = isinstance(g.elt, ast.Constant) and g.elt.value is True and len(g.generators[0].ifs) == 1 and \
                isinstance(g.generators[0].ifs[0], ast.Attribute) and g.generators[0].ifs[0].attr == 'conflict'
            return over and (elt_conf or filt_conf)
        if isinstance(e, ast.Call) and dotted(e.func) in ('bool', 'len') and e.args:
            return scans(e.args[0])
        if isinstance(e, ast.Call) and dotted(e.func) == 'self.get_conflicted' and not e.args:
            return True
        if isinstance(e, ast.Compare) and len(e.ops) == 1 and isinstance(e.ops[0], (ast.Gt, ast.NotEq)) and const_val(e.comparators[0]) == 0:
            return scans(e.left)
        if isinstance(e, ast.BoolOp):
            vals = [scans(v) for v in e.values]
            return any(vals) if isinstance(e.op, ast.Or) else all(vals)
        return False
    rets = [n for n in walk_no_nested(fn) if isinstance(n, ast.Return)]
    if not rets:
        raise AnalysisError('has_conflicted: no return')
    for r in rets:
        ok = r.value is not None and scans(r.value)
        ctx.inst(rule, fid, repo.norm(r), ok,
                 'true whenever a held decision is flagged conflicted' if ok else
                 'the answer also depends on something other than the conflict flags of the decisions held (a cached "conflict registered" flag, a counter): decisions '
                 'created with conflict=True by another route (local_then_remote(..., conflict=True), add_decision, extend) never raise it, every resolution guard then '
                 'reads "nothing to resolve" and a use-base/use-local/use-remote merge returns with open conflicts', r)


@extra('C10', 'R10.10', 'has_conflicted() answers from the current conflict flags of the decisions held, and from nothing else', 1)
def r10_10(ctx, rule):
    _r_conflict_scan(ctx, rule)


@extra('C05', 'R05.12', 'has_conflicted() answers from the current conflict flags of the decisions held, and from nothing else', 1)
def r05_12(ctx, rule):
    _r_conflict_scan(ctx, rule)


@extra('C11', 'R11.12', 'a removal the merge code builds by hand for an index taken from the decisions (an insertion index may equal len(base)) is backed by evidence that a base '
       'item exists there: a bound test, or a test that some entry at the index patches or removes the item', 2)
def r11_12(ctx, rule):
    from ..util import local_defs, depends_on, truth_under
    from ..cfg import CFG, cond_guards
    from .. import mergefacts as mf
    repo, cg = ctx.repo, ctx.cg
    consts = mf.diffop_consts(repo)
    EXIST = {consts.get('DiffOp.PATCH'), consts.get('DiffOp.REMOVERANGE')}
    ADD = consts.get('DiffOp.ADDRANGE')

    def filt_ops(fn, e, defs):
        """ops selected by a list built as [x for x in D if x.op == OP] (through one local name); None if not of that form"""
        if isinstance(e, ast.Name):
            ds = [v for v, k, st in defs.get(e.id, []) if k == 'assign']
            if len(ds) == 1:
                return filt_ops(fn, ds[0], defs)
            return None
        if isinstance(e, ast.ListComp) and len(e.generators) == 1 and len(e.generators[0].ifs) == 1:
            c = e.generators[0].ifs[0]
            if isinstance(c, ast.Compare) and len(c.ops) == 1 and isinstance(c.ops[0], ast.Eq) and isinstance(c.left, ast.Attribute) and c.left.attr == 'op':
                return {consts.get(dotted(c.comparators[0]))}
        return None

    def implies_existing(fn, test, pol, defs, depth=0):
        """does (test is pol) establish that an entry with a patch/removal op is present at the index, or that the index is in bounds?"""
        if isinstance(test, ast.UnaryOp) and isinstance(test.op, ast.Not):
            return implies_existing(fn, test.operand, not pol, defs, depth)
        if isinstance(test, ast.Compare) and len(test.ops) == 1 and pol and isinstance(test.ops[0], ast.Lt) and \
                isinstance(test.comparators[0], ast.Call) and dotted(test.comparators[0].func) == 'len':
            return True
        if isinstance(test, ast.BoolOp) and isinstance(test.op, ast.Or) and pol:
            return all(implies_existing(fn, v, True, defs, depth) for v in test.values)
        if isinstance(test, ast.BoolOp) and isinstance(test.op, ast.Or) and not pol:
            return any(implies_existing(fn, v, False, defs, depth) for v in test.values)        # all operands false: one of them suffices
        if isinstance(test, ast.BoolOp) and isinstance(test.op, ast.And) and pol:
            return any(implies_existing(fn, v, True, defs, depth) for v in test.values)
        if isinstance(test, ast.BoolOp) and isinstance(test.op, ast.And) and not pol:
            return all(implies_existing(fn, v, False, defs, depth) for v in test.values)        # some operand false: each must suffice
        # not all(e.op == ADDRANGE for e in ...)
        if isinstance(test, ast.Call) and dotted(test.func) == 'all' and not pol and test.args and isinstance(test.args[0], (ast.GeneratorExp, ast.ListComp)):
            elt = test.args[0].elt
            if isinstance(elt, ast.Compare) and len(elt.ops) == 1 and isinstance(elt.ops[0], ast.Eq) and isinstance(elt.left, ast.Attribute) and elt.left.attr == 'op' and \
                    consts.get(dotted(elt.comparators[0])) == ADD:
                return True
        if isinstance(test, ast.Call) and dotted(test.func) == 'any' and pol and test.args and isinstance(test.args[0], (ast.GeneratorExp, ast.ListComp)):
            elt = test.args[0].elt
            if isinstance(elt, ast.Compare) and len(elt.ops) == 1 and isinstance(elt.left, ast.Attribute) and elt.left.attr == 'op':
                if isinstance(elt.ops[0], ast.NotEq) and consts.get(dotted(elt.comparators[0])) == ADD:
                    return True
                if isinstance(elt.ops[0], ast.In) and isinstance(elt.comparators[0], (ast.Tuple, ast.List, ast.Set)) and \
                        {consts.get(dotted(x)) for x in elt.comparators[0].elts} <= EXIST:
                    return True
        # a (possibly negated) flag: resolve it
        if isinstance(test, ast.Name):
            ops = filt_ops(fn, test, defs)
            if ops is not None:
                return pol and ops <= EXIST
            ds = defs.get(test.id, [])
            if len(ds) == 1 and depth < 3:
                v, k, st = ds[0]
                if k == 'assign':
                    return implies_existing(fn, v, pol, defs, depth + 1)
                if k == 'unpack' and isinstance(v, ast.Call) and isinstance(st, ast.Assign) and isinstance(st.targets[0], ast.Tuple):
                    # flag = i-th element of the tuple a package function returns
                    idx = [i for i, t in enumerate(st.targets[0].elts) if isinstance(t, ast.Name) and t.id == test.id]
                    tg = [t[1] for t in cg.resolve(v.func, fn) if t[0] == 'func' and t[1] in repo.functions]
                    if idx and len(tg) == 1:
                        h = repo.functions[tg[0]]
                        hdefs = local_defs(h)
                        rets = [r for r in walk_no_nested(h) if isinstance(r, ast.Return)]
                        if rets and all(isinstance(r.value, ast.Tuple) and len(r.value.elts) > idx[0] for r in rets):
                            return all(implies_existing(h, r.value.elts[idx[0]], pol, hdefs, depth + 1) for r in rets)
            return False
        return False
    n = 0
    for fid, fn in sorted(repo.functions.items()):
        if not fid.startswith('nbdime.merging.strategies:'):
            continue
        defs = local_defs(fn)
        g = None
        for c in calls_in(fn, nested=False):
            if ('func', 'nbdime.diff_format:op_removerange') not in cg.resolve(c.func, fn) or not c.args:
                continue
            k = c.args[0]
            keyed = depends_on(fn, k, lambda x: (isinstance(x, ast.Attribute) and x.attr == 'key') or
                               (isinstance(x, ast.Call) and (dotted(x.func) or '').endswith('bundle_decisions_by_index')), defs)
            if keyed is None:
                continue
            n += 1
            g = g or CFG(fn)
            st = repo.stmt_of(c)
            ev = [(t, pol) for t, pol in cond_guards(g, st) if implies_existing(fn, t, pol, defs)]
            ok = bool(ev)
            ctx.inst(rule, fid, repo.norm(c), ok,
                     'guarded by %s%s' % ('' if ev[0][1] else 'not ', repo.norm(ev[0][0])[:80]) if ok else
                     'the index comes from the decisions; an insertion at the end of the list has index len(base), and several insertions at one index are several entries: '
                     'nothing on the way to this removal rules that out, so the custom diff removes an item past the end of its base (out of bounds: not a well-formed diff)', c)
    if n == 0:
        raise AnalysisError('R11.12: no hand-built removal keyed by a decision index found in the strategies module')


@extra('C11', 'R11.13', 'a custom diff assembled by hand takes ready-made entries from at most ONE side\'s diff on any one path: both sides removing the same base range carry '
       'the same removal, and two of them in one diff overlap', 2)
def r11_13(ctx, rule):
    from ..util import local_defs
    from ..cfg import CFG
    repo, cg = ctx.repo, ctx.cg
    n = 0
    for fid, fn in sorted(repo.functions.items()):
        if not fid.startswith('nbdime.merging.strategies:'):
            continue
        defs = local_defs(fn)
        g = None
        for c in calls_in(fn, nested=False):
            if not (isinstance(c.func, ast.Attribute) and c.func.attr == 'custom'):
                continue
            cd = c.args[3] if len(c.args) > 3 else next((k.value for k in c.keywords if k.arg == 'custom_diff'), None)
            if cd is None:
                continue
            n += 1
            # pieces: (expression, statement) that contribute entries to the list
            pieces, seen = [], set()

            def collect(e, st):
                if isinstance(e, ast.BinOp) and isinstance(e.op, ast.Add):
                    collect(e.left, st)
                    collect(e.right, st)
                elif isinstance(e, ast.Name) and e.id not in seen:
                    seen.add(e.id)
                    for v, k, s_ in defs.get(e.id, []):
                        if k in ('assign', 'aug'):
                            collect(v, s_)
                    for x in walk_no_nested(fn):
                        if isinstance(x, ast.Expr) and isinstance(x.value, ast.Call) and isinstance(x.value.func, ast.Attribute) and \
                                x.value.func.attr in ('append', 'extend', 'insert') and dotted(x.value.func.value) == e.id and x.value.args:
                            pieces.append((x.value.args[-1], x))
                        if isinstance(x, ast.AugAssign) and isinstance(x.target, ast.Name) and x.target.id == e.id:
                            collect(x.value, x)
                else:
                    pieces.append((e, st))
            collect(cd, repo.stmt_of(c))

            def side(e):
                # ready-made entries of a side: a subscript/slice of <x>.local_diff / <x>.remote_diff (or of a local bound to one)
                out = set()
                for x in ast.walk(e):
                    if isinstance(x, ast.Call):
                        continue
                    if isinstance(x, ast.Subscript):
                        d = dotted(x.value) or ''
                        if isinstance(x.value, ast.Name):
                            for v, k, s_ in defs.get(x.value.id, []):
                                d2 = dotted(v) or ''
                                if d2.endswith('local_diff') or d2.endswith('remote_diff'):
                                    d = d2
                        if d.endswith('local_diff'):
                            out.add('local')
                        elif d.endswith('remote_diff'):
                            out.add('remote')
                return out
            # entries wrapped in a constructor call (op_addrange(key, valuelist ...)) are new entries, not ready-made ones
            sided = []
            for e, st in pieces:
                if isinstance(e, ast.List) and all(isinstance(x, ast.Call) for x in e.elts):
                    continue
                if isinstance(e, ast.Call):
                    continue
                for s_ in side(e):
                    sided.append((s_, e, st))
            both = {s_ for s_, e, st in sided} == {'local', 'remote'}
            bad = None
            if both:
                g = g or CFG(fn)
                for s1, e1, st1 in sided:
                    for s2, e2, st2 in sided:
                        if s1 == 'local' and s2 == 'remote':
                            if st1 is st2:
                                bad = (e1, e2, st1)
                            else:
                                # exclusive iff the two statements sit in different arms of one conditional
                                excl = False
                                for a in repo.ancestors(st1):
                                    if isinstance(a, ast.If):
                                        in_b = lambda s_, blk: any(s_ is x for b_ in blk for x in ast.walk(b_))
                                        if (in_b(st1, a.body) and in_b(st2, a.orelse)) or (in_b(st1, a.orelse) and in_b(st2, a.body)):
                                            excl = True
                                if not excl:
                                    bad = (e1, e2, st2)
            ok = bad is None
            ctx.inst(rule, fid, repo.norm(c)[:70], ok,
                     'ready-made entries come from %s' % (sorted({s_ for s_, e, st in sided}) or 'neither side (all entries are built here)') if ok else
                     'the custom diff takes entries from the local diff (%s) AND from the remote diff (%s) on one path: when both sides removed the same base range the '
                     'diff holds two removals of it -- overlapping list operations' % (ast.unparse(bad[0]), ast.unparse(bad[1])), bad[2] if bad else c)
    if n < 2:
        raise AnalysisError('R11.13: fewer than two custom decisions found in the strategies module')


@extra('C15', 'R15.11', 'after the last collection of diffs has been patched in, apply_decisions / applyDecisions only return the document (Python: through the nbformat type '
       'conversion): neither side normalises, renumbers or repairs the merged document on its own', 2)
def r15_11(ctx, rule):
    from ..tsscan import TsFile
    repo = ctx.repo
    fid = 'nbdime.merging.decisions:apply_decisions'
    fn = repo.func(fid)
    dparam = fn.args.args[1].arg if len(fn.args.args) > 1 else 'decisions'
    loops = [i for i, st in enumerate(fn.body) if isinstance(st, ast.For) and any(isinstance(x, ast.Name) and x.id == dparam for x in ast.walk(st.iter))]
    if not loops:
        raise AnalysisError('apply_decisions: decision loop not found')
    tail = fn.body[loops[0] + 1:]
    rets = [st for st in tail if isinstance(st, ast.Return)]
    if not rets or not isinstance(rets[-1].value, ast.Name):
        raise AnalysisError('apply_decisions: does not end in `return <name>`')
    doc = rets[-1].value.id
    PURE_CONVERSIONS = {'nbformat.from_dict', 'from_dict', 'nbformat.NotebookNode', 'NotebookNode'}
    bad = []
    for st in tail:
        if isinstance(st, ast.Return):
            continue
        if isinstance(st, ast.If):
            # the "apply the last collection" block: stores are patch(...) results only
            others = [x for b in (st.body, st.orelse) for y in b for x in ast.walk(y) if isinstance(x, ast.stmt) and not isinstance(x, (ast.Assign, ast.If, ast.Pass))]
            calls_ = [x for x in ast.walk(st) if isinstance(x, ast.Call)]
            if all(dotted(x.func) == 'patch' for x in calls_) and not others:
                continue
            bad.append(st)
            continue
        if isinstance(st, ast.Assign) and len(st.targets) == 1 and dotted(st.targets[0]) == doc and isinstance(st.value, ast.Call) and \
                dotted(st.value.func) in PURE_CONVERSIONS and len(st.value.args) == 1 and dotted(st.value.args[0]) == doc:
            continue
        if isinstance(st, ast.Expr) and isinstance(st.value, ast.Constant):
            continue
        bad.append(st)
    ctx.inst(rule, fid, 'after the decision loop: %d statement(s) besides the final patch, the type conversion and the return' % len(bad), not bad,
             'the patched document is returned as it is' if not bad else
             '`%s` works on the merged document after the decisions have been applied; the browser\'s applyDecisions returns right after the last patch, so the '
             'two sides give different documents for the same (base, decisions) whenever that step changes anything' % repo.norm(bad[0])[:80], bad[0] if bad else fn)
    ts = TsFile(repo, 'packages/nbdime/src/merge/decisions.ts')
    body = ts.function_body('applyDecisions')
    # tokens after the last top-level `for (...) {...}`: depth-1 scan
    depth, last_for_end, i = 0, None, 0
    toks = body
    while i < len(toks):
        t = toks[i]
        if t.kind == 'punct' and t.text == '{':
            depth += 1
        elif t.kind == 'punct' and t.text == '}':
            depth -= 1
        elif t.kind == 'id' and t.text == 'for' and depth == 1:
            # skip the header (...) and the block {...}
            j = i + 1
            d = 0
            while j < len(toks):
                if toks[j].text == '(':
                    d += 1
                elif toks[j].text == ')':
                    d -= 1
                    if d == 0:
                        break
                j += 1
            k = j + 1
            d = 0
            while k < len(toks):
                if toks[k].text == '{':
                    d += 1
                elif toks[k].text == '}':
                    d -= 1
                    if d == 0:
                        break
                k += 1
            last_for_end = k
            i = k
        i += 1
    if last_for_end is None:
        raise AnalysisError('applyDecisions: decision loop not found')
    tail_t = toks[last_for_end + 1:-1]
    # allowed: one `if (...) { ... patch( ... ) ... }` block and `return <id>;`
    txt = [t.text for t in tail_t]
    calls = [txt[i] for i in range(len(txt) - 1) if txt[i + 1] == '(' and tail_t[i].kind == 'id' and txt[i] not in ('if',)]
    ok = set(calls) <= {'patch'} and txt[-3:-1] != [] and 'return' in txt
    ctx.inst(rule, 'packages/nbdime/src/merge/decisions.ts:applyDecisions', 'after the decision loop: calls %s' % sorted(set(calls)), ok,
             'the patched document is returned as it is' if ok else 'the browser side post-processes the merged document (%s); Python does not' % sorted(set(calls) - {'patch'}), None)


@extra('C15', 'R15.12', 'the list merger registers its decisions in ONE pass over the chunks, in chunk order: the browser applies the decisions of a list in the order they '
       'are sent (it does not re-sort list operations the way Python\'s combine_patches does), so a decision for a higher index must not precede one for a lower index', 2)
def r15_12(ctx, rule):
    from ..util import local_defs
    repo, cg = ctx.repo, ctx.cg
    fid = 'nbdime.merging.generic:_merge_lists'
    fn = repo.func(fid)
    defs = local_defs(fn)
    builders = {t.id for n in walk_no_nested(fn) if isinstance(n, ast.Assign) and isinstance(n.value, ast.Call) and (dotted(n.value.func) or '').endswith('MergeDecisionBuilder')
                for t in n.targets if isinstance(t, ast.Name)}
    if len(builders) != 1:
        raise AnalysisError('_merge_lists: local decision builder not found')
    b = next(iter(builders))

    def from_chunks(e, seen=None):
        seen = set() if seen is None else seen
        for x in ast.walk(e):
            if isinstance(x, ast.Call) and any(t == ('func', 'nbdime.merging.chunks:make_merge_chunks') for t in cg.resolve(x.func, fn)):
                return True
            if isinstance(x, ast.Name) and x.id in defs and x.id not in seen:
                seen.add(x.id)
                if any(from_chunks(v, seen) for v, k, st in defs[x.id] if k in ('assign', 'for', 'unpack')):
                    return True
        return False
    loops = [n for n in walk_no_nested(fn) if isinstance(n, ast.For) and from_chunks(n.iter)]
    top = [l for l in loops if not any(l is not o and any(x is l for x in ast.walk(o)) for o in loops)]
    ok = len(top) == 1
    plain = ok and (isinstance(top[0].iter, ast.Name) and all(isinstance(v, ast.Call) for v, k, st in defs.get(top[0].iter.id, []) if k == 'assign') or isinstance(top[0].iter, ast.Call))
    ctx.inst(rule, fid, '%d loop(s) over the chunks' % len(top), ok and plain,
             'one pass, over the chunk list as make_merge_chunks returns it' if ok and plain else
             ('the chunks are walked %d times: decisions of a later pass come after decisions for higher indices of an earlier one' % len(top) if not ok else
              'the chunk loop runs over a filtered / re-ordered copy of the chunk list'), top[0] if top else fn)
    REGISTER = {'onesided', 'agreement', 'conflict', 'local', 'remote', 'base', 'local_then_remote', 'remote_then_local', 'custom', 'extend', 'add_decision', 'similar_insert', 'tryresolve'}
    outside = []
    n = 0
    for c in calls_in(fn, nested=False):
        if isinstance(c.func, ast.Attribute) and dotted(c.func.value) == b and c.func.attr in REGISTER:
            n += 1
            if not (top and any(c is x for x in ast.walk(top[0]))):
                outside.append(c)
    if n < 5:
        raise AnalysisError('_merge_lists: fewer than 5 decision registrations found')
    ctx.inst(rule, fid, '%d decision registrations, %d outside the chunk loop' % (n, len(outside)), not outside,
             'every decision of the list is registered inside the chunk loop' if not outside else
             '%s registers decisions outside the chunk loop: they are sent before/after the others whatever their index, and the browser applies list operations in '
             'the order received ([addrange(4), removerange(1, 1)] brings a deleted item back)' % repo.norm(outside[0]), outside[0] if outside else fn)


@extra('C16', 'R16.20', 'every notebook nbdime reads is converted to format major 4 on the way in (nbformat.read/reads with as_version=4): the renderers, differs and mergers '
       'address `cells`, which older majors (worksheets) do not have', 4)
def r16_20(ctx, rule):
    repo, cg = ctx.repo, ctx.cg
    n = 0
    for fid, fn in sorted(repo.functions.items()):
        for c in calls_in(fn, nested=False):
            names = {t[1] for t in cg.resolve(c.func, fn) if t[0] == 'ext'} | {dotted(c.func) or ''}
            if not names & {'nbformat.read', 'nbformat.reads'}:
                continue
            n += 1
            av = next((k.value for k in c.keywords if k.arg == 'as_version'), c.args[1] if len(c.args) > 1 else None)
            ok = av is not None and const_val(av) == 4
            ctx.inst(rule, fid, repo.norm(c), ok, 'converted to major 4' if ok else
                     'as_version is %s: a notebook stored in an older format major reaches the code as it is on disk (worksheets instead of cells) and rendering / '
                     'diffing it raises AttributeError' % (ast.unparse(av) if av is not None else 'missing'), c)
    if n == 0:
        raise AnalysisError('R16.20: no nbformat.read call found')


@extra('C16', 'R16.21', 'on the rendering path the result of a regular-expression search/match is not dereferenced without a test: tool output need not contain what the '
       'pattern looks for (git prints "Binary files differ" and no hunk for text with a NUL)', 1)
def r16_21(ctx, rule):
    from ..util import truth_under
    from ..cfg import CFG, cond_guards
    repo, cg = ctx.repo, ctx.cg
    n = 0
    for fid, fn in sorted(repo.functions.items()):
        if not fid.startswith(('nbdime.prettyprint:', 'nbdime.diff_utils:', 'nbdime.utils:', 'nbdime.nbshowapp:', 'nbdime.nbdiffapp:')):
            continue
        m = repo.mod_of(fn)
        compiled = {nm for nm, vals in m.assigns.items() if any(isinstance(v, ast.Call) and dotted(v.func) == 're.compile' for v in vals)}
        g = None
        for c in calls_in(fn, nested=False):
            if not (isinstance(c.func, ast.Attribute) and c.func.attr in ('search', 'match', 'fullmatch')):
                continue
            recv = dotted(c.func.value)
            if not (recv == 're' or recv in compiled):
                continue
            n += 1
            par = repo.parent(c)
            if isinstance(par, (ast.Attribute, ast.Subscript)) and par.value is c:
                ctx.inst(rule, fid, repo.norm(par), False,
                         'the match object is dereferenced where it is produced: when the text does not contain the pattern the result is None and the renderer dies with '
                         'AttributeError', c)
                continue
            # bound to a name: every dereference of the name is behind a test of it
            st = repo.stmt_of(c)
            bad = None
            if isinstance(st, ast.Assign) and st.value is c and len(st.targets) == 1 and isinstance(st.targets[0], ast.Name):
                nm = st.targets[0].id
                g = g or CFG(fn)
                for x in walk_no_nested(fn):
                    if isinstance(x, (ast.Attribute, ast.Subscript)) and isinstance(x.value, ast.Name) and x.value.id == nm:
                        xs = repo.stmt_of(x)
                        guards = list(cond_guards(g, xs))
                        p_, ch = repo.parent(x), x
                        while p_ is not None and not isinstance(p_, ast.stmt):
                            if isinstance(p_, ast.IfExp) and ch is p_.body:
                                guards.append((p_.test, True))
                            elif isinstance(p_, ast.IfExp) and ch is p_.orelse:
                                guards.append((p_.test, False))
                            elif isinstance(p_, ast.BoolOp) and isinstance(p_.op, ast.And) and ch is not p_.values[0]:
                                guards.extend((v, True) for v in p_.values[:p_.values.index(ch)])
                            ch, p_ = p_, repo.parent(p_)
                        is_m = lambda e: isinstance(e, ast.Name) and e.id == nm
                        def not_none(t, pol):
                            if isinstance(t, ast.UnaryOp) and isinstance(t.op, ast.Not):
                                return not_none(t.operand, not pol)
                            if isinstance(t, ast.BoolOp) and ((isinstance(t.op, ast.And) and pol) or (isinstance(t.op, ast.Or) and not pol)):
                                return any(not_none(v, pol) for v in t.values)
                            if truth_under(t, pol, is_m) is True:
                                return True
                            for cmp_ in ast.walk(t):
                                if isinstance(cmp_, ast.Compare) and len(cmp_.ops) == 1 and is_m(cmp_.left) and isinstance(cmp_.comparators[0], ast.Constant) and cmp_.comparators[0].value is None:
                                    if (isinstance(cmp_.ops[0], ast.IsNot) and pol and cmp_ is t) or (isinstance(cmp_.ops[0], ast.Is) and not pol and cmp_ is t):
                                        return True
                            return False
                        if not any(not_none(t, pol) for t, pol in guards):
                            bad = x
                            break
            ctx.inst(rule, fid, repo.norm(c), bad is None, 'tested before use' if bad is None else
                     '`%s` is used without a test of the match: None when the text does not contain the pattern' % repo.norm(bad), bad if bad is not None else c)
    if n == 0:
        ctx.inst(rule, 'nbdime.prettyprint', 'no regular-expression search on the rendering path', True, 'nothing to dereference', None, nontrivial=False)


@extra('C17', 'R17.15', 'the path filters given on the command line reach git as they were typed: what resolve_diff_args returns as paths is built from the command-line '
       'words by selection and list concatenation only (git pathspecs match at any depth and match deleted files; a glob against the working directory does neither)', 1)
def r17_15(ctx, rule):
    from ..util import local_defs
    repo = ctx.repo
    fid = 'nbdime.args:resolve_diff_args'
    fn = repo.func(fid)
    defs = local_defs(fn)
    rets = [r for r in walk_no_nested(fn) if isinstance(r, ast.Return)]
    if not rets or not all(isinstance(r.value, ast.Tuple) and len(r.value.elts) == 3 for r in rets):
        raise AnalysisError('resolve_diff_args: returns are not 3-tuples')
    muts = {}
    for x in walk_no_nested(fn):
        if isinstance(x, ast.Expr) and isinstance(x.value, ast.Call) and isinstance(x.value.func, ast.Attribute) and isinstance(x.value.func.value, ast.Name) and \
                x.value.func.attr in ('append', 'extend', 'insert') and x.value.args:
            muts.setdefault(x.value.func.value.id, []).append(x.value.args[-1])
        if isinstance(x, ast.AugAssign) and isinstance(x.target, ast.Name):
            muts.setdefault(x.target.id, []).append(x.value)

    def foreign(e, seen):
        """first sub-expression of the flow into e that is not selection/concatenation of command-line words"""
        if e is None or isinstance(e, ast.Constant):
            return None
        if isinstance(e, ast.Name):
            if e.id in seen:
                return None
            seen.add(e.id)
            for v, k, st in defs.get(e.id, []):
                if k == 'for' or k == 'unpack' and not isinstance(v, (ast.Tuple, ast.List)):
                    r = foreign(v, seen)
                else:
                    r = foreign(v, seen)
                if r is not None:
                    return r
            for v in muts.get(e.id, []):
                r = foreign(v, seen)
                if r is not None:
                    return r
            return None
        if isinstance(e, ast.Attribute):
            return None if dotted(e) and dotted(e).startswith('args.') else e
        if isinstance(e, (ast.List, ast.Tuple)):
            for x in e.elts:
                r = foreign(x, seen)
                if r is not None:
                    return r
            return None
        if isinstance(e, ast.BinOp) and isinstance(e.op, ast.Add):
            return foreign(e.left, seen) or foreign(e.right, seen)
        if isinstance(e, ast.BoolOp):
            for x in e.values:
                r = foreign(x, seen)
                if r is not None:
                    return r
            return None
        if isinstance(e, ast.IfExp):
            return foreign(e.body, seen) or foreign(e.orelse, seen)
        if isinstance(e, ast.Subscript):
            return foreign(e.value, seen)
        if isinstance(e, ast.Starred):
            return foreign(e.value, seen)
        if isinstance(e, ast.Call) and dotted(e.func) == 'getattr' and len(e.args) >= 2 and dotted(e.args[0]) == 'args':
            return None
        if isinstance(e, ast.Call) and dotted(e.func) in ('list', 'tuple') and len(e.args) == 1:
            return foreign(e.args[0], seen)
        return e
    for r in rets:
        f = foreign(r.value.elts[2], set())
        ctx.inst(rule, fid, repo.norm(r), f is None,
                 'paths are the command-line words, selected and concatenated' if f is None else
                 'the path filters pass through `%s` before they reach git: a pattern such as \'*.ipynb\' (a pathspec that matches nested and deleted notebooks) is '
                 'narrowed to what exists in the current directory, or otherwise rewritten -- git is asked about other files than the user named' % ast.unparse(f)[:80], r)


@extra('C17', 'R17.16', 'the clean filter is run the way git runs it, through the shell with the configured command line as it stands (a filter may be `LC_ALL=C sed ...`, '
       'a pipeline, `~/bin/x`): check_output(<configured string>, shell=True)', 1)
def r17_16(ctx, rule):
    from ..util import local_defs
    repo, cg = ctx.repo, ctx.cg
    fid = 'nbdime.vcs.git.filter_integration:apply_possible_filter'
    fn = repo.func(fid)
    defs = local_defs(fn)
    runs = [c for c in calls_in(fn, nested=False) if any(k.arg == 'stdin' for k in c.keywords) and
            ({t[1] for t in cg.resolve(c.func, fn) if t[0] == 'ext'} | {dotted(c.func) or ''}) &
            {'subprocess.check_output', 'subprocess.run', 'subprocess.Popen', 'subprocess.check_call', 'subprocess.call', 'check_output'}]
    if len(runs) != 1:
        raise AnalysisError('apply_possible_filter: the subprocess call that runs the filter (stdin=<file>) was not found')
    c = runs[0]
    shell = next((k.value for k in c.keywords if k.arg == 'shell'), None)
    cmd = c.args[0] if c.args else next((k.value for k in c.keywords if k.arg == 'args'), None)
    via_shell = shell is not None and const_val(shell) is True

    def verbatim(e, seen):
        if isinstance(e, ast.Name) and e.id not in seen:
            seen.add(e.id)
            ds = defs.get(e.id, [])
            return bool(ds) and all(verbatim(v, seen) for v, k, st in ds)
        if isinstance(e, ast.Name):
            return True         # already visited
        if isinstance(e, ast.Constant) and e.value is None:
            return True         # "no filter": never reaches the call (a None command cannot be run)
        if isinstance(e, ast.Call):
            tg = [t for t in cg.resolve(e.func, fn) if t[0] == 'func']
            return bool(tg) and all(t[1].startswith('nbdime.vcs.git.filter_integration:') for t in tg)     # the config reader
        return False
    ok = via_shell and cmd is not None and verbatim(cmd, set())
    ctx.inst(rule, fid, repo.norm(c), ok,
             'configured command line handed to the shell unchanged' if ok else
             ('the filter is not run through a shell (shell=%s): a command that relies on shell syntax -- an environment assignment, a pipe, ~ -- fails to start, and the '
              'caller then treats a modified notebook on disk as missing or unfiltered' % (ast.unparse(shell) if shell is not None else 'absent') if not via_shell else
              'the command handed to the shell is not the configured string itself (%s)' % (ast.unparse(cmd) if cmd is not None else '?')), c)


@extra('C18', 'R18.12', 'the repository-scope attributes file is <current directory>/.gitattributes and is used iff <current directory>/.git EXISTS (a directory in a clone, a '
       'FILE in a linked worktree or submodule): no walk to parent directories, no directory-only probe -- a nested worktree must not write into the checkout around it', 2)
def r18_12(ctx, rule):
    repo, cg = ctx.repo, ctx.cg
    fid = 'nbdime.utils:locate_gitattributes'
    fn = repo.func(fid)
    probes = []
    for c in calls_in(fn, nested=False):
        if any(isinstance(x, ast.Constant) and x.value == '.git' for a in c.args for x in ast.walk(a)):
            names = {t[1] for t in cg.resolve(c.func, fn) if t[0] == 'ext'} | {dotted(c.func) or ''}
            if names & {'os.path.exists', 'os.path.lexists', 'os.path.isdir', 'os.path.isfile', 'os.access', 'os.stat', 'os.listdir'} or \
                    (dotted(c.func) or '').startswith('os.path.is'):
                probes.append((c, names))
    if not probes:
        raise AnalysisError('locate_gitattributes: the probe for .git was not found')
    for c, names in probes:
        ok = bool(names & {'os.path.exists', 'os.path.lexists'})
        ctx.inst(rule, fid, repo.norm(c), ok, 'existence probe' if ok else
                 'the probe accepts only one kind of .git: in a linked worktree or a submodule .git is a file, so the top of that work tree is not recognised as a repository', c)
    # the arm that holds the probe: no loop, no dirname (walk to the parents)
    c0 = probes[0][0]
    arm = None
    for a in repo.ancestors(c0):
        if isinstance(a, ast.If) and any(isinstance(x, ast.Compare) and any(isinstance(y, ast.Constant) and y.value in ('global', 'system') for y in ast.walk(x)) for x in ast.walk(a.test)):
            arm = a
    body = None
    if arm is not None:
        n_ = arm
        while True:
            if any(c0 is x for st in n_.orelse for x in ast.walk(st)):
                if len(n_.orelse) == 1 and isinstance(n_.orelse[0], ast.If) and any(c0 is x for x in ast.walk(n_.orelse[0])) and \
                        not any(c0 is x for x in ast.walk(n_.orelse[0].test)) and any(isinstance(y, ast.Constant) and y.value in ('global', 'system') for y in ast.walk(n_.orelse[0].test)):
                    n_ = n_.orelse[0]
                    continue
                body = n_.orelse
            break
    if body is None:
        body = [repo.stmt_of(c0)]
        p_ = repo.parent(body[0])
        while p_ is not None and p_ is not fn and isinstance(p_, (ast.While, ast.For)):
            body = [p_]
            p_ = repo.parent(p_)
    loops = [x for st in body for x in ast.walk(st) if isinstance(x, (ast.While, ast.For))]
    ups = [x for st in body for x in ast.walk(st) if isinstance(x, ast.Call) and (dotted(x.func) or '') in ('os.path.dirname', 'os.path.split') or
           (isinstance(x, ast.Attribute) and x.attr in ('parent', 'parents'))]
    ok = not loops and not ups
    ctx.inst(rule, fid, 'repository scope: %d loop(s), %d step(s) to a parent directory' % (len(loops), len(ups)), ok,
             'only the current directory is considered' if ok else
             'the lookup walks up to parent directories: run at the top of a worktree or submodule that lies inside another checkout, it returns the OUTER repository\'s '
             '.gitattributes -- enable appends its line there (a foreign file) and the repository where it was run gets none', (loops or ups or [fn])[0])


@extra('C18', 'R18.13', 'disabling a driver removes its section whatever value is registered there: the section name is nbdime\'s own (diff/merge.jupyternotebook), and a '
       'customised command (webdiff, extra flags) is still nbdime\'s driver -- the removal is not behind a test of a value read from the configuration', 2)
def r18_13(ctx, rule):
    from ..util import local_defs, depends_on
    from ..cfg import CFG, cond_guards
    repo, cg = ctx.repo, ctx.cg
    for mod in ('nbdime.vcs.git.diffdriver', 'nbdime.vcs.git.mergedriver'):
        fid = mod + ':disable'
        fn = repo.func(fid)
        defs = local_defs(fn)
        g = CFG(fn)
        rm = [c for c in calls_in(fn, nested=False) if any(isinstance(x, ast.Constant) and x.value == '--remove-section' for a in c.args for x in ast.walk(a))]
        if not rm:
            # the driver is taken out some other way (R18.3 judges whether that removes what enable registered)
            ctx.inst(rule, fid, 'no --remove-section call', True, 'nothing conditional to judge here', fn, nontrivial=False)
            continue
        for c in rm:
            st = repo.stmt_of(c)
            dep = None
            for t, pol in cond_guards(g, st):
                r = depends_on(fn, t, lambda x: isinstance(x, ast.Call) and ((dotted(x.func) or '').endswith('check_output') or (dotted(x.func) or '').endswith('.run') or
                                                                               (dotted(x.func) or '').endswith('Popen')), defs)
                if r is not None:
                    dep = t
            ctx.inst(rule, fid, repo.norm(c), dep is None, 'unconditional with respect to the registered value' if dep is None else
                     'the section is removed only if `%s` (a value read from the git configuration) holds: a driver registered with another nbdime command line '
                     '(git-nbdiffdriver webdiff, extra flags) survives `--disable`, which reports success, and git keeps routing notebooks to nbdime' % ast.unparse(dep)[:70], c)


@extra('C19', 'R19.12', 'recursive_update stores every entry under the key it was given: the loop key is not rebound, and every store / removal in the target uses it (section '
       'names, option names and the PATHS of Ignore mappings are all keys here; normalising one kind rewrites the others)', 2)
def r19_12(ctx, rule):
    repo = ctx.repo
    fn = repo.func('nbdime.config:recursive_update')
    fid = repo.fid_of(fn)
    loops = [n for n in walk_no_nested(fn) if isinstance(n, ast.For) and isinstance(n.iter, ast.Call) and isinstance(n.iter.func, ast.Attribute) and n.iter.func.attr == 'items']
    if len(loops) != 1 or not (isinstance(loops[0].target, ast.Tuple) and isinstance(loops[0].target.elts[0], ast.Name)):
        raise AnalysisError('recursive_update: `for k, v in new.items()` not found')
    lp = loops[0]
    k = lp.target.elts[0].id
    tgt = fn.args.args[0].arg
    rebinds = [x for st in lp.body for x in ast.walk(st) if isinstance(x, ast.Name) and x.id == k and isinstance(x.ctx, ast.Store)]
    ctx.inst(rule, fid, 'loop key `%s`: %d rebinding(s)' % (k, len(rebinds)), not rebinds,
             'the key is used as given' if not rebinds else
             'the key is rewritten (%s) before it is stored: an Ignore path such as /metadata/my-key is filed under another path and matches nothing, and two distinct '
             'keys set in different sections collapse into one' % repo.norm(repo.stmt_of(rebinds[0])), rebinds[0] if rebinds else lp)
    bad = []
    n = 0
    for st in lp.body:
        for x in ast.walk(st):
            if isinstance(x, ast.Subscript) and dotted(x.value) == tgt:
                n += 1
                if not (isinstance(x.slice, ast.Name) and x.slice.id == k):
                    bad.append(x)
            if isinstance(x, ast.Call) and isinstance(x.func, ast.Attribute) and dotted(x.func.value) == tgt and x.func.attr in ('pop', 'setdefault', 'get', '__setitem__', '__delitem__') and x.args:
                n += 1
                if not (isinstance(x.args[0], ast.Name) and x.args[0].id == k):
                    bad.append(x)
    if n < 3:
        raise AnalysisError('recursive_update: fewer than 3 keyed accesses of the target found')
    ctx.inst(rule, fid, '%d keyed accesses of `%s`' % (n, tgt), not bad, 'all use the loop key' if not bad else
             '`%s` addresses the target with something other than the loop key' % repo.norm(bad[0]), bad[0] if bad else lp)


@extra('C20', 'R20.16', 'each tool endpoint consults the start-up arguments of its OWN tool only (diff handlers: difftool_args, merge handlers: mergetool_args), directly or '
       'through helpers of its class: a merge-tool server must answer /api/diff from the request, not from the merge tool\'s files', 4)
def r20_16(ctx, rule):
    repo = ctx.repo
    SRV_ = 'nbdime.webapp.nbdimeserver'
    m = repo.mod(SRV_)
    classes = {c.name: c for c in m.tree.body if isinstance(c, ast.ClassDef)}

    def members(cname, seen=None):
        """name -> def, own class first, then package bases"""
        seen = seen or set()
        out = {}
        if cname in classes and cname not in seen:
            seen.add(cname)
            for b in classes[cname].bases:
                bn = dotted(b)
                if bn in classes:
                    for k_, v_ in members(bn, seen).items():
                        out.setdefault(k_, v_)
            for st in classes[cname].body:
                if isinstance(st, ast.FunctionDef):
                    out[st.name] = st
        return out

    def keys_of(cname, f, depth=0, seen=None):
        seen = seen if seen is not None else set()
        if id(f) in seen:
            return set()
        seen.add(id(f))
        ks = {x.value for x in ast.walk(f) if isinstance(x, ast.Constant) and x.value in ('difftool_args', 'mergetool_args')}
        mem = members(cname)
        for x in ast.walk(f):
            if isinstance(x, ast.Attribute) and isinstance(x.value, ast.Name) and x.value.id == 'self' and x.attr in mem and depth < 3:
                ks |= keys_of(cname, mem[x.attr], depth + 1, seen)
        return ks
    n = 0
    for cname, cls in sorted(classes.items()):
        own = 'difftool_args' if 'Diff' in cname else 'mergetool_args' if 'Merge' in cname else None
        if own is None:
            continue
        for st in cls.body:
            if not isinstance(st, ast.FunctionDef):
                continue
            ks = keys_of(cname, st)
            if not ks:
                continue
            n += 1
            other = ks - {own}
            ctx.inst(rule, '%s:%s.%s' % (SRV_, cname, st.name), 'consults %s' % sorted(ks), not other,
                     'own tool\'s start-up arguments only' if not other else
                     'a %s endpoint also consults %s: on a server started as the other tool it ignores the request and answers from that tool\'s files (or raises KeyError '
                     'for a name that tool does not have)' % ('diff' if own == 'difftool_args' else 'merge', sorted(other)), st)
    if n < 4:
        raise AnalysisError('R20.16: fewer than 4 tool-argument readers found among the handlers')


def _r_mutable_defaults(ctx, rule):
    """A default value is created once, when the function is defined: a list/dict/set default that is kept (stored on an object, returned) or
    changed in place is one object shared by every call that relies on the default -- what one diff/merge adds to it is there for the next."""
    repo = ctx.repo
    n_fn = 0
    found = 0
    for fid, fn in sorted(repo.functions.items()):
        a = fn.args
        ds = list(zip(a.args[len(a.args) - len(a.defaults):], a.defaults)) + [(x, d) for x, d in zip(a.kwonlyargs, a.kw_defaults) if d is not None]
        n_fn += 1
        for p, d in ds:
            mutable = isinstance(d, (ast.List, ast.Dict, ast.Set, ast.ListComp, ast.DictComp, ast.SetComp)) or \
                (isinstance(d, ast.Call) and dotted(d.func) in ('list', 'dict', 'set', 'defaultdict', 'collections.defaultdict', 'OrderedDict', 'collections.OrderedDict', 'bytearray'))
            if not mutable:
                continue
            found += 1
            nm = p.arg
            escapes = []
            for x in walk_no_nested(fn):
                if isinstance(x, ast.Assign) and isinstance(x.value, ast.Name) and x.value.id == nm and any(isinstance(t, (ast.Attribute, ast.Subscript)) for t in x.targets):
                    escapes.append(('kept as %s' % ast.unparse(x.targets[0]), x))
                if isinstance(x, ast.Return) and isinstance(x.value, ast.Name) and x.value.id == nm:
                    escapes.append(('returned', x))
                if isinstance(x, ast.Call) and isinstance(x.func, ast.Attribute) and isinstance(x.func.value, ast.Name) and x.func.value.id == nm and \
                        x.func.attr in ('append', 'extend', 'insert', 'update', 'add', 'pop', 'remove', 'clear', 'setdefault', 'sort', 'reverse'):
                    escapes.append(('changed in place by .%s()' % x.func.attr, x))
                if isinstance(x, (ast.Assign, ast.AugAssign, ast.Delete)):
                    tg = x.targets if isinstance(x, (ast.Assign, ast.Delete)) else [x.target]
                    for t in tg:
                        if isinstance(t, ast.Subscript) and isinstance(t.value, ast.Name) and t.value.id == nm:
                            escapes.append(('item store', x))
                        if isinstance(x, ast.AugAssign) and isinstance(t, ast.Name) and t.id == nm:
                            escapes.append(('augmented in place', x))
            ctx.inst(rule, fid, 'default %s=%s' % (nm, ast.unparse(d)), not escapes,
                     'never kept or changed' if not escapes else
                     'the default of `%s` is ONE object for all calls and it is %s: whatever one call (one merge, one request) puts into it is still there in the next -- '
                     'the result depends on what the process did before' % (nm, escapes[0][0]), escapes[0][1] if escapes else fn)
    if not found:
        ctx.inst(rule, 'nbdime', '%d functions: no mutable default value' % n_fn, True, 'nothing shared between calls through a default', None)
    if n_fn < 300:
        raise AnalysisError('fewer than 300 functions examined for mutable defaults')


@extra('C12', 'R12.13', 'no parameter default is a mutable object that the function keeps or changes (one object shared by all calls: process history leaks into later results)', 1)
def r12_13(ctx, rule):
    _r_mutable_defaults(ctx, rule)


def _r_ignore_installed(ctx, rule):
    """The Ignore mapping read from the configuration is installed whenever there is one: the only condition is the mapping itself."""
    from ..util import local_defs, names_in
    from ..cfg import CFG, cond_guards
    repo, cg = ctx.repo, ctx.cg
    fid = 'nbdime.args:ConfigBackedParser.parse_known_args'
    fn = repo.func(fid)
    calls = [c for c in calls_in(fn, nested=False) if any(t == ('func', 'nbdime.diffing.notebooks:set_notebook_diff_ignores') for t in cg.resolve(c.func, fn))]
    if len(calls) != 1 or not calls[0].args:
        raise AnalysisError('parse_known_args: the call that installs the configured Ignore mapping was not found')
    c = calls[0]
    var = names_in(c.args[0])
    g = CFG(fn)
    extra_ = []
    for t, pol in cond_guards(g, repo.stmt_of(c)):
        others = names_in(t) - var - {'None', 'True', 'False'}
        if others:
            extra_.append((t, sorted(others)))
    ctx.inst(rule, fid, repo.norm(c) + ('  [also guarded by %s]' % '; '.join(repo.norm(t) for t, o in extra_) if extra_ else ''), not extra_,
             'installed whenever the configuration has an Ignore mapping' if not extra_ else
             'the configured Ignore mapping is installed only if `%s` allows it: with that condition false (a flag given, a boolean set in a config section) every configured '
             'path ignore is silently dropped -- including paths no flag controls' % ast.unparse(extra_[0][0])[:80], c)


@extra('C19', 'R19.13', 'the Ignore mapping of the configuration is installed whenever it is present: nothing but the mapping itself decides (flags and section booleans add to '
       'it, they do not switch it off)', 1)
def r19_13(ctx, rule):
    _r_ignore_installed(ctx, rule)


@extra('C14', 'R14.18', 'the Ignore mapping of the configuration is installed whenever it is present: nothing but the mapping itself decides', 1)
def r14_18(ctx, rule):
    _r_ignore_installed(ctx, rule)


@extra('C06', 'R06.2', 'cell identity outranks content in the alignment of cells: in the predicate list for /cells (low to high precedence) the predicate that compares cell ids is '
       'the LAST one -- a content predicate above it pairs a cell with the twin of another cell, and one side\'s diff reaches into a cell the other side owns', 1)
def r06_2(ctx, rule):
    repo, cg = ctx.repo, ctx.cg
    NB_ = 'nbdime.diffing.notebooks'
    tbl = repo.module_assign(NB_, 'notebook_predicates')
    d = next((a for a in ast.walk(tbl) if isinstance(a, ast.Dict)), None)
    if d is None:
        raise AnalysisError('notebook_predicates: table literal not found')
    lst = next((v for k, v in zip(d.keys, d.values) if const_val(k) == '/cells'), None)
    if not isinstance(lst, (ast.List, ast.Tuple)) or len(lst.elts) < 2:
        raise AnalysisError('notebook_predicates["/cells"] is not a list of predicates')
    m = repo.mod(NB_)
    id_based = []
    for i, e in enumerate(lst.elts):
        f = m.defs.get(dotted(e) or '')
        if f is None:
            try:
                f = repo.func('%s:%s' % (NB_, dotted(e)))
            except AnalysisError:
                raise AnalysisError('notebook_predicates["/cells"]: predicate %s not resolved' % ast.unparse(e))
        uses_id = any((isinstance(x, ast.Constant) and x.value == 'id') or (isinstance(x, ast.Attribute) and x.attr == 'id') for x in ast.walk(f))
        other_fields = any(isinstance(x, ast.Constant) and x.value in ('source', 'outputs', 'cell_type') or isinstance(x, ast.Attribute) and x.attr in ('source', 'outputs', 'cell_type')
                           for x in ast.walk(f))
        if uses_id and not other_fields:
            id_based.append(i)
    if len(id_based) != 1:
        raise AnalysisError('notebook_predicates["/cells"]: expected exactly one id-only predicate, found %d' % len(id_based))
    ok = id_based[0] == len(lst.elts) - 1
    ctx.inst(rule, NB_ + ':notebook_predicates', '/cells: %s' % [ast.unparse(e) for e in lst.elts], ok,
             'the id predicate has the highest precedence' if ok else
             'the id predicate is entry %d of %d: %s outranks it, and that predicate ignores id, metadata and execution count -- of two cells with equal content it pairs the '
             'wrong twins, so a deletion on one side and an edit on the other land on the same cell' % (id_based[0] + 1, len(lst.elts), ast.unparse(lst.elts[-1])), lst)


@extra('C03', 'R03.27', 'a resolver that writes an entry of its own naming into the merged object (the `nbdime-conflicts` record, the LOCAL_/REMOTE_ copies of an attachment) first drops '
       'the surviving decisions that target that entry: base may already hold one from an earlier merge, and a side that removed or edited it leaves a second diff entry on the '
       'same key -- the patcher refuses that and the merge aborts', 2)
def r03_27(ctx, rule):
    from ..util import local_defs
    from ..cfg import CFG
    repo, cg = ctx.repo, ctx.cg
    n = 0
    for fid, fn in sorted(repo.functions.items()):
        if not fid.startswith('nbdime.merging.strategies:'):
            continue
        defs = local_defs(fn)
        customs = [c for c in calls_in(fn, nested=False) if isinstance(c.func, ast.Attribute) and c.func.attr == 'custom']
        if not customs:
            continue
        # keys of the function's own making that end up in an op_add / op_replace
        own = []
        for c in calls_in(fn, nested=False):
            if not any(t in (('func', 'nbdime.diff_format:op_add'), ('func', 'nbdime.diff_format:op_replace')) for t in cg.resolve(c.func, fn)) or not c.args:
                continue
            k = c.args[0]
            if isinstance(k, ast.Constant) and isinstance(k.value, str):
                own.append((k, c))
            elif isinstance(k, ast.Name):
                ds = [v for v, kind, st in defs.get(k.id, []) if kind == 'assign']
                if ds and all(isinstance(v, ast.BinOp) and any(isinstance(x, ast.Constant) and isinstance(x.value, str) for x in (v.left, v.right)) for v in ds):
                    own.append((k, c))
        if not own:
            continue
        builder = dotted(customs[0].func.value)
        # filters of the surviving decisions: assignments to <builder>.decisions, or calls of a helper that makes one for its first parameter
        filters = []
        for st in walk_no_nested(fn):
            if isinstance(st, ast.Assign) and any(isinstance(t, ast.Attribute) and t.attr == 'decisions' and dotted(t.value) == builder for t in st.targets):
                filters.append((st, st.value))
            if isinstance(st, ast.Expr) and isinstance(st.value, ast.Call) and st.value.args and dotted(st.value.args[0]) == builder:
                for t in cg.resolve(st.value.func, fn):
                    if t[0] == 'func' and t[1] in repo.functions:
                        h = repo.functions[t[1]]
                        p0 = h.args.args[0].arg if h.args.args else None
                        if any(isinstance(x, ast.Assign) and any(isinstance(tt, ast.Attribute) and tt.attr == 'decisions' and dotted(tt.value) == p0 for tt in x.targets)
                               for x in walk_no_nested(h)):
                            filters.append((st, st.value))
        seen_keys = set()
        for k, c in own:
            key_txt = ast.unparse(k)
            if key_txt in seen_keys:
                continue
            seen_keys.add(key_txt)
            n += 1

            def mentions(e):
                for x in ast.walk(e):
                    if isinstance(k, ast.Constant) and isinstance(x, ast.Constant) and x.value == k.value:
                        return True
                    if isinstance(k, ast.Name) and isinstance(x, ast.Name) and x.id == k.id:
                        return True
                return False
            ev = [st for st, e in filters if mentions(e)]
            ok = bool(ev)
            ctx.inst(rule, fid, 'writes %s via %s' % (key_txt, repo.norm(c)[:50]), ok,
                     'surviving decisions on that entry are dropped first (%s)' % repo.norm(ev[0])[:70] if ok else
                     'the surviving (non-conflicted) decisions are kept whatever they target: if base already has %s and one side removed or changed it, the decisions now hold a '
                     'remove/patch AND this add/replace of the same key -- patch_dict asserts "cannot replace deleted key" / "multiple diff entries target same key" and the '
                     'merge aborts' % key_txt, c)
    if n < 2:
        raise AnalysisError('R03.27: fewer than two resolver-named entries found in the strategies module')


def _r_level_relative_push(ctx, rule):
    """Some actions are resolved relative to the decision's own path (resolve_action reads base[...] for them: clear, remove, clear_all, take_max).  Moving such
    a decision to an outer level (push_patch_decision wraps its diffs in patches and shortens its path) changes what the action does: `clear` of key
    execution_count inside output 0 becomes `clear` of item 0 of the outputs list -- the whole output turns into {}."""
    from ..util import if_chain, compare_eq_const, local_defs
    from .c03 import strategy_table, _action_strategies
    from .. import mergefacts as mf
    repo, cg = ctx.repo, ctx.cg
    ra = repo.func(mf.DEC + ':resolve_action')
    bparam = ra.args.args[0].arg
    rel_actions = set()
    for n in walk_no_nested(ra):
        if isinstance(n, ast.If):
            for test, body, nd in if_chain(n)[0]:
                consts = {x.value for x in ast.walk(test) if isinstance(x, ast.Constant) and isinstance(x.value, str)}
                if consts and any(isinstance(x, ast.Name) and x.id == bparam for st in body for x in ast.walk(st)):
                    rel_actions |= consts
            break
    if not rel_actions:
        raise AnalysisError('resolve_action: no action that reads the base value found')
    act2strat = _action_strategies(repo, cg)
    rel_strats = set()
    for a in rel_actions:
        rel_strats |= act2strat.get(a, set())
    table, _tr = strategy_table(ctx)
    PUSH = mf.DEC + ':push_patch_decision'
    # resolver functions from which a push is reached, and the strategy names that dispatch to them
    sites = []
    for fid, fn in sorted(repo.functions.items()):
        if not fid.startswith(mf.STR + ':'):
            continue
        for c in calls_in(fn, nested=True):
            if ('func', PUSH) in cg.resolve(c.func, fn):
                sites.append((fid, c))
    if not sites:
        ctx.inst(rule, mf.STR, 'no decision is moved to another level in the strategies module', True, 'nothing to change meaning', None)
        return
    dispatch = {}
    for dfid in (mf.STR + ':resolve_conflicted_decisions_list', mf.STR + ':resolve_conflicted_decisions_dict', mf.STR + ':resolve_conflicted_decisions_strings'):
        df = repo.func(dfid)
        for n in walk_no_nested(df):
            if isinstance(n, ast.If):
                for test, body, nd in if_chain(n)[0]:
                    ce = compare_eq_const(test)
                    if not ce:
                        continue
                    for st in body:
                        for c in ast.walk(st):
                            if isinstance(c, ast.Call):
                                for t in cg.resolve(c.func, df):
                                    if t[0] == 'func':
                                        dispatch.setdefault(t[1], set()).update(x for x in ce[1] if isinstance(x, str))
    for site_fid, c in sites:
        resolvers = {r for r in dispatch if r == site_fid or site_fid in cg.reachable([r])}
        if not resolvers:
            # dispatch by table / other indirection: which strategies reach this function is not recovered -- no verdict (R03.4 / R10.1 judge the dispatch itself)
            ctx.inst(rule, site_fid, 'moves decisions to its own level; the strategies that dispatch to it were not recovered', True, 'not judged', c, nontrivial=False)
            continue
        for r in sorted(resolvers):
            rf = repo.functions[r]
            keeps = any(isinstance(x, ast.Call) and isinstance(x.func, ast.Attribute) and x.func.attr == 'extend' and (dotted(x.func.value) or '').endswith('.decisions') for x in ast.walk(rf)) or \
                any(isinstance(x, ast.Assign) and any(isinstance(t, ast.Attribute) and t.attr == 'decisions' for t in x.targets) and
                    not (isinstance(x.value, ast.List) and not x.value.elts) and not any(isinstance(y, ast.Call) and ('func', PUSH) in cg.resolve(y.func, rf) for y in ast.walk(x.value))
                    for x in ast.walk(rf))
            attached = sorted(p for p, strats in table.items() if strats & dispatch[r])
            hazard = sorted(q for q, strats in table.items() if strats & rel_strats and any(q.startswith(p.rstrip('/') + '/') for p in attached))
            ok = not (keeps and hazard)
            ctx.inst(rule, r, 'moves decisions to its own level via %s; attached at %s' % (site_fid.split(':')[1], attached), ok,
                     'no level-relative strategy (%s) is attached below these paths' % sorted(rel_strats) if ok else
                     'decisions below %s can carry the level-relative action of %s (strategy %s); this resolver moves every decision up to its own level and keeps the ones it '
                     'does not resolve: after the move the action applies to the ITEM (clear of key execution_count in output 0 becomes clear of output 0 = {}), and the merged '
                     'notebook is invalid' % (attached, hazard, sorted(rel_strats & set().union(*[table[q] for q in hazard]))), c)


@extra('C04', 'R04.11', 'a decision whose action is resolved relative to its own path (clear, remove, clear_all, take_max) is not moved to another level and then kept: '
       'resolvers that re-level decisions are attached only where no such strategy lies below', 1)
def r04_11(ctx, rule):
    _r_level_relative_push(ctx, rule)


@extra('C03', 'R03.28', 'decisions.onesided is reached only where one of the two diffs handed to it is empty (it asserts that): evaluated over every chunk type of the list merger '
       'and every (1 or 2 entries) x (1 or 2 entries) shape of concurrent inserts', 20)
def r03_28(ctx, rule):
    from ..consteval import reachable_arms, Abstract, Evaluator, UNKNOWN
    from .c03 import chunk_switch_model
    from ..util import if_chain
    repo, cg = ctx.repo, ctx.cg
    MG_ = 'nbdime.merging.generic'
    m = chunk_switch_model(repo, cg)
    bad = {}

    def scan(stmts, ev, label, fid):
        """walk statements, following only the arms that can execute; report onesided calls whose operands are both non-empty"""
        for st in stmts:
            if isinstance(st, ast.If):
                for idx, body in reachable_arms(ev, st):
                    scan(body, ev, label, fid)
                continue
            for c in ast.walk(st):
                if isinstance(c, ast.Call) and isinstance(c.func, ast.Attribute) and c.func.attr == 'onesided' and len(c.args) >= 3:
                    a, b = ev.ev(c.args[1]), ev.ev(c.args[2])
                    if ev.truth(a) is True and ev.truth(b) is True:
                        bad.setdefault(id(c), (c, fid, []))[2].append(label)
    for la, lp, ra, rp in m['combos']:
        ct = '%s%s/%s%s' % (la, lp, ra, rp)
        ev = m['make_ev'](la, lp, ra, rp)
        n0 = sum(len(v[2]) for v in bad.values())
        for idx, body in reachable_arms(ev, m['bigif']):
            scan(body, ev, 'chunk type ' + ct, MG_ + ':_merge_lists')
        if sum(len(v[2]) for v in bad.values()) == n0:
            ctx.inst(rule, MG_ + ':_merge_lists', 'chunk type %s' % ct, True, 'no onesided decision with two non-empty diffs', m['bigif'])
    ci = repo.func(MG_ + ':_merge_concurrent_inserts')
    ps = [a.arg for a in ci.args.args]
    if len(ps) < 3:
        raise AnalysisError('_merge_concurrent_inserts: signature changed')
    for lt, rt in (('A', 'A'), ('AR', 'A'), ('A', 'AR'), ('AR', 'AR')):
        n0 = sum(len(v[2]) for v in bad.values())
        ev = Evaluator({ps[1]: Abstract(lt, m['letter_ops']), ps[2]: Abstract(rt, m['letter_ops'])}, m['consts'])
        scan(ci.body, ev, 'inserts %s/%s' % (lt, rt), MG_ + ':_merge_concurrent_inserts')
        if sum(len(v[2]) for v in bad.values()) == n0:
            ctx.inst(rule, MG_ + ':_merge_concurrent_inserts', 'shapes %s/%s' % (lt, rt), True, 'no onesided decision with two non-empty diffs', ci)
    for c, fid, labels in bad.values():
        ctx.inst(rule, fid, repo.norm(c) + '  [%s]' % ', '.join(sorted(set(labels))), False,
                 'both diffs handed to onesided() are non-empty here: the builder asserts "one diff should be empty in onesided merge decisions" and the merge aborts, under every '
                 'strategy and every text-merge tool', c)


@extra('C03', 'R03.29', 'the transient-path collection of the strategy table is always a collection: every value that can reach Strategies.transients (constructor keyword, default, '
       'later assignment) supports `in` -- None there makes the first delete-versus-edit conflict raise TypeError', 2)
def r03_29(ctx, rule):
    from ..util import local_defs
    repo, cg = ctx.repo, ctx.cg

    def may_be_none(fn, e, defs, seen):
        if e is None:
            return True
        if isinstance(e, ast.Constant):
            return e.value is None
        if isinstance(e, ast.IfExp):
            return may_be_none(fn, e.body, defs, seen) or may_be_none(fn, e.orelse, defs, seen)
        if isinstance(e, ast.BoolOp):
            if isinstance(e.op, ast.Or):
                return may_be_none(fn, e.values[-1], defs, seen)
            return any(may_be_none(fn, v, defs, seen) for v in e.values)
        if isinstance(e, ast.Name) and e.id not in seen:
            seen.add(e.id)
            ds = defs.get(e.id, [])
            return any(may_be_none(fn, v, defs, seen) for v, k, st in ds if k == 'assign')
        if isinstance(e, ast.Call) and isinstance(e.func, ast.Attribute) and e.func.attr in ('pop', 'get') and len(e.args) >= 1:
            return len(e.args) < 2 or may_be_none(fn, e.args[1], defs, seen)
        return False
    n = 0
    for fid, fn in sorted(repo.functions.items()):
        if not fid.startswith(('nbdime.merging.', 'nbdime.utils:')):
            continue
        defs = local_defs(fn)
        for x in walk_no_nested(fn):
            val = None
            if isinstance(x, ast.Call) and (dotted(x.func) or '').endswith('Strategies'):
                val = next((k.value for k in x.keywords if k.arg == 'transients'), None)
                if val is None:
                    continue
            elif isinstance(x, ast.Assign) and any(isinstance(t, ast.Attribute) and t.attr == 'transients' for t in x.targets):
                val = x.value
            else:
                continue
            n += 1
            bad = may_be_none(fn, val, defs, set())
            ctx.inst(rule, fid, repo.norm(x)[:90], not bad, 'a collection on every path' if not bad else
                     '`%s` can be None: with transient-ignoring switched off the table then has transients=None, and is_diff_all_transients does `path in None` on the first '
                     'delete-versus-edit conflict -- TypeError, the merge aborts' % ast.unparse(val)[:70], x)
    # the constructor's parameter default
    init = repo.functions.get('nbdime.utils:Strategies.__init__')
    if init is not None:
        a = init.args
        for p_, d in list(zip(a.args[len(a.args) - len(a.defaults):], a.defaults)) + [(p_, d) for p_, d in zip(a.kwonlyargs, a.kw_defaults)]:
            if p_.arg == 'transients':
                n += 1
                bad = d is None or (isinstance(d, ast.Constant) and d.value is None)
                uses_direct = any(isinstance(x, ast.Assign) and isinstance(x.value, ast.Name) and x.value.id == 'transients' and
                                  any(isinstance(t, ast.Attribute) and t.attr == 'transients' for t in x.targets) for x in walk_no_nested(init))
                ctx.inst(rule, 'nbdime.utils:Strategies.__init__', 'default transients=%s' % (ast.unparse(d) if d is not None else 'None'), not (bad and uses_direct),
                         'a collection' if not (bad and uses_direct) else 'the default None is stored as it is', init)
    if n < 2:
        raise AnalysisError('R03.29: fewer than two places that set Strategies.transients found')


# ------------------------------------------------------------------------------------------------ rules that are necessary conditions of more than one property
@extra('C01', 'R01.19', 'mapping diff entries are keyed by the iteration/lookup key itself, never by a transformed copy (C11 R11.6): a diff that names another key cannot be '
       'applied to the document it was computed from', 8)
def r01_19(ctx, rule):
    from ..report import run_sub
    from . import c11
    run_sub(ctx, c11, {'R11.6': rule})


@extra('C01', 'R01.20', 'items of the documents are never used as dict/set keys or memo keys (C02 R02.5): 1, 1.0 and True are one key, so a type change goes unreported', 1)
def r01_20(ctx, rule):
    from ..report import run_sub
    from . import c02
    run_sub(ctx, c02, {'R02.5': rule})


@extra('C01', 'R01.21', 'the order-sensitive similarity predicate always receives (item of the first document, item of the second) (C02 R02.20): asked the other way round it '
       'aligns a borderline pair that the sanity check rejects, and no diff is produced at all', 6)
def r01_21(ctx, rule):
    from ..report import run_sub
    from . import c02
    run_sub(ctx, c02, {'R02.20': rule})


@extra('C02', 'R02.21', 'patches descend only into containers of the SAME kind (C11 R11.3): recursing into a list-vs-object or string-vs-array change raises instead of '
       'reporting a replacement', 3)
def r02_21(ctx, rule):
    from ..report import run_sub
    from . import c11
    run_sub(ctx, c11, {'R11.3': rule})


@extra('C05', 'R05.13', 'one line model (C07 R07.8): the differ, the patcher and the string merger split lines the same way -- a one-sided edit below a character only one '
       'of them treats as a line end is applied at the wrong offset', 4)
def r05_13(ctx, rule):
    from ..report import run_sub
    from . import c07
    run_sub(ctx, c07, {'R07.8': rule})


def _r_output_utf8(ctx, rule):
    repo = ctx.repo
    n = 0
    from ..util import local_defs
    is_utf8 = lambda v: isinstance(v, str) and v.lower().replace('-', '').replace('_', '') == 'utf8'
    fids = [f for f in repo.functions if f.startswith('nbdime.nbmergeapp:')] + ['nbdime.webapp.nbdimeserver:ApiMergeStoreHandler.post']
    for fid in sorted(fids):
        fn = repo.functions.get(fid)
        if fn is None:
            continue
        defs = local_defs(fn)
        for c in calls_in(fn, nested=False):
            if dotted(c.func) not in ('open', 'io.open', 'codecs.open'):
                continue
            mode = const_val(c.args[1]) if len(c.args) > 1 else next((const_val(k.value) for k in c.keywords if k.arg == 'mode'), 'r')
            if not (isinstance(mode, str) and any(ch in mode for ch in 'wax+')):
                continue
            if 'b' in str(mode):
                # binary: the bytes written must come from an explicit UTF-8 encode
                n += 1
                w = repo.stmt_of(c)
                writes = [x for st in getattr(w, 'body', []) for x in ast.walk(st) if isinstance(x, ast.Call) and isinstance(x.func, ast.Attribute) and x.func.attr == 'write' and x.args]
                def enc_ok(e, seen=()):
                    for y in ast.walk(e):
                        if isinstance(y, ast.Call) and isinstance(y.func, ast.Attribute) and y.func.attr == 'encode':
                            a0 = const_val(y.args[0]) if y.args else next((const_val(k.value) for k in y.keywords if k.arg == 'encoding'), 'utf8')
                            return is_utf8(a0)
                    if isinstance(e, ast.Name) and e.id not in seen:
                        ds = defs.get(e.id, [])
                        return bool(ds) and all(enc_ok(v, seen + (e.id,)) for v, k, st in ds)
                    return False
                ok = bool(writes) and all(enc_ok(x.args[0]) for x in writes)
                ctx.inst(rule, fid, repo.norm(c), ok, 'bytes encoded as UTF-8 explicitly' if ok else
                         'binary write of content that is not visibly UTF-8 encoded', c)
                continue
            n += 1
            enc = next((const_val(k.value) for k in c.keywords if k.arg == 'encoding'), const_val(c.args[3]) if len(c.args) > 3 else None)
            ok = isinstance(enc, str) and enc.lower().replace('-', '').replace('_', '') == 'utf8'
            ctx.inst(rule, fid, repo.norm(c), ok, 'UTF-8 whatever the locale' if ok else
                     'the output file is opened in text mode with encoding %s: under a non-UTF-8 locale a merged notebook with non-ASCII text either fails to encode after the '
                     'file was truncated (a 0-byte "result", for the git driver in place of the user\'s file) or is written in an encoding that is not valid JSON/UTF-8' % (
                         repr(enc) if enc is not None else '<locale default>'), c)
    if n == 0:
        raise AnalysisError('no text-mode open of an output file found in main_merge / the store endpoint')


@extra('C04', 'R04.12', 'the files the merged notebook / the decisions are written to are opened with an explicit UTF-8 encoding (nbformat notebooks are UTF-8 JSON)', 1)
def r04_12(ctx, rule):
    _r_output_utf8(ctx, rule)


@extra('C08', 'R08.15', 'the files the merged notebook / the decisions are written to are opened with an explicit UTF-8 encoding', 1)
def r08_15(ctx, rule):
    _r_output_utf8(ctx, rule)


def _r_strict_reflexive(ctx, rule):
    """x == x is false for exactly one value Python's json module reads: NaN.  A comparison used to decide "unchanged" / "both sides did the same" must treat it as
    equal to itself, or a document containing NaN differs from itself (diff(a, a) is not empty, merge(b, b, b) conflicts)."""
    repo = ctx.repo
    fid = 'nbdime.diffing.generic:compare_strict'
    fn = repo.func(fid)
    ps = [a.arg for a in fn.args.args]
    if len(ps) != 2:
        raise AnalysisError('compare_strict: not a binary predicate')
    self_ne = [c for c in ast.walk(fn) if isinstance(c, ast.Compare) and len(c.ops) == 1 and isinstance(c.ops[0], ast.NotEq) and isinstance(c.left, ast.Name) and
               isinstance(c.comparators[0], ast.Name) and c.left.id == c.comparators[0].id and c.left.id in ps]
    isnan = [c for c in ast.walk(fn) if isinstance(c, ast.Call) and (dotted(c.func) or '').endswith('isnan')]
    ident = [c for c in ast.walk(fn) if isinstance(c, ast.Compare) and len(c.ops) == 1 and isinstance(c.ops[0], ast.Is) and {dotted(c.left), dotted(c.comparators[0])} == set(ps)]
    both = {c.left.id for c in self_ne} == set(ps) or len(isnan) >= 2
    ctx.inst(rule, fid, 'NaN clause: %s' % ('x != x and y != y' if self_ne else 'isnan' if isnan else 'none'), both,
             'the one value that is not equal to itself is treated as equal to itself' if both else
             'the predicate is `==` plus the number-type test and has no clause for NaN (identity `is` does not help: the two documents are separate objects): '
             'a notebook with NaN in a JSON payload or in metadata -- which nbformat reads, validates and writes -- differs from itself; merge(b, b, b) reports a conflict', fn)


@extra('C05', 'R05.14', 'the type-strict equality is reflexive for every value the JSON reader produces, NaN included', 1)
def r05_14(ctx, rule):
    _r_strict_reflexive(ctx, rule)


@extra('C02', 'R02.22', 'the type-strict equality is reflexive for every value the JSON reader produces, NaN included (else diff(a, a) is not empty)', 1)
def r02_22(ctx, rule):
    _r_strict_reflexive(ctx, rule)


@extra('C11', 'R11.14', 'the canonical form combine_patches gives the diffs collected from several decisions has at most ONE insertion per index, as it has one patch per key: '
       'insertions of one index are joined (two addrange entries on one key are not a well-formed list diff)', 1)
def r11_14(ctx, rule):
    from .. import mergefacts as mf
    repo = ctx.repo
    consts = mf.diffop_consts(repo)
    fid = 'nbdime.merging.strategies:combine_patches'
    fn = repo.func(fid)
    ops_tested = set()
    for c in ast.walk(fn):
        if isinstance(c, ast.Compare) and len(c.ops) == 1 and isinstance(c.ops[0], (ast.Eq, ast.In)) and isinstance(c.left, ast.Attribute) and c.left.attr == 'op':
            for x in ast.walk(c.comparators[0]):
                v = consts.get(dotted(x) or '')
                if v:
                    ops_tested.add(v)
    add = consts.get('DiffOp.ADDRANGE')
    joins = False
    if add in ops_tested:
        # the arm for insertions must concatenate value lists of entries with the same key
        joins = any(isinstance(x, ast.BinOp) and isinstance(x.op, ast.Add) and any(isinstance(y, ast.Attribute) and y.attr == 'valuelist' for y in ast.walk(x)) for x in ast.walk(fn)) or \
            any(isinstance(x, ast.Call) and isinstance(x.func, ast.Attribute) and x.func.attr == 'extend' and any(isinstance(y, ast.Attribute) and y.attr == 'valuelist' for y in ast.walk(x))
                for x in ast.walk(fn))
    ctx.inst(rule, fid, 'ops given a case of their own: %s' % sorted(ops_tested), joins,
             'insertions of one index are joined' if joins else
             'only patches are combined: when one side\'s insertion at an index was split into two decisions (an agreed part and a conflicting part) and a resolver collects '
             'them again, the decision it registers carries two addrange entries on that index in local_diff / remote_diff', fn)


@extra('C11', 'R11.15', 'a removal the merge code builds by hand has a positive length: `op_removerange(k, len(x))` only where x is known to be non-empty (a removal of nothing '
       'is not an entry any differ emits; the builders drop it)', 1)
def r11_15(ctx, rule):
    from ..util import local_defs, truth_under
    from ..cfg import CFG, cond_guards
    repo, cg = ctx.repo, ctx.cg
    n = 0
    for fid, fn in sorted(repo.functions.items()):
        if not fid.startswith('nbdime.merging.strategies:'):
            continue
        g = None
        for c in calls_in(fn, nested=False):
            if ('func', 'nbdime.diff_format:op_removerange') not in cg.resolve(c.func, fn) or len(c.args) < 2:
                continue
            L = c.args[1]
            if not (isinstance(L, ast.Call) and dotted(L.func) == 'len' and L.args):
                continue
            n += 1
            subj = ast.unparse(L.args[0])
            g = g or CFG(fn)
            st = repo.stmt_of(c)
            guards = list(cond_guards(g, st))
            p_, ch = repo.parent(c), c
            while p_ is not None and not isinstance(p_, ast.stmt):
                if isinstance(p_, ast.IfExp) and ch is p_.body:
                    guards.append((p_.test, True))
                elif isinstance(p_, ast.IfExp) and ch is p_.orelse:
                    guards.append((p_.test, False))
                ch, p_ = p_, repo.parent(p_)
            def _nonempty(t, pol):
                if isinstance(t, ast.UnaryOp) and isinstance(t.op, ast.Not):
                    return _nonempty(t.operand, not pol)
                if isinstance(t, ast.BoolOp) and ((isinstance(t.op, ast.And) and pol) or (isinstance(t.op, ast.Or) and not pol)):
                    return any(_nonempty(v, pol) for v in t.values)
                if isinstance(t, ast.Compare) and len(t.ops) == 1 and isinstance(t.left, ast.Call) and dotted(t.left.func) == 'len' and t.left.args and \
                        ast.unparse(t.left.args[0]) == subj and isinstance(const_val(t.comparators[0]), int):
                    k_ = const_val(t.comparators[0])
                    op = t.ops[0]
                    if pol:
                        return (isinstance(op, ast.Gt) and k_ >= 0) or (isinstance(op, ast.GtE) and k_ >= 1) or (isinstance(op, ast.NotEq) and k_ == 0)
                    return (isinstance(op, ast.Eq) and k_ == 0) or (isinstance(op, ast.Lt) and k_ <= 1) or (isinstance(op, ast.LtE) and k_ <= 0)
                return truth_under(t, pol, lambda e: ast.unparse(e) == subj or (isinstance(e, ast.Call) and dotted(e.func) == 'len' and e.args and ast.unparse(e.args[0]) == subj)) is True
            ok = any(_nonempty(t, pol) for t, pol in guards)
            ctx.inst(rule, fid, repo.norm(c), ok, 'guarded by the emptiness of %s' % subj if ok else
                     'nothing on the way to this removal rules out an empty %s: the custom diff then holds removerange(0, 0), an entry that removes nothing' % subj, c)
    if n == 0:
        ctx.inst(rule, 'nbdime.merging.strategies', 'no hand-built removal whose length is a len(...)', True, 'nothing to guard', None, nontrivial=False)


@extra('C17', 'R17.17', 'resolve_diff_args, evaluated over every combination of (first word is a revision or a file) x (second word absent / revision / file) x (no / some further '
       'words), yields the documented (base, remote, paths): which revisions are compared and which words become path filters does not depend on how the function is laid out', 10)
def r17_17(ctx, rule):
    from .. import diffargs as E
    repo, cg = ctx.repo, ctx.cg
    fid = 'nbdime.args:resolve_diff_args'
    fn = repo.func(fid)
    n = 0
    for w in E.worlds():
        label = 'base %s, remote %s, paths %s' % ('ref' if w['base'] in w['ref'] else 'file',
                                                  'absent' if w['remote'] is None else ('ref' if w['remote'] in w['ref'] else 'file'),
                                                  'none' if w['paths'] is None else ('[]' if not w['paths'] else 'given'))
        try:
            got = E.norm(E.eval_resolve_diff_args(repo, cg, fn, w))
        except AnalysisError as e:
            ctx.inst(rule, fid, label, True, 'not evaluated (%s): the shape rules R17.4, R17.10, R17.15 still apply' % str(e)[:90], fn, nontrivial=False)
            continue
        n += 1
        exp = E.expected(w)
        ok = got == exp
        ctx.inst(rule, fid, label + ' -> %r' % (got,), ok, 'as documented' if ok else
                 'the documented resolution for this command line is %r: other revisions are compared / other files are asked of git than the user named' % (exp,), fn)
    if n == 0:
        ctx.note('R17.17: resolve_diff_args could not be evaluated abstractly on this tree')


def _r_key_filters_do_not_nest(ctx, rule):
    """set_notebook_diff_ignores wraps the differ currently installed for a path in a key filter.  When that differ is itself a key filter (the same options stated
    again -- every request of a service that states its options, every parse of a list-valued Ignore entry) the wrappers nest: each call makes diffing slower, and
    after about a thousand diff_notebooks dies with RecursionError."""
    from ..util import local_defs
    from ..cfg import CFG, cond_guards
    repo, cg = ctx.repo, ctx.cg
    fid = 'nbdime.diffing.notebooks:set_notebook_diff_ignores'
    fn = repo.func(fid)
    defs = local_defs(fn)
    calls = [c for c in calls_in(fn, nested=False) if any(t == ('func', 'nbdime.diffing.notebooks:diff_ignore_keys') for t in cg.resolve(c.func, fn))]
    if not calls:
        raise AnalysisError('set_notebook_diff_ignores: diff_ignore_keys call not found')
    dk = repo.func('nbdime.diffing.notebooks:diff_ignore_keys')
    # the wrapper must be recognisable: diff_ignore_keys marks what it returns (an attribute stored on the closure) or returns an instance of a class
    inner_fns = [n for n in dk.body if isinstance(n, ast.FunctionDef)]
    marks = {t.attr for n in walk_no_nested(dk) if isinstance(n, ast.Assign) for t in n.targets if isinstance(t, ast.Attribute) and isinstance(t.value, ast.Name) and
             t.value.id in {f.name for f in inner_fns}}
    g = CFG(fn)
    for c in calls:
        inner = c.args[0] if c.args else None
        direct = isinstance(inner, ast.Subscript) and (dotted(inner.value) or '').endswith('notebook_differs')
        src = [inner] + ([v for v, k, st in defs.get(inner.id, [])] if isinstance(inner, ast.Name) else [])
        reads_table = any(isinstance(x, ast.Subscript) and (dotted(x.value) or '').endswith('notebook_differs') for e in src if e is not None for x in ast.walk(e))
        unwraps = bool(marks) and any(isinstance(x, ast.Call) and dotted(x.func) in ('getattr', 'hasattr') and len(x.args) >= 2 and const_val(x.args[1]) in marks or
                                      isinstance(x, ast.Attribute) and x.attr in marks for x in ast.walk(fn))
        ok = not reads_table or (unwraps and not direct)
        ctx.inst(rule, fid, repo.norm(c), ok,
                 'a differ that is already a key filter is unwrapped (its keys are merged) before it is filtered again' if ok else
                 'the key filter is put around whatever is installed for the path, also around an earlier key filter: stating the same options again nests one more '
                 'wrapper each time (slower diffs, RecursionError after about a thousand calls) -- the N-th request of a long-running process fails on valid notebooks', c)


@extra('C12', 'R12.14', 'stating the same ignore options again does not change the differ table: a key filter is never wrapped around another key filter', 1)
def r12_14(ctx, rule):
    _r_key_filters_do_not_nest(ctx, rule)


@extra('C12', 'R12.15', 'an entry point leaves the process-wide differ table in the state its OWN command line and configuration ask for: the ignore flags are installed on every '
       'run (not only when one was given), and a configured Ignore mapping is installed on a table that was reset first', 2)
def r12_15(ctx, rule):
    from ..cfg import CFG, cond_guards
    from ..util import names_in
    repo, cg = ctx.repo, ctx.cg
    fid = 'nbdime.args:process_diff_flags'
    fn = repo.func(fid)
    calls = [c for c in calls_in(fn, nested=False) if any(t == ('func', 'nbdime.diffing.notebooks:set_notebook_diff_targets') for t in cg.resolve(c.func, fn))]
    if len(calls) != 1:
        raise AnalysisError('process_diff_flags: set_notebook_diff_targets call not found')
    g = CFG(fn)
    guards = list(cond_guards(g, repo.stmt_of(calls[0])))
    ok = not guards
    ctx.inst(rule, fid, 'set_notebook_diff_targets(...) %s' % ('unconditional' if ok else 'only under `%s`' % ast.unparse(guards[0][0])), ok,
             'installed on every run' if ok else
             'without a flag nothing is installed, so the table keeps what an EARLIER main() in the same process installed: nbdiff a b after nbdiff -s a b (one process: a '
             'test suite, a Python wrapper) still ignores everything but sources', calls[0])
    fid2 = 'nbdime.args:ConfigBackedParser.parse_known_args'
    fn2 = repo.func(fid2)
    inst = [c for c in calls_in(fn2, nested=False) if any(t == ('func', 'nbdime.diffing.notebooks:set_notebook_diff_ignores') for t in cg.resolve(c.func, fn2))]
    if not inst:
        raise AnalysisError('parse_known_args: set_notebook_diff_ignores call not found')
    g2 = CFG(fn2)
    resets = [c for c in calls_in(fn2, nested=False) if any(t == ('func', 'nbdime.diffing.notebooks:reset_notebook_differ') for t in cg.resolve(c.func, fn2))]
    ok2 = bool(resets) and all(g2.dominated_by(repo.stmt_of(c), [repo.stmt_of(r) for r in resets]) for c in inst)
    ctx.inst(rule, fid2, repo.norm(inst[0]) + ('  [after reset_notebook_differ()]' if ok2 else '  [no reset before]'), ok2,
             'the configured ignores replace whatever was there' if ok2 else
             'the Ignore mapping of THIS entry point\'s configuration is added to the process-wide table and nothing ever takes it out: a later entry point in the same process '
             '(the merge driver after the diff driver) diffs and merges with it -- a local change to an ignored path is silently dropped from the merge', inst[0])


@extra('C01', 'R01.22', 'nbpatch opens its output file only when the complete content exists (as R08.16 for nbmerge): a notebook that cannot be encoded must not cost the file that '
       'was there', 1)
def r01_22(ctx, rule):
    _r_content_before_open(ctx, rule, 'nbdime.nbpatchapp:main_patch', 'output')


def _r_strict_tells_serialisations_apart(ctx, rule):
    repo, cg = ctx.repo, ctx.cg
    fid = 'nbdime.diffing.generic:compare_strict'
    fn = repo.func(fid)
    ps = [a.arg for a in fn.args.args]
    sign = [c for c in ast.walk(fn) if isinstance(c, ast.Call) and (dotted(c.func) or '').split('.')[-1] in ('copysign', 'repr', 'float_repr', 'pack', 'dumps', 'signbit')]
    both = len({dotted(a) for c in sign for a in c.args if dotted(a) in ps}) == 2
    ctx.inst(rule, fid, 'signed-zero clause: %s' % (sorted({(dotted(c.func) or '') for c in sign}) or 'none'), both,
             '0.0 and -0.0 (equal in Python, different JSON texts) are told apart' if both else
             'the predicate is `==` plus the number-type test: -0.0 == 0.0, both are floats, so a change from 0.0 to -0.0 (they serialise differently) yields an empty diff and '
             'the patched document is not the second one', fn)
    # values the mapping differ does not recurse into are compared DEEPLY and type-strictly
    dd = repo.func('nbdime.diffing.generic:diff_dicts')
    se = 'nbdime.diffing.generic:strict_equal'
    cs = 'nbdime.diffing.generic:compare_strict'
    uses = [c for c in calls_in(dd, nested=False) if any(t[1] in (se, cs) for t in cg.resolve(c.func, dd) if t[0] == 'func')]
    if not uses:
        ctx.inst(rule, 'nbdime.diffing.generic:diff_dicts', 'no call of the type-strict equality', False,
                 'the mapping differ no longer decides "unchanged" with the deep type-strict equality: values it does not recurse into are compared some other way', dd)
    for c in uses:
        deep = any(t == ('func', se) for t in cg.resolve(c.func, dd))
        ctx.inst(rule, 'nbdime.diffing.generic:diff_dicts', repo.norm(c), deep,
                 'deep, type-strict comparison' if deep else
                 'values of different Python types are not recursed into (a plain dict against a NotebookNode -- what patch() returns -- fails `type(a) is type(b)`) and are '
                 'then compared with compare_strict, which for containers is plain ==: {"k": 1} == {"k": True}, so the type change inside is lost and the diff is empty', c)


@extra('C02', 'R02.23', 'the strict comparison tells apart every pair of values that serialise differently: signed zeros; and values the mapping differ does not recurse into '
       'are compared deeply (strict_equal), not with the shallow predicate', 2)
def r02_23(ctx, rule):
    _r_strict_tells_serialisations_apart(ctx, rule)


@extra('C14', 'R14.19', 'the differ and the printer agree on what a category is: every path the printer hides under an option is ignored by the differ under the same option '
       '(evaluated for the root-level and cell-level fields of the notebook schema and the paths of the differ\'s category table)', 8)
def r14_19(ctx, rule):
    from . import c14
    from ..schema import NbSchema
    repo = ctx.repo
    fn, params, table = c14.ignore_table(ctx)
    sch = NbSchema(5)
    PRINTER_OPT = {'sources': 'sources', 'outputs': 'outputs', 'attachments': 'attachments', 'metadata': 'metadata', 'identifier': 'id', 'id': 'id', 'details': 'details'}
    cand = set(table)
    for top in ('/nbformat', '/nbformat_minor', '/metadata', '/cells'):
        cand.add(top)
    for alt in sch.at('/cells/*'):
        if isinstance(alt, dict):
            for k in alt.get('properties', {}):
                cand.add('/cells/*/' + k)
    for alt in sch.at('/cells/*/outputs/*'):
        if isinstance(alt, dict):
            for k in alt.get('properties', {}):
                cand.add('/cells/*/outputs/*/' + k)

    def differ_opts(path):
        """options under which the differ hides a change at this path: the path itself or a prefix ignored whole, or its last key filtered at the parent"""
        out = set()
        for p, (cat, kind, keys, node) in table.items():
            if cat is None:
                continue
            if kind == 'whole' and (path == p or path.startswith(p + '/')):
                out.add(PRINTER_OPT.get(cat, cat))
            if kind == 'keys' and '/' in path and path.rsplit('/', 1)[0] == p and path.rsplit('/', 1)[1] in keys:
                out.add(PRINTER_OPT.get(cat, cat))
        return out
    n = 0
    for path in sorted(cand):
        if path in ('/cells', '/cells/*'):
            continue
        gates = ignore_gates_for(repo, path)
        dopts = differ_opts(path)
        n += 1
        missing = gates - dopts
        ok = not missing
        ctx.inst(rule, 'nbdime.diffing.notebooks:set_notebook_diff_targets', '%s: printer hides under %s, differ ignores under %s' % (path, sorted(gates) or '-', sorted(dopts) or '-'), ok,
                 'agree' if ok else
                 'with %s switched off the printer hides %s but the differ still reports a change there: the diff is not empty although nothing of a shown category changed, '
                 'and nbdiff prints its header lines and nothing else' % (sorted(missing), path), fn)
    if n < 8:
        raise AnalysisError('R14.19: fewer than 8 candidate paths')


@extra('C14', 'R14.20', 'the output renderer consults the options its own path filter files the output\'s fields under: metadata for /cells/*/outputs/*/metadata, details for '
       '/cells/*/outputs/*/execution_count -- an output rendered whole (inserted, deleted, nbshow) must not show what the same options hide inside a changed output', 2)
def r14_20(ctx, rule):
    from . import c14
    repo = ctx.repo
    fid = 'nbdime.prettyprint:pretty_print_output'
    fn = repo.func(fid)
    _f, _params, table = c14.ignore_table(ctx)
    PRINTER_OPT = {'identifier': 'id'}
    cfgp = next((a.arg for a in fn.args.args if a.arg == 'config'), 'config')
    consulted = {x.attr for x in ast.walk(fn) if isinstance(x, ast.Attribute) and isinstance(x.value, ast.Name) and x.value.id == cfgp}
    n = 0
    for path, (cat, kind, keys, node) in sorted(table.items()):
        fields = []
        if kind == 'whole' and path.startswith('/cells/*/outputs/*/'):
            fields = [path.rsplit('/', 1)[1]]
        elif kind == 'keys' and path == '/cells/*/outputs/*':
            fields = list(keys)
        for field in fields:
            opt = PRINTER_OPT.get(cat, cat)
            n += 1
            gates = ignore_gates_for(repo, '/cells/*/outputs/*/' + field)
            ok1 = opt in gates
            ctx.inst(rule, 'nbdime.prettyprint:PrettyPrintConfig.should_ignore_path', 'output field %r: differ category %s, path filter reads %s' % (field, opt, sorted(gates)), ok1,
                     'same option' if ok1 else 'the differ files %r of an output under %s, the printer\'s path filter does not' % (field, opt), None)
            ok2 = opt in consulted
            ctx.inst(rule, fid, 'output field %r: differ category %s, renderer consults %s' % (field, opt, sorted(consulted) or '-'), ok2,
                     'same option' if ok2 else
                     'the renderer prints %r of an output without asking config.%s: nbshow --ignore-%s and inserted/deleted outputs in nbdiff still show it' % (field, opt, opt), fn)
    if n == 0:
        ctx.inst(rule, fid, 'the differ table files no output field under a category', True, 'nothing to agree on (R14.1 judges the table)', fn, nontrivial=False)


@extra('C16', 'R16.22', 'the renderers assert nothing about what an external tool printed: its output contains the user\'s text (in word-diff mode without any prefix), so a test '
       'of that output can fail for valid notebooks', 2)
def r16_22(ctx, rule):
    from ..util import local_defs, depends_on
    repo = ctx.repo
    for name in ('external_diff_render', 'external_merge_render'):
        fid = 'nbdime.prettyprint:' + name
        fn = repo.func(fid)
        defs = local_defs(fn)
        tool_out = lambda x: isinstance(x, ast.Call) and isinstance(x.func, ast.Attribute) and x.func.attr in ('communicate', 'check_output', 'read') or \
            (isinstance(x, ast.Call) and (dotted(x.func) or '').endswith('check_output'))
        asserts = [a for a in walk_no_nested(fn) if isinstance(a, ast.Assert)]
        bad = [a for a in asserts if depends_on(fn, a.test, tool_out, defs) is not None]
        ctx.inst(rule, fid, '%d assertion(s), %d on the tool\'s output' % (len(asserts), len(bad)), not bad,
                 'only the command line is asserted' if not bad else
                 '`%s` tests what the external tool printed: with --color-words git prints context lines without a prefix, so three lines of cell text reading '
                 '"\\\\ No newline at end of file" (a stream output holding a git diff) make the count exceed 2 and the renderer dies with AssertionError' % repo.norm(bad[0])[:80],
                 bad[0] if bad else fn)


def _r_scalar_truth_table(ctx, rule):
    from .. import scalareq
    repo, cg = ctx.repo, ctx.cg
    fid = 'nbdime.diffing.generic:compare_strict'
    fn = repo.func(fid)
    try:
        tab = scalareq.truth_table(repo, cg, fn)
    except AnalysisError as e:
        ctx.inst(rule, fid, 'not evaluated: %s' % str(e)[:100], True, 'the shape rules (R02.1, R02.22, R02.23) still apply', fn, nontrivial=False)
        return
    wrong = [(a, b, g, w) for a, b, g, w in tab if g != w]
    by_kind = {}
    for a, b, g, w in wrong:
        by_kind.setdefault('equal' if g else 'different', []).append('%s~%s' % (a, b))
    ctx.inst(rule, fid, '%d ordered pairs of JSON scalars evaluated, %d wrong' % (len(tab), len(wrong)), not wrong,
             'two scalars compare equal exactly when they are written the same way' if not wrong else
             'the predicate answers wrongly for: %s -- a change between values it calls equal gives an empty diff; values it calls different although they are the same make '
             'a document differ from itself' % '; '.join('%s: %s' % (k, ', '.join(v[:6])) for k, v in sorted(by_kind.items())), fn)


@extra('C02', 'R02.24', 'truth table of the type-strict scalar equality over all pairs of {null, false, true, 0, 1, 0.0, -0.0, 1.0, NaN, NaN\', "", "s"}: equal iff same JSON text', 1)
def r02_24(ctx, rule):
    _r_scalar_truth_table(ctx, rule)


@extra('C05', 'R05.15', 'truth table of the type-strict scalar equality (C02 R02.24)', 1)
def r05_15(ctx, rule):
    _r_scalar_truth_table(ctx, rule)


# ------------------------------------------------------------------------------------------------ round 7
@extra('C02', 'R02.25', 'the deep type-strict equality recurses with ITSELF in every container branch (mapping values and sequence items): the shallow predicate is plain == on '
       'containers, so handing items to it loses type changes one level further down', 2)
def r02_25(ctx, rule):
    repo, cg = ctx.repo, ctx.cg
    fid = 'nbdime.diffing.generic:strict_equal'
    fn = repo.func(fid)
    branches = [n for n in fn.body if isinstance(n, ast.If)]
    if len(branches) < 2:
        raise AnalysisError('strict_equal: container branches not found')
    for b in branches:
        kinds = sorted({dotted(x) for c in ast.walk(b.test) if isinstance(c, ast.Call) and dotted(c.func) == 'isinstance' and len(c.args) == 2 for x in ast.walk(c.args[1])
                        if isinstance(x, ast.Name)})
        rec = any(isinstance(c, ast.Call) and isinstance(c.func, ast.Name) and c.func.id == fn.name for st in b.body for c in ast.walk(st))
        other = [dotted(x) for st in b.body for x in ast.walk(st) if isinstance(x, ast.Name) and x.id == 'compare_strict']
        ok = rec and not other
        ctx.inst(rule, fid, 'branch for %s: %s' % (kinds, 'recurses' if rec else 'does not recurse'), ok,
                 'items/values are compared with the deep equality' if ok else
                 'the items of this container are compared with %s: for items that are containers themselves that is plain == (1 == True == 1.0), and unlike in the list differ '
                 'nothing recurses afterwards -- the answer is final' % (other[0] if other else 'something other than strict_equal'), b)


@extra('C03', 'R03.30', 'in the list merger every decision built from chunk-level diffs is registered on the path of the LIST (a list diff applied to an item aborts: '
       '"dict key must be string")', 10)
def r03_30(ctx, rule):
    from .c03 import chunk_switch_model
    repo, cg = ctx.repo, ctx.cg
    m = chunk_switch_model(repo, cg)
    fn = m['ml']
    fid = 'nbdime.merging.generic:_merge_lists'
    pathp = next((a.arg for a in fn.args.args if a.arg == 'path'), None)
    if pathp is None:
        raise AnalysisError('_merge_lists: no path parameter')
    chunk_names = set()
    for v in m['unpack'].values():
        chunk_names |= set(v)
    chunk_names |= {m['d_local'], m['d_remote']}
    # names bound from the chunk diffs in the loop prelude (a0, p0, ...)
    for st in m['pre']:
        if isinstance(st, ast.Assign) and isinstance(st.targets[0], ast.Name) and any(isinstance(x, ast.Name) and x.id in (m['d_local'], m['d_remote']) for x in ast.walk(st.value)):
            chunk_names.add(st.targets[0].id)
    # names re-bound inside the switch stand for something else there (the string-line workaround builds new p0/p1)
    from ..util import if_chain as _ifc
    arm_of = {}
    for test_, body_, node_ in _ifc(m['bigif'])[0]:
        reb = {t.id for st in body_ for x in ast.walk(st) if isinstance(x, ast.Assign) for t in x.targets if isinstance(t, ast.Name)}
        for st in body_:
            for x in ast.walk(st):
                arm_of[id(x)] = reb
    n = 0
    for c in calls_in(m['bigif']):
        if not (isinstance(c.func, ast.Attribute) and c.func.attr in ('onesided', 'agreement', 'conflict', 'local', 'remote', 'base', 'local_then_remote', 'remote_then_local', 'tryresolve')):
            continue
        if len(c.args) < 3:
            continue
        diffs = [a for a in c.args[1:3] if isinstance(a, ast.Name) and a.id in chunk_names and a.id not in arm_of.get(id(c), set())]
        if len(diffs) < 2:
            continue
        n += 1
        ok = dotted(c.args[0]) == pathp
        ctx.inst(rule, fid, repo.norm(c), ok, 'registered on the list\'s path' if ok else
                 'the chunk\'s list-level diffs are registered on `%s`, not on the path of the list: apply_decisions then patches the ITEM with a list diff (an output dict with an '
                 'integer key: AssertionError "dict key must be string"; a source line: the edit lands on the wrong object)' % ast.unparse(c.args[0]), c)
    if n < 10:
        raise AnalysisError('_merge_lists: fewer than 10 decision registrations with chunk diffs')


@extra('C04', 'R04.13', 'the merge code removes no field the notebook schema REQUIRES from a cell or output it puts into the merged notebook (execution_count of an execute_result, '
       'outputs / execution_count of a code cell, output_type, cell_type, source, metadata)', 1)
def r04_13(ctx, rule):
    repo = ctx.repo
    REQUIRED = {'execution_count', 'output_type', 'outputs', 'cell_type', 'source', 'metadata', 'data', 'name', 'text', 'ename', 'evalue', 'traceback'}
    n_fn = 0
    bad = []
    for fid, fn in sorted(repo.functions.items()):
        if not fid.startswith(('nbdime.merging.strategies:', 'nbdime.merging.decisions:', 'nbdime.merging.notebooks:')):
            continue
        n_fn += 1
        for x in walk_no_nested(fn):
            if isinstance(x, ast.Delete):
                for t in x.targets:
                    if isinstance(t, ast.Subscript) and const_val(t.slice) in REQUIRED:
                        bad.append((fid, x, const_val(t.slice)))
            if isinstance(x, ast.Call) and isinstance(x.func, ast.Attribute) and x.func.attr == 'pop' and x.args and const_val(x.args[0]) in REQUIRED:
                bad.append((fid, x, const_val(x.args[0])))
    if n_fn < 30:
        raise AnalysisError('R04.13: fewer than 30 merge functions examined')
    if not bad:
        ctx.inst(rule, 'nbdime.merging', '%d functions: no removal of a schema-required field' % n_fn, True, 'cells and outputs keep their required fields', None)
    for fid, x, k in bad:
        ctx.inst(rule, fid, repo.norm(x), False,
                 '%r is removed from an object that goes into the merged notebook: the schema requires it (an execute_result without execution_count does not validate; '
                 'nbformat only logs that and writes the file)' % k, x)


@extra('C07', 'R07.17', 'the external three-way merge tool\'s output is read as BYTES and decoded by nbdime: text-mode pipes (encoding= / text= / universal_newlines=) turn every bare '
       '\\\\r into \\\\n, which splits a source line in two lines that exist in no input', 2)
def r07_17(ctx, rule):
    repo, cg = ctx.repo, ctx.cg
    for name in ('external_merge_render', 'external_diff_render'):
        fid = 'nbdime.prettyprint:' + name
        fn = repo.func(fid)
        pops = [c for c in calls_in(fn, nested=False) if (dotted(c.func) or '').split('.')[-1] in ('Popen', 'run', 'check_output')]
        if not pops:
            raise AnalysisError('%s: no subprocess call found' % fid)
        for c in pops:
            textkw = [k.arg for k in c.keywords if k.arg in ('encoding', 'errors', 'text', 'universal_newlines') and not (isinstance(k.value, ast.Constant) and k.value.value in (None, False))]
            ctx.inst(rule, fid, repo.norm(c)[:80], not textkw, 'binary pipe' if not textkw else
                     'the pipe is opened in text mode (%s): Python\'s universal newlines translate a bare carriage return inside a line (a progress string, classic-Mac text) into a '
                     'line break' % ', '.join(textkw), c)


@extra('C09', 'R09.18', 'the notebooks handed to decide_notebook_merge are diffed as they are: base, local and remote are not rebound (replaced by adjusted copies) before the two '
       'diffs are taken -- a side\'s diff must describe what that side did', 1)
def r09_18(ctx, rule):
    repo, cg = ctx.repo, ctx.cg
    fid = 'nbdime.merging.notebooks:decide_notebook_merge'
    fn = repo.func(fid)
    ps = [a.arg for a in fn.args.args[:3]]
    diffs = [c for c in calls_in(fn, nested=False) if any(t[0] == 'func' and t[1].endswith(':diff_notebooks') for t in cg.resolve(c.func, fn))]
    if len(diffs) < 2:
        raise AnalysisError('decide_notebook_merge: the two diff_notebooks calls were not found')
    rebinds = [x for x in walk_no_nested(fn) if isinstance(x, (ast.Assign, ast.AugAssign, ast.AnnAssign)) and
               any(isinstance(t, ast.Name) and t.id in ps for tt in (x.targets if isinstance(x, ast.Assign) else [x.target]) for t in ast.walk(tt) if isinstance(t, ast.Name) and isinstance(t.ctx, ast.Store))]
    direct = all(all(isinstance(a, ast.Name) and a.id in ps for a in c.args[:2]) for c in diffs)
    ok = not rebinds and direct
    ctx.inst(rule, fid, '%d rebinding(s) of %s; diff arguments %s' % (len(rebinds), ps, [ast.unparse(a) for c in diffs for a in c.args[:2]]), ok,
             'the inputs are diffed as given' if ok else
             '%s: the diff of that side is taken from an adjusted copy, so the decisions attribute to the side a change it did not make (all-local / all-remote no longer '
             'reproduce the sides)' % (repo.norm(rebinds[0]) if rebinds else 'a diff argument is not a parameter'), rebinds[0] if rebinds else diffs[0])


@extra('C10', 'R10.11', 'a conflict the builder could not resolve is registered WITHOUT a strategy tag: the level-wise resolvers skip decisions that carry one ("already applied"), so a '
       'tagged open conflict survives use-base / use-local / use-remote at every level', 2)
def r10_11(ctx, rule):
    repo = ctx.repo
    for meth in ('conflict', 'similar_insert'):
        fid = 'nbdime.merging.decisions:MergeDecisionBuilder.' + meth
        fn = repo.func(fid)

        def _adds(f, depth=0):
            out = [c for c in calls_in(f, nested=False) if isinstance(c.func, ast.Attribute) and c.func.attr == 'add_decision' and
                   any(k.arg == 'conflict' and isinstance(k.value, ast.Constant) and k.value.value is True for k in c.keywords)]
            if not out and depth < 2:      # delegation to a sibling method of the builder
                for c in calls_in(f, nested=False):
                    if isinstance(c.func, ast.Attribute) and isinstance(c.func.value, ast.Name) and c.func.value.id == 'self':
                        sib = 'nbdime.merging.decisions:MergeDecisionBuilder.' + c.func.attr
                        if repo.has_func(sib):
                            out += _adds(repo.func(sib), depth + 1)
            return out
        adds = _adds(fn)
        if not adds:
            raise AnalysisError('%s: the add_decision(conflict=True) call was not found' % fid)
        for c in adds:
            tag = [k for k in c.keywords if k.arg == 'strategy' and not (isinstance(k.value, ast.Constant) and k.value.value is None)]
            ctx.inst(rule, fid, repo.norm(c)[:90], not tag, 'no strategy tag on the open conflict' if not tag else
                     'the unresolved conflict keeps strategy=%s: resolve_strategy_generic only resolves conflicts `not d.get("strategy")`, so this one is skipped by every use-* '
                     'level including the root' % ast.unparse(tag[0].value), c)


@extra('C12', 'R12.16', 'reset_notebook_differ restores EVERY module-level table the ignore configuration writes: whatever set_notebook_diff_targets / set_notebook_diff_ignores '
       'store into is cleared by the reset', 1)
def r12_16(ctx, rule):
    repo = ctx.repo
    NB_ = 'nbdime.diffing.notebooks'
    m = repo.mod(NB_)

    def written(fn):
        out = set()
        for x in walk_no_nested(fn):
            tg = []
            if isinstance(x, ast.Assign):
                tg = x.targets
            elif isinstance(x, (ast.AugAssign, ast.AnnAssign)):
                tg = [x.target]
            elif isinstance(x, ast.Delete):
                tg = x.targets
            for t in tg:
                if isinstance(t, ast.Subscript) and isinstance(t.value, ast.Name) and t.value.id in m.assigns:
                    out.add(t.value.id)
            if isinstance(x, ast.Call) and isinstance(x.func, ast.Attribute) and isinstance(x.func.value, ast.Name) and x.func.value.id in m.assigns and \
                    x.func.attr in ('pop', 'update', 'clear', 'setdefault', 'append', 'extend', 'add', 'discard', 'remove', 'insert'):
                out.add(x.func.value.id)
            if isinstance(x, ast.Global):
                out |= set(x.names)
        return out
    w = set()
    for name in ('set_notebook_diff_targets', 'set_notebook_diff_ignores'):
        w |= written(repo.func('%s:%s' % (NB_, name)))
    r = written(repo.func(NB_ + ':reset_notebook_differ'))
    if not w:
        raise AnalysisError('R12.16: the ignore configuration writes no module-level table')
    missing = sorted(w - r)
    ctx.inst(rule, NB_ + ':reset_notebook_differ', 'configuration writes %s, reset restores %s' % (sorted(w), sorted(r)), not missing,
             'everything the configuration touches is reset' if not missing else
             'the ignore configuration also writes %s, which the reset leaves as it is: after ignore-then-reset the process keeps diffing with the leftover (cells no longer '
             'aligned by id, a record of earlier ignores, ...)' % missing, repo.func(NB_ + ':reset_notebook_differ'))


@extra('C16', 'R16.23', 'a tool whose output is read through a pipe is not WAITED for before the pipe is drained (communicate() does both): with more than a pipe buffer of output '
       'the tool blocks, the wait never returns (or times out) and the renderer fails', 2)
def r16_23(ctx, rule):
    repo = ctx.repo
    for name in ('external_merge_render', 'external_diff_render'):
        fid = 'nbdime.prettyprint:' + name
        fn = repo.func(fid)
        waits = [c for c in calls_in(fn, nested=False) if isinstance(c.func, ast.Attribute) and c.func.attr in ('wait', 'poll')]
        comm = [c for c in calls_in(fn, nested=False) if isinstance(c.func, ast.Attribute) and c.func.attr == 'communicate']
        ok = not waits and bool(comm)
        ctx.inst(rule, fid, 'communicate: %d, wait/poll: %d' % (len(comm), len(waits)), ok, 'output is drained while waiting' if ok else
                 '%s: nobody reads the pipe while the tool is waited for; a rendered diff of more than 64 KiB (a long cell) blocks the tool and the renderer raises after the timeout' % (
                     repo.norm(waits[0]) if waits else 'no communicate()'), waits[0] if waits else fn)


@extra('C17', 'R17.18', 'the clean-filter command is the EFFECTIVE value git itself uses: looked up with `git config --get` (last value wins), not --get-all / --get-regexp with the first '
       'entry taken', 1)
def r17_18(ctx, rule):
    repo = ctx.repo
    fid = 'nbdime.vcs.git.filter_integration:get_clean_filter_cmd'
    fn = repo.func(fid)
    lists = [x for x in ast.walk(fn) if isinstance(x, ast.List) and any(const_val(e) == 'config' for e in x.elts)]
    if not lists:
        raise AnalysisError('get_clean_filter_cmd: git config argument vector not found')
    for l in lists:
        flags = [const_val(e) for e in l.elts if isinstance(const_val(e), str) and const_val(e).startswith('--')]
        ok = '--get' in flags and not ({'--get-all', '--get-regexp'} & set(flags))
        ctx.inst(rule, fid, 'git config %s' % flags, ok, 'effective value' if ok else
                 'with %s every definition of filter.<name>.clean is printed, least specific first; the code takes the first one, git uses the last -- the working-tree side is '
                 'filtered with another command than git applies' % sorted({'--get-all', '--get-regexp'} & set(flags) or flags), l)


@extra('C18', 'R18.14', 'the attributes file for --global is located from the GLOBAL configuration: the core.attributesfile lookup names its scope, so a repository\'s own setting '
       '(the directory the command happens to run in) cannot redirect it', 1)
def r18_14(ctx, rule):
    repo = ctx.repo
    fid = 'nbdime.utils:locate_gitattributes'
    fn = repo.func(fid)
    lists = [x for x in ast.walk(fn) if isinstance(x, ast.List) and any(const_val(e) == 'core.attributesfile' for e in x.elts)]
    if not lists:
        raise AnalysisError('locate_gitattributes: the core.attributesfile lookup was not found')
    for l in lists:
        flags = [const_val(e) for e in l.elts if isinstance(const_val(e), str) and const_val(e).startswith('--')]
        ok = '--global' in flags
        ctx.inst(rule, fid, 'git config %s core.attributesfile' % flags, ok, 'global scope' if ok else
                 'without --global the lookup returns the EFFECTIVE value, which a repository\'s local config overrides: `config-git --enable --global` run inside such a repository '
                 'appends nbdime\'s lines to that repository\'s private file and never writes the global one', l)


@extra('C20', 'R20.17', 'the store endpoint REPLACES the output file: it is opened with a truncating mode (open(path, "w"...) or os.open with O_TRUNC); without truncation a shorter '
       'notebook leaves the tail of the old file behind it', 1)
def r20_17(ctx, rule):
    repo = ctx.repo
    fid = 'nbdime.webapp.nbdimeserver:ApiMergeStoreHandler.post'
    fn = repo.func(fid)
    n = 0
    for c in calls_in(fn, nested=False):
        d = dotted(c.func) or ''
        if d in ('open', 'io.open', 'codecs.open') and c.args and not (isinstance(c.args[0], ast.Name) and c.args[0].id == 'fd'):
            mode = const_val(c.args[1]) if len(c.args) > 1 else next((const_val(k.value) for k in c.keywords if k.arg == 'mode'), 'r')
            if isinstance(mode, str) and any(ch in mode for ch in 'wax+'):
                n += 1
                ok = 'w' in mode and '+' not in mode.replace('w+', 'w')
                ctx.inst(rule, fid, repo.norm(c), 'w' in mode, 'truncating mode' if 'w' in mode else 'mode %r does not truncate' % mode, c)
        if d == 'os.open':
            n += 1
            flags = {x.attr for x in ast.walk(c.args[1]) if isinstance(x, ast.Attribute)} if len(c.args) > 1 else set()
            ok = 'O_TRUNC' in flags
            ctx.inst(rule, fid, repo.norm(c), ok, 'O_TRUNC given' if ok else
                     'os.open without O_TRUNC: when the file exists and is longer than the stored notebook the answer is 200 but the file holds the new notebook followed by the old '
                     'tail -- not JSON', c)
    if n == 0:
        raise AnalysisError('store endpoint: no open of the output file found')


@extra('C12', 'R12.17', 'a context manager that changes process-wide state undoes the change in a `finally`: an exception passing through the block (a malformed notebook, an '
       'interrupt) must not leave the differ table / the working directory / a flag altered for the rest of the process', 1)
def r12_17(ctx, rule):
    repo = ctx.repo
    n = 0
    for fid, fn in sorted(repo.functions.items()):
        if not any((dotted(d) or '').endswith('contextmanager') for d in fn.decorator_list):
            continue
        if fid.startswith('nbdime.profiling:'):
            continue        # named exemption: timing helpers of the developers' profiler, on no diff / merge / render path
        n += 1
        ys = [x for x in walk_no_nested(fn) if isinstance(x, ast.Expr) and isinstance(x.value, (ast.Yield, ast.YieldFrom))]
        bad = None
        for y in ys:
            # statements after the yield in its block, with the yield not inside a try that has a finally
            par = repo.parent(y)
            in_try = False
            p_ = par
            while p_ is not None and p_ is not fn:
                if isinstance(p_, ast.Try) and p_.finalbody and any(y is x for b in p_.body for x in ast.walk(b)):
                    in_try = True
                if isinstance(p_, ast.With) and any(y is x for b in p_.body for x in ast.walk(b)):
                    in_try = True       # an inner `with` restores on exit
                p_ = repo.parent(p_)
            blk = None
            for f_ in ('body', 'orelse', 'finalbody'):
                b_ = getattr(par, f_, None)
                if isinstance(b_, list) and any(s is y for s in b_):
                    blk = b_
            after = blk[blk.index(y) + 1:] if blk else []
            if after and not in_try:
                bad = (y, after[0])
        ctx.inst(rule, fid, 'context manager, %d yield(s)' % len(ys), bad is None,
                 'clean-up runs on every exit' if bad is None else
                 '`%s` after the yield is skipped when the block raises: what the manager changed before the yield (a table entry, the cwd) stays changed for every later call in '
                 'the process' % repo.norm(bad[1])[:70], bad[0] if bad else fn)
    if n == 0:
        ctx.inst(rule, 'nbdime', 'no context manager defined', True, 'nothing to restore', None, nontrivial=False)


@extra('C01', 'R01.23', 'a context manager that changes process-wide state undoes the change in a `finally` (C12 R12.17)', 1)
def r01_23(ctx, rule):
    r12_17(ctx, rule)


@extra('C14', 'R14.21', 'in the output renderer a field that is printed (or skipped) under an option is named LITERALLY in the exclude set of the catch-all printer: an exclude set '
       'derived from the list of keys being printed loses the field exactly when the option removes it from that list, and the catch-all prints it', 1)
def r14_21(ctx, rule):
    from ..util import local_defs
    repo = ctx.repo
    fid = 'nbdime.prettyprint:pretty_print_output'
    fn = repo.func(fid)
    defs = local_defs(fn)
    calls = [c for c in calls_in(fn, nested=False) if dotted(c.func) == 'pretty_print_dict' and len(c.args) >= 2]
    if not calls:
        raise AnalysisError('pretty_print_output: catch-all pretty_print_dict call not found')
    ex = calls[-1].args[1]

    def literal_members(e, seen=()):
        out = set()
        if isinstance(e, ast.Set):
            out |= {const_val(x) for x in e.elts if isinstance(const_val(x), str)}
        elif isinstance(e, ast.BinOp) and isinstance(e.op, ast.BitOr):
            out |= literal_members(e.left, seen) | literal_members(e.right, seen)
        elif isinstance(e, ast.Name) and e.id not in seen:
            for v, k, st in defs.get(e.id, []):
                out |= literal_members(v, seen + (e.id,))
        return out

    def derived_from_mutable(e, seen=()):
        """names of lists the set is computed from that are changed in place (remove/pop/del) in this function"""
        out = set()
        for x in ast.walk(e):
            if isinstance(x, ast.Name) and x.id not in seen:
                if any(isinstance(c, ast.Call) and isinstance(c.func, ast.Attribute) and dotted(c.func.value) == x.id and c.func.attr in ('remove', 'pop', 'clear', 'discard')
                       for c in ast.walk(fn)):
                    out.add(x.id)
                for v, k, st in defs.get(x.id, []):
                    out |= derived_from_mutable(v, seen + (x.id,))
        return out
    lits = literal_members(ex)
    mut = derived_from_mutable(ex)
    gated = ['execution_count', 'metadata']
    for f in gated:
        ok = f in lits
        if f == 'execution_count' and not ok:
            # acceptable when it comes from a key collection that is never shrunk
            ok = not mut
        ctx.inst(rule, fid, 'field %r: %s' % (f, 'literal member of the exclude set' if f in lits else 'only through %s' % (sorted(mut) or 'a fixed key collection')), ok,
                 'the catch-all never prints it' if ok else
                 '%r reaches the exclude set only through %s, which is shrunk when the option is off: with details ignored the catch-all printer then shows `execution_count` of '
                 'every inserted or deleted execute_result' % (f, sorted(mut)), calls[-1])


@extra('C20', 'R20.18', 'an API endpoint answers only with what the library computed for THIS request: every self.finish()/self.write() of the diff and merge handlers is dominated by '
       'the call of diff_notebooks / decide_notebook_merge (no shortcut path that answers without asking the library)', 2)
def r20_18(ctx, rule):
    from ..cfg import CFG
    repo, cg = ctx.repo, ctx.cg
    SRV = 'nbdime.webapp.nbdimeserver'
    for fid, callee in ((SRV + ':ApiDiffHandler.post', 'nbdime.diffing.notebooks:diff_notebooks'),
                        (SRV + ':ApiMergeHandler.post', 'nbdime.merging.notebooks:decide_notebook_merge')):
        fn = repo.func(fid)
        calls = [c for c in calls_in(fn, nested=False) if ('func', callee) in cg.resolve(c.func, fn)]
        if not calls:
            raise AnalysisError('%s no longer calls %s' % (fid, callee))
        g = CFG(fn)
        doms = [repo.stmt_of(c) for c in calls]
        outs = [c for c in calls_in(fn, nested=False) if isinstance(c.func, ast.Attribute) and c.func.attr in ('finish', 'write') and dotted(c.func.value) == 'self']
        if not outs:
            raise AnalysisError('%s: no self.finish()/self.write() found' % fid)
        for c in outs:
            st = repo.stmt_of(c)
            ok = g.dominated_by(st, doms)
            ctx.inst(rule, fid, repo.norm(c)[:80], ok, 'answered after %s' % callee.split(':')[1] if ok else
                     'this answer can be sent on a path that never called %s: the endpoint\'s result is not the library\'s (e.g. an "identical sides" shortcut returns no '
                     'decisions although local == remote != base yields agreed decisions)' % callee.split(':')[1], c)


@extra('C18', 'R18.15', 'disable() always asks git: every normal exit of the four disable functions is dominated by a git-config call on the scope\'s file (no early return decided '
       'from the process\'s working directory or other local state -- git resolves the repository itself, e.g. from a sub-directory)', 4)
def r18_15(ctx, rule):
    from ..cfg import CFG
    repo, cg = ctx.repo, ctx.cg
    for mod in ('mergedriver', 'diffdriver', 'mergetool', 'difftool'):
        fid = 'nbdime.vcs.git.%s:disable' % mod
        fn = repo.func(fid)
        gits = []
        for c in calls_in(fn, nested=False):
            names = [t[1] for t in cg.resolve(c.func, fn) if t[0] == 'ext']
            if any(n.startswith('subprocess.') for n in names) or (dotted(c.func) or '').split('.')[-1] in ('check_call', 'check_output', 'call', 'run', 'Popen'):
                gits.append(c)
        if not gits:
            raise AnalysisError('%s: no git call found' % fid)
        g = CFG(fn)
        ok = g.dominated_by(g.EXIT, [repo.stmt_of(c) for c in gits])
        ctx.inst(rule, fid, '%d git call(s)' % len(gits), ok, 'every normal exit passed a git-config call' if ok else
                 'disable() can return without having asked git at all: the registration stays in place although the command reports success', fn)


@extra('C03', 'R03.31', 'two-sided insertions are compared before anything is decided about them: in _split_addrange every decision (conflict / onesided / agreement) is dominated '
       'by the diff of the local against the remote items -- conflict() asserts that its two diffs differ, so a conflict registered without that comparison makes the merge of '
       'two identical insertions raise', 3)
def r03_31(ctx, rule):
    from ..cfg import CFG
    repo, cg = ctx.repo, ctx.cg
    fid = 'nbdime.merging.generic:_split_addrange'
    fn = repo.func(fid)
    ps = [a.arg for a in fn.args.args]
    diffs = [c for c in calls_in(fn, nested=False)
             if any(t[0] == 'func' and t[1].split(':')[1] in ('diff', 'diff_lists', 'diff_sequence_multilevel') for t in cg.resolve(c.func, fn))
             and len(c.args) >= 2 and all(isinstance(a, ast.Name) and a.id in ps for a in c.args[:2])]
    if not diffs:
        raise AnalysisError('_split_addrange: the diff of the local against the remote items was not found')
    g = CFG(fn)
    doms = [repo.stmt_of(c) for c in diffs]
    decs = [c for c in calls_in(fn, nested=False) if isinstance(c.func, ast.Attribute) and
            c.func.attr in ('conflict', 'onesided', 'agreement', 'local_then_remote', 'remote_then_local', 'custom', 'add_decision', 'similar_insert')]
    if len(decs) < 3:
        raise AnalysisError('_split_addrange: fewer decision registrations than expected')
    for c in decs:
        ok = g.dominated_by(repo.stmt_of(c), doms)
        ctx.inst(rule, fid, repo.norm(c)[:80], ok, 'decided after the comparison' if ok else
                 'this decision can be registered without the local and the remote insertion having been compared: for identical insertions (reachable whenever the rest of the '
                 'chunk differs: A/AP, AP/A, AR/A, ...) conflict() raises "agreed merges should not be conflicted" and the merge fails under every strategy', c)


def _r_split_index(ctx, rule, mods, what):
    """X.split(...)[k] / X.splitlines()[k] with a constant k other than 0 / -1: the element need not exist (IndexError) -- the slice form [k:] cannot fail."""
    repo = ctx.repo

    def is_split(v):
        return isinstance(v, ast.Call) and isinstance(v.func, ast.Attribute) and v.func.attr in ('split', 'rsplit', 'splitlines')
    n_fn = n_sub = 0
    for fid, fn in sorted(repo.functions.items()):
        if fid.split(':')[0] not in mods:
            continue
        n_fn += 1
        defs = {}
        for n in walk_no_nested(fn):
            if isinstance(n, ast.Assign) and len(n.targets) == 1 and isinstance(n.targets[0], ast.Name):
                defs.setdefault(n.targets[0].id, []).append(n.value)
        lens = {a.id for n in walk_no_nested(fn) if isinstance(n, ast.Call) and isinstance(n.func, ast.Name) and n.func.id == 'len'
                for a in n.args if isinstance(a, ast.Name)}
        for n in walk_no_nested(fn):
            if not (isinstance(n, ast.Subscript) and isinstance(n.ctx, ast.Load)):
                continue
            k = const_val(n.slice)
            if isinstance(n.slice, ast.UnaryOp) and isinstance(n.slice.op, ast.USub) and isinstance(const_val(n.slice.operand), int):
                k = -const_val(n.slice.operand)
            if not isinstance(k, int) or isinstance(k, bool):
                continue
            v = n.value
            direct = is_split(v)
            via = isinstance(v, ast.Name) and len(defs.get(v.id, [])) == 1 and is_split(defs[v.id][0]) and v.id not in lens
            if not (direct or via):
                continue
            n_sub += 1
            ok = k in (0, -1)
            ctx.inst(rule, fid, repo.norm(n)[:80], ok, 'element 0 / -1 of a split always exists' if ok else
                     'element %d of the split need not exist: for a text with fewer separators (an empty rendering, a header-less diff) this raises IndexError %s' % (k, what), n)
    ctx.inst(rule, ', '.join(sorted(mods)), '%d function(s), %d constant-index subscript(s) on split results' % (n_fn, n_sub), True,
             'all analysed', None, nontrivial=True)
    if n_fn == 0:
        raise AnalysisError('no function analysed in %s' % (mods,))


@extra('C16', 'R16.24', 'the renderers never take a fixed element (other than the first / last) of a split text: a slice [k:] cannot fail, an index [k] raises when the text is shorter '
       '(e.g. the built-in differ returns an empty text for inputs that differ only in what splitlines() drops)', 1)
def r16_24(ctx, rule):
    _r_split_index(ctx, rule, {'nbdime.prettyprint'}, 'in the middle of the rendering')


@extra('C07', 'R07.18', 'the text a merge tool printed reaches the cell source line for line: the merge renderers (merge_render, merge_render_with_git, merge_render_with_diff3, '
       'external_merge_render) contain no line filter -- no loop or comprehension over the lines of a text that keeps a line only under a condition, no regex deletion; a filter '
       'keyed on what a line looks like ("starts with |||||||") cannot tell a marker from a source line', 4)
def r07_18(ctx, rule):
    repo = ctx.repo

    def is_lines(e):
        return isinstance(e, ast.Call) and isinstance(e.func, ast.Attribute) and e.func.attr in ('splitlines', 'split', 'rsplit')
    for nm in ('merge_render', 'merge_render_with_git', 'merge_render_with_diff3', 'external_merge_render'):
        fid = 'nbdime.prettyprint:' + nm
        fn = repo.func(fid)
        lines_vars = {t.id for n in ast.walk(fn) if isinstance(n, ast.Assign) and is_lines(n.value) for t in n.targets if isinstance(t, ast.Name)}

        def over_lines(e):
            return is_lines(e) or (isinstance(e, ast.Name) and e.id in lines_vars) or \
                (isinstance(e, ast.Call) and isinstance(e.func, ast.Name) and e.func.id in ('enumerate', 'iter', 'reversed') and e.args and over_lines(e.args[0]))
        bad = []
        n_loops = 0
        for n in ast.walk(fn):
            if isinstance(n, (ast.ListComp, ast.GeneratorExp, ast.SetComp)):
                for g_ in n.generators:
                    if over_lines(g_.iter):
                        n_loops += 1
                        if g_.ifs:
                            bad.append((n, 'comprehension over the lines with a condition'))
            elif isinstance(n, ast.For) and over_lines(n.iter):
                n_loops += 1
                conds = [x for s in n.body for x in ast.walk(s) if isinstance(x, (ast.If, ast.IfExp, ast.Continue))]
                if conds:
                    bad.append((n, 'loop over the lines that treats lines differently (%s)' % repo.norm(conds[0])[:50]))
            elif isinstance(n, ast.Call) and isinstance(n.func, ast.Attribute) and n.func.attr in ('sub', 'subn') and \
                    (dotted(n.func.value) == 're' or (isinstance(n.func.value, ast.Name))):
                bad.append((n, 'regex substitution'))
            elif isinstance(n, ast.Call) and isinstance(n.func, ast.Name) and n.func.id == 'filter':
                bad.append((n, 'filter()'))
        if bad:
            for n, why in bad:
                ctx.inst(rule, fid, repo.norm(n)[:80], False,
                         '%s: lines of the merged text can be dropped on the way from the tool to the cell (a source line that looks like a marker switches the filter on; added '
                         'lines after it are lost, or only one variant of a conflict is shown)' % why, n)
        else:
            ctx.inst(rule, fid, '%d loop(s) over lines, no filter' % n_loops, True, 'the text is passed on whole', fn)


@extra('C02', 'R02.26', 'a diff entry can carry ANY JSON value, null included: the constructors of nbdime.diff_format that take a `value` pass it on without testing it (no assert / if / '
       'raise on the value) -- `diff_dicts` builds op_add(key, None) for every key that appears with the value null', 2)
def r02_26(ctx, rule):
    repo = ctx.repo
    n = 0
    for fid, fn in sorted(repo.functions.items()):
        if fid.split(':')[0] != 'nbdime.diff_format':
            continue
        ps = [a.arg for a in fn.args.args + fn.args.kwonlyargs]
        if 'value' not in ps:
            continue
        n += 1
        tested = []
        for x in walk_no_nested(fn):
            tests = []
            if isinstance(x, ast.Assert):
                tests = [x.test]
            elif isinstance(x, (ast.If, ast.While, ast.IfExp)):
                tests = [x.test]
            for t in tests:
                if any(isinstance(y, ast.Name) and y.id == 'value' for y in ast.walk(t)):
                    tested.append(x)
        ok = not tested
        ctx.inst(rule, fid, 'value tested %d time(s)' % len(tested), ok, 'the value is passed on untested' if ok else
                 '%s: a legitimate JSON value (null / false / 0 / "") is rejected or treated specially by the constructor, so the diff of two valid documents raises or '
                 'loses the entry' % repo.norm(tested[0])[:60], tested[0] if tested else fn)
    if n < 2:
        raise AnalysisError('diff_format: fewer than two constructors with a `value` parameter found')


@extra('C01', 'R01.24', 'diff-entry constructors accept any JSON value (C02 R02.26): a notebook that gains a key with the value null must still be diffable', 2)
def r01_24(ctx, rule):
    r02_26(ctx, rule)


@extra('C03', 'R03.32', 'a healthy merge tool must not make the merge fail: no wait() on a piped tool before its output is read (C16 R16.23)', 1)
def r03_32(ctx, rule):
    r16_23(ctx, rule)


@extra('C15', 'R15.13', 'the TypeScript patch functions never pass the items of a diff-supplied array as CALL ARGUMENTS (f(...xs), f.apply(o, xs)): the engine limits the number of '
       'arguments (about 1.2e5 in V8: "RangeError: Maximum call stack size exceeded"), Python\'s patch has no such limit -- concat / a loop has none either', 3)
def r15_13(ctx, rule):
    from ..tsscan import TsFile
    repo = ctx.repo
    TS = 'packages/nbdime/src/'
    n = 0
    for rel in ('patch/generic.ts', 'patch/stringified.ts', 'patch/common.ts'):
        f = TsFile(repo, TS + rel)
        toks = f.toks
        n += 1
        bad = []
        depth_open = []     # stack of '(' kinds: True if the paren opens a call argument list
        for i, t in enumerate(toks):
            if t.kind == 'punct' and t.text == '(':
                prev = toks[i - 1] if i else None
                is_call = prev is not None and (prev.kind == 'id' and prev.text not in ('if', 'for', 'while', 'switch', 'catch', 'function', 'return', 'typeof') or
                                                prev.text in (')', ']', '>'))
                depth_open.append(is_call)
            elif t.kind == 'punct' and t.text == ')':
                if depth_open:
                    depth_open.pop()
            spread = t.text == '...' or (t.text == '.' and i + 2 < len(toks) and toks[i + 1].text == '.' and toks[i + 2].text == '.' and
                                         (i == 0 or toks[i - 1].text != '.'))
            if spread and depth_open and depth_open[-1] and toks[i - 1].text in ('(', ','):
                # a rest parameter in a declaration `function f(...xs)` is preceded by `function name (`: is_call is False there
                bad.append((t.line, 'spread into call arguments'))
            if t.kind == 'id' and t.text == 'apply' and i >= 1 and toks[i - 1].text == '.' and i + 1 < len(toks) and toks[i + 1].text == '(':
                bad.append((t.line, 'Function.prototype.apply'))
        ok = not bad
        ctx.inst(rule, TS + rel, 'call arguments of the patch functions', ok, 'no array is spread into call arguments' if ok else
                 'line %d: %s -- a list insertion of more items than the engine accepts as arguments makes the TypeScript patch throw where the Python patch succeeds' % bad[0],
                 None, extra={'line': bad[0][0] if bad else None})
    if n < 3:
        raise AnalysisError('patch sources not found')


@extra('C15', 'R15.14', 'applyDecisions (TypeScript) decides "same path as the previous decision" element by element (arraysEqual), as Python compares tuples: a path joined into a '
       'string identifies [\'metadata\', \'a/b\'] with [\'metadata\', \'a\', \'b\'] and patches the wrong object', 1)
def r15_14(ctx, rule):
    from ..tsscan import TsFile
    repo = ctx.repo
    rel = 'packages/nbdime/src/merge/decisions.ts'
    f = TsFile(repo, rel)
    body = f.function_body('applyDecisions')
    joins = [t for i, t in enumerate(body) if t.kind == 'id' and t.text == 'join' and i >= 1 and body[i - 1].text == '.' and i + 1 < len(body) and body[i + 1].text == '(']
    ae = [t for i, t in enumerate(body) if t.kind == 'id' and t.text == 'arraysEqual' and i + 1 < len(body) and body[i + 1].text == '(']
    if not joins and not ae:
        raise AnalysisError('applyDecisions: neither arraysEqual nor a joined path found (comparison idiom not recognised)')
    ok = not joins
    ctx.inst(rule, rel + ':applyDecisions', 'path comparison', ok, 'paths are compared with arraysEqual (%d use(s))' % len(ae) if ok else
             'line %d: a path is joined into a string inside applyDecisions: keys that contain the separator collide with nested keys, two decisions on different objects are '
             'collected into one patch, the Python side (tuple comparison) applies them separately' % joins[0].line, None)


@extra('C04', 'R04.14', 'what one side did to an item is merged whole or not at all: in _merge_lists / _merge_dicts a variable holding a side\'s sub-diff (taken from an entry\'s .diff) '
       'is never replaced by a filtered version of itself -- a cell\'s diff is one unit (retyping a code cell = replace cell_type + remove outputs + remove execution_count), '
       'dropping some of its entries leaves a cell of neither type', 2)
def r04_14(ctx, rule):
    repo = ctx.repo
    for nm in ('_merge_lists', '_merge_dicts'):
        fid = 'nbdime.merging.generic:' + nm
        fn = repo.func(fid)
        dvars = set()
        for n in walk_no_nested(fn):
            if isinstance(n, ast.Assign) and any(isinstance(x, ast.Attribute) and x.attr == 'diff' for x in ast.walk(n.value)) and \
                    not any(isinstance(x, ast.Call) for x in ast.walk(n.value)):
                for t in n.targets:
                    for x in ast.walk(t):
                        if isinstance(x, ast.Name) and isinstance(x.ctx, ast.Store):
                            dvars.add(x.id)
        bad = []
        for n in walk_no_nested(fn):
            if isinstance(n, ast.Assign) and len(n.targets) == 1 and isinstance(n.targets[0], ast.Name) and n.targets[0].id in dvars:
                v = n.targets[0].id
                if isinstance(n.value, (ast.Call, ast.ListComp, ast.GeneratorExp)) and any(isinstance(x, ast.Name) and x.id == v for x in ast.walk(n.value)):
                    bad.append(n)
        ok = not bad
        ctx.inst(rule, fid, 'sub-diff variables %s' % sorted(dvars), ok, 'no sub-diff is rewritten before it is merged' if ok else
                 '%s: the side\'s diff of the item is filtered before it is merged, so the merged item receives only part of a change that is consistent only as a whole' %
                 repo.norm(bad[0])[:70], bad[0] if bad else fn)


@extra('C10', 'R10.12', 'a conflict on a key of a mapping is registered with the strategy configured FOR THAT KEY: in the key loop of _merge_dicts the strategy argument of every '
       'conflict() derives from the loop key (strategies.get(star_path(path + (key,)))), not from the containing dict -- /cells/*/attachments has its own (input) strategy, '
       'its parent /cells/* has none', 3)
def r10_12(ctx, rule):
    repo = ctx.repo
    fid = 'nbdime.merging.generic:_merge_dicts'
    fn = repo.func(fid)
    n = 0
    for loop in [x for x in walk_no_nested(fn) if isinstance(x, ast.For) and isinstance(x.target, ast.Name)]:
        confs = [c for s in loop.body for c in ast.walk(s) if isinstance(c, ast.Call) and isinstance(c.func, ast.Attribute) and c.func.attr in ('conflict', 'similar_insert')]
        if not confs:
            continue
        derived = {loop.target.id}
        changed = True
        while changed:
            changed = False
            for s in loop.body:
                for a in ast.walk(s):
                    if isinstance(a, ast.Assign) and any(isinstance(x, ast.Name) and x.id in derived for x in ast.walk(a.value)):
                        for t in a.targets:
                            for x in ast.walk(t):
                                if isinstance(x, ast.Name) and isinstance(x.ctx, ast.Store) and x.id not in derived:
                                    derived.add(x.id)
                                    changed = True
        for c in confs:
            n += 1
            sa = c.args[3] if len(c.args) > 3 else next((k.value for k in c.keywords if k.arg == 'strategy'), None)
            ok = sa is not None and any(isinstance(x, ast.Name) and x.id in derived for x in ast.walk(sa))
            ctx.inst(rule, fid, repo.norm(c)[:80], ok, 'strategy of the key' if ok else
                     'the conflict on this key is registered with `%s`, which does not depend on the key: the strategy configured for the key (e.g. the input strategy on '
                     '/cells/*/attachments) is not applied, the conflict leaks to the level above or stays open' % (ast.unparse(sa) if sa is not None else '<none>'), c)
    if n < 3:
        raise AnalysisError('_merge_dicts: fewer than three conflict registrations found in the key loop')


@extra('C10', 'R10.13', 'the decisions the strategies produced are final: after decide_merge_with_diff returned, decide_notebook_merge neither re-binds nor modifies the decision list '
       'or its members (no store through it or through a loop over it, no mutating method, no callee that mutates it) -- a pass that runs AFTER the strategies settles only what '
       'THEY left open, so the same conflict ends differently under use-local and under mergetool-then-choose-local', 1)
def r10_13(ctx, rule):
    from ..facts import MUTATORS
    repo, cg = ctx.repo, ctx.cg
    fid = 'nbdime.merging.notebooks:decide_notebook_merge'
    fn = repo.func(fid)
    src = [st for st in walk_no_nested(fn) if isinstance(st, ast.Assign) and isinstance(st.value, ast.Call) and
           any(t[0] == 'func' and t[1].endswith(':decide_merge_with_diff') for t in cg.resolve(st.value.func, fn)) and isinstance(st.targets[0], ast.Name)]
    if len(src) != 1:
        raise AnalysisError('decide_notebook_merge: the decide_merge_with_diff assignment was not found')
    D = src[0].targets[0].id
    after = src[0].lineno
    S = _summaries(ctx)
    members = set()
    for x in walk_no_nested(fn):
        if isinstance(x, ast.For) and any(isinstance(y, ast.Name) and y.id == D for y in ast.walk(x.iter)):
            members |= {y.id for y in ast.walk(x.target) if isinstance(y, ast.Name)}
    bad = []
    for x in walk_no_nested(fn):
        if getattr(x, 'lineno', 0) <= after:
            continue
        tg = x.targets if isinstance(x, (ast.Assign, ast.Delete)) else [x.target] if isinstance(x, (ast.AugAssign, ast.AnnAssign)) else []
        for t in tg:
            if isinstance(t, ast.Name) and t.id == D:
                bad.append((x, 're-binds the decision list'))
            b = t
            while isinstance(b, (ast.Attribute, ast.Subscript)):
                b = b.value
            if b is not t and isinstance(b, ast.Name) and (b.id == D or b.id in members):
                bad.append((x, 'stores into %s' % ('the decision list' if b.id == D else 'a decision')))
        if isinstance(x, ast.Call):
            if isinstance(x.func, ast.Attribute) and x.func.attr in MUTATORS and isinstance(x.func.value, ast.Name) and (x.func.value.id == D or x.func.value.id in members):
                bad.append((x, 'mutating method .%s()' % x.func.attr))
            for cf in [t[1] for t in cg.resolve(x.func, fn) if t[0] == 'func']:
                cfn = repo.functions.get(cf)
                if cfn is None:
                    continue
                ps = [a.arg for a in cfn.args.args]
                for i, a in enumerate(x.args):
                    if isinstance(a, ast.Name) and (a.id == D or a.id in members) and i < len(ps) and (cf, ps[i]) in S.mutates:
                        bad.append((x, 'passes it to %s, which modifies parameter %s' % (cf, ps[i])))
                for k in x.keywords:
                    if isinstance(k.value, ast.Name) and (k.value.id == D or k.value.id in members) and (cf, k.arg) in S.mutates:
                        bad.append((x, 'passes it to %s, which modifies parameter %s' % (cf, k.arg)))
    ok = not bad
    ctx.inst(rule, fid, 'decision list `%s` after the generic merge' % D, ok, 'returned as the strategies left it' if ok else
             '%s (%s): what the strategies decided is changed afterwards -- the strategy run and the open merge resolved by hand no longer agree' % (repo.norm(bad[0][0])[:60], bad[0][1]),
             bad[0][0] if bad else src[0])


@extra('C05', 'R05.16', 'the action "either" (applied as the LOCAL diff) is only ever registered for two diffs that were asserted equal: every decision created with the constant '
       'action "either" sits in a function that asserts local_diff == remote_diff (or strict_equal) on the same two expressions -- an "either" over different values silently '
       'prefers whichever side is called local, so swapping the sides changes the merge', 1)
def r05_16(ctx, rule):
    repo = ctx.repo
    n = 0
    for fid, fn in sorted(repo.functions.items()):
        if not fid.startswith('nbdime.merging.'):
            continue
        for c in calls_in(fn, nested=False):
            nm = c.func.attr if isinstance(c.func, ast.Attribute) else c.func.id if isinstance(c.func, ast.Name) else ''
            if nm not in ('add_decision', 'MergeDecision'):
                continue
            act = next((k.value for k in c.keywords if k.arg == 'action'), None)
            if act is None and nm == 'add_decision' and len(c.args) > 1:
                act = c.args[1]
            if const_val(act) != 'either':
                continue
            n += 1
            ld = next((k.value for k in c.keywords if k.arg == 'local_diff'), c.args[2] if len(c.args) > 2 else None)
            rd = next((k.value for k in c.keywords if k.arg == 'remote_diff'), c.args[3] if len(c.args) > 3 else None)
            ok = False
            if ld is not None and rd is not None:
                l_, r_ = ast.unparse(ld), ast.unparse(rd)
                if l_ == r_:
                    ok = True
                for a in walk_no_nested(fn):
                    if isinstance(a, ast.Assert):
                        for x in ast.walk(a.test):
                            if isinstance(x, ast.Compare) and len(x.ops) == 1 and isinstance(x.ops[0], ast.Eq) and \
                                    {ast.unparse(x.left), ast.unparse(x.comparators[0])} == {l_, r_}:
                                ok = True
                            if isinstance(x, ast.Call) and (dotted(x.func) or '').split('.')[-1] == 'strict_equal' and len(x.args) == 2 and \
                                    {ast.unparse(x.args[0]), ast.unparse(x.args[1])} == {l_, r_}:
                                ok = True
            ctx.inst(rule, fid, repo.norm(c)[:80], ok, 'both diffs asserted equal' if ok else
                     'an "either" decision is created here without the two diffs having been asserted equal: resolve_action applies the local diff, so for different diffs the '
                     'local side wins silently and merge(b, l, r) differs from merge(b, r, l)', c)
    if n == 0:
        raise AnalysisError('no decision with the constant action "either" found (anchor moved)')


def _r_difflib_callers(ctx, rule):
    """SequenceMatcher matches items by hash and ==: 1, 1.0 and True (0.0 and -0.0) are the same item to it."""
    from ..cfg import CFG, cond_guards
    repo, cg = ctx.repo, ctx.cg
    target = 'nbdime.diffing.seq_difflib:diff_sequence_difflib'
    repo.func(target)
    n = 0
    for fid, fn in sorted(repo.functions.items()):
        if not fid.startswith('nbdime.') or '.tests.' in fid or fid == target:
            continue
        calls = [c for c in calls_in(fn, nested=False) if ('func', target) in cg.resolve(c.func, fn)]
        if not calls:
            continue
        g = None
        ps = [a.arg for a in fn.args.args]
        # (a) a string differ: both sequence arguments are parameters asserted to be str
        str_asserted = set()
        for a in walk_no_nested(fn):
            if isinstance(a, ast.Assert):
                for x in ast.walk(a.test):
                    if isinstance(x, ast.Call) and isinstance(x.func, ast.Name) and x.func.id == 'isinstance' and len(x.args) == 2 and isinstance(x.args[0], ast.Name) and \
                            ast.unparse(x.args[1]) in ('str', '(str,)'):
                        str_asserted.add(x.args[0].id)
        for c in calls:
            n += 1
            args = [a.id for a in c.args[:2] if isinstance(a, ast.Name)]
            ok = len(args) == 2 and all(a in str_asserted for a in args)
            why = 'both arguments are asserted to be strings' if ok else ''
            if not ok:
                g = g or CFG(fn)
                for t, pol in cond_guards(g, repo.stmt_of(c)):
                    if pol and isinstance(t, ast.Compare) and len(t.ops) == 1 and isinstance(t.ops[0], ast.Eq) and \
                            {ast.unparse(t.left), ast.unparse(t.comparators[0])} == {'diff_sequence_algorithm', "'difflib'"}:
                        ok = True
                        why = 'only when the (non-default) algorithm switch says difflib'
            ctx.inst(rule, fid, repo.norm(c)[:80], ok, why if ok else
                     'difflib\'s SequenceMatcher is used on a sequence that is not known to consist of characters: it matches items by hash and ==, so an item that only changes '
                     'its JSON type (1 -> 1.0 -> true, 0.0 -> -0.0) is aligned as unchanged and the change is missing from the diff', c)
    # ... and nobody else turns the blocks of a SequenceMatcher into a diff
    for fid, fn in sorted(repo.functions.items()):
        if not fid.startswith('nbdime.') or '.tests.' in fid or fid.split(':')[0] == 'nbdime.diffing.seq_difflib':
            continue
        for c in calls_in(fn, nested=False):
            if isinstance(c.func, ast.Attribute) and c.func.attr in ('get_opcodes', 'get_matching_blocks', 'get_grouped_opcodes'):
                ctx.inst(rule, fid, repo.norm(c)[:60], False,
                         'a diff is derived from difflib\'s matching blocks outside seq_difflib: SequenceMatcher matches by hash and ==, whatever the items are wrapped in '
                         '((float, 0.0) == (float, -0.0)), so the type-strict equality of the differ is bypassed', c)
    if n < 2:
        raise AnalysisError('fewer than two callers of diff_sequence_difflib found')


@extra('C01', 'R01.25', 'the hash-based matcher (difflib) aligns characters only: every call of diff_sequence_difflib is in a differ whose arguments are asserted strings, or under the '
       'explicit algorithm switch', 2)
def r01_25(ctx, rule):
    _r_difflib_callers(ctx, rule)


@extra('C02', 'R02.27', 'the hash-based matcher (difflib) aligns characters only (as R01.25): for JSON items it conflates 1 / 1.0 / true', 2)
def r02_27(ctx, rule):
    _r_difflib_callers(ctx, rule)


@extra('C12', 'R12.18', 'what a memoised function (lru_cache / cache) returns is never modified by its callers: the cache hands the SAME object to every later call, so a list that one '
       'call extends is extended for the rest of the process', 2)
def r12_18(ctx, rule):
    from ..facts import MUTATORS
    repo, cg = ctx.repo, ctx.cg
    memo = {}
    for fid, fn in repo.functions.items():
        if not fid.startswith('nbdime.') or '.tests.' in fid:
            continue
        for d_ in fn.decorator_list:
            if any(isinstance(x, (ast.Name, ast.Attribute)) and (dotted(x) or '').split('.')[-1] in ('lru_cache', 'cache', 'memoize') for x in ast.walk(d_)):
                memo[fid] = ast.unparse(d_)
    if not memo:
        raise AnalysisError('no memoised function found (the text heuristics of nbdime.diffing.notebooks are cached)')
    bad = {}
    for fid, fn in sorted(repo.functions.items()):
        if not fid.startswith('nbdime.') or '.tests.' in fid:
            continue
        held = {}
        for n in walk_no_nested(fn):
            if isinstance(n, ast.Assign) and isinstance(n.value, ast.Call) and len(n.targets) == 1 and isinstance(n.targets[0], ast.Name):
                for t in cg.resolve(n.value.func, fn):
                    if t[0] == 'func' and t[1] in memo:
                        held[n.targets[0].id] = t[1]
        if not held:
            continue
        for n in walk_no_nested(fn):
            nm = None
            if isinstance(n, ast.Call) and isinstance(n.func, ast.Attribute) and n.func.attr in MUTATORS and isinstance(n.func.value, ast.Name):
                nm = n.func.value.id
            elif isinstance(n, (ast.Assign, ast.AugAssign, ast.Delete)):
                for t in (n.targets if not isinstance(n, ast.AugAssign) else [n.target]):
                    b = t
                    while isinstance(b, (ast.Subscript, ast.Attribute)):
                        b = b.value
                    if (b is not t or isinstance(n, ast.AugAssign)) and isinstance(b, ast.Name):
                        nm = b.id
            if nm in held:
                bad.setdefault(held[nm], []).append((fid, n))
    for m, deco in sorted(memo.items()):
        b = bad.get(m, [])
        ctx.inst(rule, m, '@%s' % deco[:40], not b, 'no caller modifies the result' if not b else
                 '%s: `%s` modifies the object the cache hands out -- the change is seen by every later call in the process' % (b[0][0], repo.norm(b[0][1])[:60]),
                 b[0][1] if b else repo.functions[m])


@extra('C12', 'R12.19', 'no class keeps a mutable container in its CLASS body that its methods grow through `self` (self.x += [...], self.x.append(...), self.x[k] = v without a prior '
       'self.x = ... in __init__): `+=` on a list extends the one class-level object in place and every instance -- past and future -- shares it; no reset can reach it', 1)
def r12_19(ctx, rule):
    from ..facts import MUTATORS
    repo = ctx.repo
    n_cls = 0
    for cid, c in sorted(repo.classes.items()):
        if not cid.startswith('nbdime.') or '.tests.' in cid or cid.startswith('nbdime.webapp'):     # handler classes: C20 R20.13
            continue
        n_cls += 1
        mut = {}
        for st in c.body:
            if isinstance(st, ast.Assign) and len(st.targets) == 1 and isinstance(st.targets[0], ast.Name) and \
                    (isinstance(st.value, (ast.List, ast.Dict, ast.Set, ast.ListComp, ast.DictComp, ast.SetComp)) or
                     (isinstance(st.value, ast.Call) and dotted(st.value.func) in ('list', 'dict', 'set', 'defaultdict', 'collections.defaultdict', 'OrderedDict'))):
                mut[st.targets[0].id] = st
        if not mut:
            continue
        for m in c.body:
            if not isinstance(m, (ast.FunctionDef, ast.AsyncFunctionDef)) or not m.args.args:
                continue
            me = m.args.args[0].arg
            rebound = {t.attr for x in walk_no_nested(m) if isinstance(x, ast.Assign) for t in x.targets
                       if isinstance(t, ast.Attribute) and isinstance(t.value, ast.Name) and t.value.id == me}
            for x in walk_no_nested(m):
                tgt = None
                if isinstance(x, ast.AugAssign) and isinstance(x.target, ast.Attribute) and isinstance(x.target.value, ast.Name) and x.target.value.id == me:
                    tgt = x.target.attr
                    if tgt in rebound and m.name == '__init__' and False:
                        tgt = None
                elif isinstance(x, ast.Call) and isinstance(x.func, ast.Attribute) and x.func.attr in MUTATORS and isinstance(x.func.value, ast.Attribute) and \
                        isinstance(x.func.value.value, ast.Name) and x.func.value.value.id == me:
                    tgt = x.func.value.attr
                elif isinstance(x, (ast.Assign, ast.Delete)):
                    for t in x.targets:
                        if isinstance(t, ast.Subscript) and isinstance(t.value, ast.Attribute) and isinstance(t.value.value, ast.Name) and t.value.value.id == me:
                            tgt = t.value.attr
                if tgt in mut and not (tgt in rebound and not isinstance(x, ast.AugAssign) and m.name != '__init__'):
                    # a plain rebinding self.x = ... elsewhere does not help an in-place += that runs before it; only flag when no rebinding precedes in this method
                    pre = [y for y in walk_no_nested(m) if isinstance(y, ast.Assign) and y.lineno < x.lineno and
                           any(isinstance(t, ast.Attribute) and t.attr == tgt and isinstance(t.value, ast.Name) and t.value.id == me for t in y.targets)]
                    if pre:
                        continue
                    ctx.inst(rule, cid, '%s = %s (class body)' % (tgt, ast.unparse(mut[tgt].value)[:30]), False,
                             '%s.%s: `%s` modifies the container defined in the class body: it is one object for all instances, so what one configuration adds stays for '
                             'every later one in the process' % (cid, m.name, repo.norm(x)[:60]), x)
    ctx.inst(rule, 'nbdime', '%d class(es) examined' % n_cls, True, 'class-level containers are not grown through instances', None, nontrivial=True)
    if n_cls < 5:
        raise AnalysisError('fewer classes than expected')


def _r_no_id_keys(ctx, rule):
    repo = ctx.repo
    n_fn = 0
    for fid, fn in sorted(repo.functions.items()):
        if not fid.startswith('nbdime.') or '.tests.' in fid:
            continue
        n_fn += 1
        fmt = set()
        for x in walk_no_nested(fn):
            if isinstance(x, (ast.JoinedStr, ast.FormattedValue)) or (isinstance(x, ast.BinOp) and isinstance(x.op, ast.Mod)) or \
                    (isinstance(x, ast.Call) and isinstance(x.func, ast.Attribute) and x.func.attr in ('format', 'debug', 'info', 'warning', 'error', 'exception')) or \
                    (isinstance(x, ast.Call) and isinstance(x.func, ast.Name) and x.func.id in ('print', 'repr', 'str', 'hex')):
                fmt |= {id(y) for y in ast.walk(x)}
        # an address is a sound key only while the object is alive: a table that lives no longer than the call (a local) is fine, one that outlives it is not
        m_ = repo.mod_of(fn)
        outliving = {n_.id for n_ in walk_no_nested(fn) if isinstance(n_, ast.Name) and n_.id in m_.assigns and
                     not any(isinstance(y, ast.Name) and y.id == n_.id and isinstance(y.ctx, ast.Store) for y in walk_no_nested(fn))}
        outliving = {n_ for n_ in outliving if any(isinstance(v, (ast.Dict, ast.Set, ast.List, ast.DictComp)) or
                                                    (isinstance(v, ast.Call) and (dotted(v.func) or '').split('.')[-1] in ('dict', 'set', 'list', 'defaultdict', 'OrderedDict', 'WeakValueDictionary'))
                                                    for v in m_.assigns[n_])}
        uses_self = any(isinstance(y, ast.Attribute) and isinstance(y.value, ast.Name) and y.value.id in ('self', 'cls') for y in walk_no_nested(fn))
        memo = any((dotted(z) or '').split('.')[-1] in ('lru_cache', 'cache') for d_ in fn.decorator_list for z in ast.walk(d_) if isinstance(z, (ast.Name, ast.Attribute)))
        returns_it = any(isinstance(r_, ast.Return) and r_.value is not None and any(isinstance(y, ast.Call) and isinstance(y.func, ast.Name) and y.func.id == 'id' for y in ast.walk(r_.value))
                         for r_ in walk_no_nested(fn))
        if not (outliving or uses_self or memo or returns_it):
            continue
        for x in walk_no_nested(fn):
            if isinstance(x, ast.Call) and isinstance(x.func, ast.Name) and x.func.id == 'id' and len(x.args) == 1 and id(x) not in fmt:
                ctx.inst(rule, fid, repo.norm(x)[:60], False,
                         'id() of a value is used as data (a cache key, a set member) next to a table that outlives the call (%s): an address identifies an object only while it is alive -- once the object is freed the '
                         'next object at the same address inherits its cache entry, so a result computed for one input is returned for another' %
                         (', '.join(sorted(outliving)) or ('an attribute of self' if uses_self else 'the memoising decorator' if memo else 'the returned key')), x)
    ctx.inst(rule, 'nbdime', 'id() as data', True, '%d function(s) scanned, object addresses are not used as keys' % n_fn, None, nontrivial=True)


@extra('C02', 'R02.28', 'no result is cached under the ADDRESS of its input (id(x) as a key): diff and patch helpers depend on the value of their arguments only', 1)
def r02_28(ctx, rule):
    _r_no_id_keys(ctx, rule)


@extra('C12', 'R12.20', 'no result is cached under the address of its input (as R02.28): an address outlives the object only by accident', 1)
def r12_20(ctx, rule):
    _r_no_id_keys(ctx, rule)


@extra('C07', 'R07.19', 'where equal characters are trimmed from both ends before aligning, the tail scan is bounded by the head count (C01 R01.11): overlapping head and tail make the '
       'line diff drop or invent text', 1)
def r07_19(ctx, rule):
    from ..trim import check_trims
    check_trims(ctx, rule, ['nbdime.diffing.'])


@extra('C05', 'R05.17', 'split_string_path, tabulated over small documents (root string, string under keys, string inside a list, no string on the path): it returns the path up to the '
       'first string it reaches and the rest as the line key -- decisions on a line of a string are applied to the string, not to a character of it', 8)
def r05_17(ctx, rule):
    from .. import miniinterp
    repo = ctx.repo
    fid = 'nbdime.merging.decisions:split_string_path'
    fn = repo.func(fid)
    docs = [('root string', 'ab\ncd\n'), ('string under a key', {'a': 'x\ny\n', 'n': 1}), ('string under two keys', {'a': {'b': 't\n'}}),
            ('string in a list', ['u\n', {'k': 'v\nw\n'}]), ('no string', {'a': [1, {'b': 2}]})]
    paths = {'root string': [(), (0,), (1,)], 'string under a key': [(), ('a',), ('a', 0), ('a', 1), ('n',)],
             'string under two keys': [('a',), ('a', 'b'), ('a', 'b', 0)], 'string in a list': [(0,), (0, 0), (1, 'k'), (1, 'k', 1)],
             'no string': [('a',), ('a', 1), ('a', 1, 'b')]}

    def want(doc, path):
        for i in range(len(path)):
            if isinstance(doc, str):
                return path[:i], path[i:]
            doc = doc[path[i]]
        return path, ()
    for label, doc in docs:
        for p in paths[label]:
            try:
                got = miniinterp.call(fn, [doc, p], what='split_string_path')
            except miniinterp.Raised as ex:
                got = 'raises %s' % ex
            w = want(doc, p)
            ok = isinstance(got, tuple) and len(got) == 2 and tuple(got[0]) == w[0] and tuple(got[1]) == w[1]
            ctx.inst(rule, fid, '%s, path %r' % (label, p), ok, 'splits into %r' % (w,) if ok else
                     'returns %r where the path up to the string is %r and the line key %r: apply_decisions then resolves the decision\'s path INTO the string (a character) and '
                     'patching fails or edits the wrong thing' % (got, w[0], w[1]), fn)


@extra('C17', 'R17.19', 'what nbdime hands out for one changed file does not depend on the files handled before it: nothing on the git-listing path writes module-level state (C12 '
       'R12.1) -- git decides per file (a clean filter that fails on one file is still applied to the next)', 8)
def r17_19(ctx, rule):
    from ..report import run_sub
    from . import c12
    run_sub(ctx, c12, {'R12.1': rule})


@extra('C06', 'R06.3', 'apply_decisions returns the document as patched (C15 R15.11): no normalising step after the decision loop removes what neither side touched (ids of untouched cells, '
       'empty containers)', 2)
def r06_3(ctx, rule):
    r15_11(ctx, rule)


def _r_star_path_table(ctx, rule):
    """star_path is the link between a concrete path (of a decision, of a diff entry) and the keys of the strategy / differ / ignore tables ('/cells/*/source')."""
    import re as _re
    from .. import miniinterp
    repo = ctx.repo
    UT_ = 'nbdime.utils'
    sp = repo.func(UT_ + ':star_path')
    m = repo.mod(UT_)
    globs = {}
    todo = [sp]
    while todo:         # names used by star_path and, transitively, by the sibling helpers it calls
        f_ = todo.pop()
        for nm in {x.id for x in ast.walk(f_) if isinstance(x, ast.Name)}:
            if nm in globs:
                continue
            if repo.has_func(UT_ + ':' + nm):
                globs[nm] = repo.func(UT_ + ':' + nm)
                todo.append(globs[nm])
            elif nm in m.assigns and len(m.assigns[nm]) == 1:
                v = m.assigns[nm][0]
                if isinstance(v, ast.Call) and dotted(v.func) == 're.compile' and len(v.args) == 1 and not v.keywords and isinstance(const_val(v.args[0]), str):
                    globs[nm] = _re.compile(const_val(v.args[0]))
    table = [(('cells', 0, 'source'), '/cells/*/source'), (('cells', 12, 'outputs', 3, 'data', 'text/plain'), '/cells/*/outputs/*/data/text/plain'),
             (('cells', '7', 'metadata'), '/cells/*/metadata'), (('cells', '12', 'id'), '/cells/*/id'), (('metadata', 'kernelspec', 'name'), '/metadata/kernelspec/name'), ((), '/'),
             (('cells',), '/cells'), (['cells', 3], '/cells/*'), (('metadata', 'v2', 'x1'), '/metadata/v2/x1'), (('cells', 0, 'attachments', 'image.png'), '/cells/*/attachments/image.png')]
    for path, want in table:
        try:
            got = miniinterp.call(sp, [path], what='star_path', globs=globs)
        except miniinterp.Raised as ex:
            got = 'raises %s' % ex
        ok = got == want
        ctx.inst(rule, UT_ + ':star_path', 'path %r' % (path,), ok, '-> %s' % want if ok else
                 'gives %r, the tables are keyed by %r: the strategy / differ / ignore configured for this path is not found (or one for another path is)' % (got, want), sp)


@extra('C10', 'R10.14', 'star_path, tabulated: list positions (ints and digit strings) become *, keys stay, the result is /-joined with a leading / -- the form the strategy table is '
       'keyed by', 10)
def r10_14(ctx, rule):
    _r_star_path_table(ctx, rule)


@extra('C14', 'R14.22', 'star_path, tabulated (as R10.14): the form the differ / ignore tables are keyed by', 10)
def r14_22(ctx, rule):
    _r_star_path_table(ctx, rule)


@extra('C15', 'R15.15', 'the stringified object patch writes keys as JSON: _makeKeyString escapes the key (JSON.stringify) -- a key containing a quote, a backslash or a control character '
       'otherwise yields text that is not the JSON of the patched object (what the diff view shows as remote, what the merge tool parses back and saves as metadata)', 1)
def r15_15(ctx, rule):
    from ..tsscan import TsFile
    repo = ctx.repo
    rel = 'packages/nbdime/src/patch/stringified.ts'
    f = TsFile(repo, rel)
    body = f.function_body('_makeKeyString')
    esc = any(t.kind == 'id' and t.text == 'stringify' and i >= 2 and body[i - 1].text == '.' and body[i - 2].text == 'JSON' for i, t in enumerate(body))
    uses_key = any(t.kind == 'id' and t.text == 'key' for t in body)
    if not uses_key:
        raise AnalysisError('_makeKeyString: parameter `key` not found')
    ctx.inst(rule, rel + ':_makeKeyString', 'key -> text', esc, 'the key is written with JSON.stringify' if esc else
             'the key is concatenated between two quote characters unescaped: for the key `C:\\data` or `say "hi"` the remote text is not valid JSON (JSON.parse throws, the metadata '
             'cannot be saved) or names a different key (backslash-t becomes a tab); Python\'s patch + json.dumps escapes', None)


@extra('C15', 'R15.16', 'the object-patch iterator ends when the keys are exhausted, not when a key is falsy: PatchObjectHelper.next() compares the shifted key with undefined -- the empty '
       'string is a valid JSON key, sorts first, and `if (!key)` ends the iteration before any entry is written', 1)
def r15_16(ctx, rule):
    from ..tsscan import TsFile
    repo = ctx.repo
    rel = 'packages/nbdime/src/patch/common.ts'
    f = TsFile(repo, rel)
    toks = f.toks
    at = [i for i, t in enumerate(toks) if t.kind == 'id' and t.text == 'shift' and i >= 1 and toks[i - 1].text == '.' and i + 2 < len(toks) and toks[i + 1].text == '(']
    if not at:
        raise AnalysisError('patch/common.ts: the shift() of the remaining keys was not found')
    i = at[0]
    # the variable the shifted key is bound to
    j = i
    while j > 0 and toks[j].text != '=':
        j -= 1
    var = toks[j - 1].text if j > 0 and toks[j - 1].kind == 'id' else None
    if var is None:
        raise AnalysisError('patch/common.ts: the shifted key is not bound to a variable')
    # first `if (` after the shift
    k = i
    while k < len(toks) and not (toks[k].kind == 'id' and toks[k].text == 'if'):
        k += 1
    if k >= len(toks) or toks[k + 1].text != '(':
        raise AnalysisError('patch/common.ts: no test follows the shift')
    depth, m_ = 0, k + 1
    cond = []
    while m_ < len(toks):
        if toks[m_].text == '(':
            depth += 1
        elif toks[m_].text == ')':
            depth -= 1
            if depth == 0:
                break
        if depth >= 1 and m_ > k + 1:
            cond.append(toks[m_].text)
        m_ += 1
    txt = ' '.join(cond)
    if var not in cond:
        raise AnalysisError('patch/common.ts: the test after the shift (%s) does not look at the key' % txt)
    truthy = cond in ([var], ['!', var]) or txt in ('! %s' % var, var)
    exact = 'undefined' in cond or 'length' in cond
    if not truthy and not exact:
        raise AnalysisError('patch/common.ts: end-of-keys test `%s` not recognised' % txt)
    ctx.inst(rule, rel + ':PatchObjectHelper.next', 'end-of-keys test', not truthy, 'compares with undefined' if not truthy else
             '`if (%s)` treats the key "" as the end of the keys: patchStringified of an object that has an empty-string key writes NO entry at all (remote text `{}`), Python '
             'patches it like any other key' % txt, None, extra={'line': toks[k].line})


@extra('C15', 'R15.17', 'character positions inside a line mean the same on both sides: Python counts CODE POINTS (str indexing), JavaScript strings index UTF-16 code units, so the '
       'TypeScript string patch must convert (codePointAt / Array.from / a code-point iteration) before it adds a character key to a unit offset or slices the base', 1)
def r15_17(ctx, rule):
    from ..tsscan import TsFile
    repo = ctx.repo
    TS = 'packages/nbdime/src/'
    conv = []
    seen = 0
    for rel, fnname in (('diff/util.ts', 'flattenStringDiff'), ('patch/stringified.ts', 'patchString')):
        f = TsFile(repo, TS + rel)
        body = f.function_body(fnname)
        seen += 1
        for i, t in enumerate(body):
            if t.kind == 'id' and t.text in ('codePointAt', 'fromCodePoint'):
                conv.append((rel, t.line))
            if t.kind == 'id' and t.text == 'from' and i >= 2 and body[i - 1].text == '.' and body[i - 2].text == 'Array':
                conv.append((rel, t.line))
            if t.kind == 'id' and 'codepoint' in t.text.lower():
                conv.append((rel, t.line))
    ok = bool(conv)
    ctx.inst(rule, TS + 'diff/util.ts:flattenStringDiff + patch/stringified.ts:patchString', 'unit of character keys', ok,
             'code points are converted at %s' % (conv[:2],) if ok else
             'neither function converts between code points and UTF-16 units: for a line that contains an astral character (an emoji) BEFORE an in-line edit, every character op of the '
             'server lands one unit early per such character in the browser', None)


@extra('C15', 'R15.18', 'both sides canonicalise the diffs they collect for one path before patching: Python\'s apply_decisions runs combine_patches over them (two decisions that each '
       'carry `patch key K` become one); the TypeScript applyDecisions needs the same step, or patchObject meets key K twice', 1)
def r15_18(ctx, rule):
    from ..tsscan import TsFile
    repo, cg = ctx.repo, ctx.cg
    pfn = repo.func('nbdime.merging.decisions:apply_decisions')
    py = [c for c in calls_in(pfn, nested=False) if (dotted(c.func) or '').split('.')[-1] == 'combine_patches']
    rel = 'packages/nbdime/src/merge/decisions.ts'
    body = TsFile(repo, rel).function_body('applyDecisions')
    ts = [t for i, t in enumerate(body) if t.kind == 'id' and 'combine' in t.text.lower() and i + 1 < len(body) and body[i + 1].text == '(']
    if not py:
        ctx.inst(rule, 'apply_decisions / applyDecisions', 'collected diffs of one path', True, 'neither side combines: nothing to mirror', None, nontrivial=False)
        return
    ok = bool(ts)
    ctx.inst(rule, 'apply_decisions / applyDecisions', 'collected diffs of one path', ok, 'both sides combine patches on the same key' if ok else
             'Python combines (%s), TypeScript concatenates: two same-path decisions that both patch key K (what resolve_strategy_record_conflicts produces for /metadata under '
             'the inline strategy) make patchObject throw "Missing key" / patchSequence duplicate the item in the browser' % repo.norm(py[0])[:50], None)


@extra('C16', 'R16.25', 'a table keyed by decision actions that is indexed with a decision\'s action covers every action the merger can emit: a dict literal of the package whose keys '
       'are action names and that is subscripted with `<x>.action` lacks none of them (a missing action is a KeyError in the middle of the rendering)', 1)
def r16_25(ctx, rule):
    from ..mergefacts import emitted_actions
    repo, cg = ctx.repo, ctx.cg
    em = emitted_actions(repo, cg)
    acts = set(em) if not isinstance(em, dict) else set(em.keys())
    acts = {a for a in acts if isinstance(a, str)}
    if len(acts) < 6:
        raise AnalysisError('fewer emitted actions recovered than expected')
    n = 0
    for mname, m in sorted(repo.modules.items()):
        if not mname.startswith('nbdime.') or '.tests.' in mname:
            continue
        for nm, vals in m.assigns.items():
            for v in vals:
                if not isinstance(v, ast.Dict):
                    continue
                keys = {const_val(k) for k in v.keys if k is not None}
                if len(keys & acts) < 3:
                    continue
                # indexed with .action somewhere in the module?
                idx = [x for fid, fn in repo.functions.items() if fid.split(':')[0] == mname for x in ast.walk(fn)
                       if isinstance(x, ast.Subscript) and isinstance(x.value, ast.Name) and x.value.id == nm and isinstance(x.slice, ast.Attribute) and x.slice.attr == 'action']
                if not idx:
                    continue
                n += 1
                missing = sorted(acts - keys)
                ctx.inst(rule, '%s.%s' % (mname, nm), 'action table indexed with .action', not missing, 'covers all %d emitted actions' % len(acts) if not missing else
                         'no entry for %s: rendering a decision with that action raises KeyError (take_max is emitted for every two-sided nbformat_minor change)' % missing, idx[0])
    ctx.inst(rule, 'nbdime', 'action tables', True, '%d table(s) indexed by action, %d emitted actions' % (n, len(acts)), None, nontrivial=True)


@extra('C08', 'R08.17', 'the file names given on the command line are used verbatim: the argparse path type (PathType) and the merge entry points apply no expansion or normalisation '
       '(expanduser / expandvars / abspath / realpath / normpath) -- `$NAME.ipynb` and a directory called `~` are legal names, and git passes %A literally', 1)
def r08_17(ctx, rule):
    repo = ctx.repo
    BAD = {'expanduser', 'expandvars', 'abspath', 'realpath', 'normpath', 'normcase'}
    fids = [f for f in repo.functions if f.startswith('nbdime.args:PathType.')] + ['nbdime.nbmergeapp:main_merge', 'nbdime.nbmergeapp:main']
    n = 0
    for fid in fids:
        if not repo.has_func(fid):
            continue
        fn = repo.func(fid)
        n += 1
        bad = [c for c in calls_in(fn, nested=False) if (dotted(c.func) or '').split('.')[-1] in BAD]
        ctx.inst(rule, fid, 'path handling', not bad, 'names are passed on as given' if not bad else
                 '%s: the designated output (and the inputs) are not the files the caller named: the merge exits 0 while the named output keeps its old content' % repo.norm(bad[0])[:60],
                 bad[0] if bad else fn)
    if n < 2:
        raise AnalysisError('PathType / main_merge not found')


@extra('C01', 'R01.26', 'wherever the differ, the patcher or the merger split a text into lines, the terminators are kept (splitlines(True)): a comparison of splitlines() results without '
       'them calls two sources equal that differ in a final newline or in CRLF / LF', 1)
def r01_26(ctx, rule):
    repo = ctx.repo
    mods = ('nbdime.diffing.generic', 'nbdime.diffing.sequences', 'nbdime.diff_utils', 'nbdime.patching', 'nbdime.merging.generic', 'nbdime.merging.strategies', 'nbdime.merging.decisions')
    n = 0
    for fid, fn in sorted(repo.functions.items()):
        if fid.split(':')[0] not in mods:
            continue
        for c in calls_in(fn, nested=False):
            if isinstance(c.func, ast.Attribute) and c.func.attr == 'splitlines':
                n += 1
                keep = (c.args and const_val(c.args[0]) is True) or any(k.arg == 'keepends' and const_val(k.value) is True for k in c.keywords)
                ctx.inst(rule, fid, repo.norm(c)[:60], bool(keep), 'terminators kept' if keep else
                         'lines are split WITHOUT their terminators: what is decided on these lines (equal / changed, how many) ignores the final newline and the kind of line ending', c)
    if n < 3:
        raise AnalysisError('fewer splitlines() calls than expected in the differ / patcher / merger')


@extra('C20', 'R20.19', 'the diff endpoint diffs the notebooks it read, as read: between get_notebook_argument and diff_notebooks nothing re-binds or receives base / remote (no upgrade, no '
       'normalisation: nbformat\'s upgrade invents random cell ids, so the answer would differ from the library\'s and from request to request)', 2)
def r20_19(ctx, rule):
    repo, cg = ctx.repo, ctx.cg
    SRV = 'nbdime.webapp.nbdimeserver'
    for fid, callee in ((SRV + ':ApiDiffHandler.post', 'nbdime.diffing.notebooks:diff_notebooks'), (SRV + ':ApiMergeHandler.post', 'nbdime.merging.notebooks:decide_notebook_merge')):
        fn = repo.func(fid)
        lib = [c for c in calls_in(fn, nested=False) if ('func', callee) in cg.resolve(c.func, fn)]
        if not lib:
            raise AnalysisError('%s no longer calls %s' % (fid, callee))
        names = {}
        for st in walk_no_nested(fn):
            if isinstance(st, ast.Assign) and isinstance(st.value, ast.Call) and isinstance(st.value.func, ast.Attribute) and st.value.func.attr == 'get_notebook_argument' and \
                    len(st.targets) == 1 and isinstance(st.targets[0], ast.Name):
                names[st.targets[0].id] = st
        if len(names) < 2:
            raise AnalysisError('%s: the notebooks are not read with get_notebook_argument' % fid)
        bad = []
        for x in walk_no_nested(fn):
            if isinstance(x, (ast.Assign, ast.AugAssign)) and x not in names.values():
                for t in (x.targets if isinstance(x, ast.Assign) else [x.target]):
                    for y in ast.walk(t):
                        if isinstance(y, ast.Name) and y.id in names and isinstance(y.ctx, ast.Store) and x.lineno < lib[0].lineno:
                            bad.append((x, 're-binds %s' % y.id))
            if isinstance(x, ast.Call) and x not in lib and x.lineno < lib[0].lineno and not (isinstance(x.func, ast.Attribute) and x.func.attr == 'get_notebook_argument'):
                for a in list(x.args) + [k.value for k in x.keywords]:
                    if isinstance(a, ast.Name) and a.id in names:
                        bad.append((x, 'hands %s to %s' % (a.id, dotted(x.func) or '?')))
        ok = not bad
        ctx.inst(rule, fid, 'notebooks between reading and %s' % callee.split(':')[1], ok, 'diffed / merged as read' if ok else
                 '%s (%s): the library is asked about other documents than the ones the request names' % (repo.norm(bad[0][0])[:60], bad[0][1]), bad[0][0] if bad else lib[0])


@extra('C04', 'R04.15', 'the format minor version is always settled by take-max: every value stored under "/nbformat_minor" in the strategy table is the constant "take-max" -- with any '
       'other strategy the merged notebook can declare a lower minor than a side whose one-sided additions (cell ids) it contains', 1)
def r04_15(ctx, rule):
    repo = ctx.repo
    fid = 'nbdime.merging.notebooks:notebook_merge_strategies'
    fn = repo.func(fid)
    vals = []
    for x in ast.walk(fn):
        if isinstance(x, ast.Dict):
            for k, v in zip(x.keys, x.values):
                if const_val(k) == '/nbformat_minor':
                    vals.append((v, x))
        if isinstance(x, ast.Assign):
            for t in x.targets:
                if isinstance(t, ast.Subscript) and const_val(t.slice) == '/nbformat_minor':
                    vals.append((x.value, x))
    if not vals:
        raise AnalysisError('notebook_merge_strategies: no entry for /nbformat_minor')
    for v, at in vals:
        ok = const_val(v) == 'take-max'
        ctx.inst(rule, fid, '/nbformat_minor -> %s' % ast.unparse(v)[:30], ok, 'take-max' if ok else
                 'the minor version follows `%s`: under use-local / use-base the merged notebook declares the lower version while it carries the ids the upgraded side added '
                 '(schema: "id was unexpected")' % ast.unparse(v)[:30], at)


@extra('C17', 'R17.20', 'git is asked for machine-readable output wherever a path comes back: every `git check-attr` is run with -z (without it git C-quotes paths with non-ASCII '
       'bytes, quotes or backslashes, and a prefix match on the path fails silently: the clean filter is not applied)', 1)
def r17_20(ctx, rule):
    repo = ctx.repo
    n = 0
    for fid, fn in sorted(repo.functions.items()):
        if not fid.startswith('nbdime.') or '.tests.' in fid:
            continue
        for x in walk_no_nested(fn):
            if isinstance(x, ast.List) and 'check-attr' in [const_val(e) for e in x.elts]:
                n += 1
                ok = '-z' in [const_val(e) for e in x.elts]
                ctx.inst(rule, fid, repo.norm(x)[:70], ok, 'NUL-separated output' if ok else
                         'check-attr without -z: for a notebook named résumé.ipynb or say "hi".ipynb git prints a quoted path, the answer is not recognised and the working-tree '
                         'side is handed out unfiltered', x)
    if n == 0:
        raise AnalysisError('no git check-attr invocation found')


@extra('C15', 'R15.19', 'both sides resolve take_max over the SAME three values: Python\'s maximum ranges over base, local and remote (C04 R04.4), as the TypeScript arm does -- the decision '
       'list on the wire is identical either way, only the applied value differs', 1)
def r15_19(ctx, rule):
    from ..report import run_sub
    from . import c04
    run_sub(ctx, c04, {'R04.4': rule})


@extra('C15', 'R15.20', 'the decisions reach the browser in the order validated() gives them (C09 R09.2): the TypeScript applyDecisions concatenates same-path diffs in the order received and '
       'patchSequence needs ascending keys, so a re-ordering after the sort that Python\'s combine_patches absorbs duplicates or misplaces items in the browser', 1)
def r15_20(ctx, rule):
    from ..report import run_sub
    from . import c09
    run_sub(ctx, c09, {'R09.2': rule})


@extra('C01', 'R01.27', 'in the notebook differs (diff_* of nbdime.diffing.notebooks) nothing is skipped or declared unchanged on the word of an ALIGNMENT predicate: the compare_* '
       'functions answer "similar enough to be the same item" (difflib ratio, pointer values ignored), only strict_equal / compare_strict answer "equal"', 3)
def r01_27(ctx, rule):
    repo, cg = ctx.repo, ctx.cg
    EXACT = {'strict_equal', 'compare_strict'}
    n = 0
    for fid, fn in sorted(repo.functions.items()):
        if fid.split(':')[0] != 'nbdime.diffing.notebooks' or not fid.split(':')[1].startswith('diff_'):
            continue
        n += 1
        bad = []
        for x in walk_no_nested(fn):
            if isinstance(x, (ast.If, ast.IfExp, ast.While)):
                for c in ast.walk(x.test):
                    nm = (dotted(c.func) or '').split('.')[-1] if isinstance(c, ast.Call) else ''
                    if nm.startswith('compare_') and nm not in EXACT:
                        bad.append((x, nm))
        ctx.inst(rule, fid, 'conditions of the differ', not bad, 'no alignment predicate decides what is reported' if not bad else
                 '`%s` decides whether a value is diffed at all: a change the predicate tolerates (a 3%% edit of an svg attachment, a different 0x... address) is reported as no change, '
                 'and patching leaves the old value' % bad[0][1], bad[0][0] if bad else fn)
    if n < 3:
        raise AnalysisError('fewer diff_* functions than expected in nbdime.diffing.notebooks')


@extra('C18', 'R18.16', 'where the GLOBAL attributes file is does not depend on whether it exists yet: the global arm of locate_gitattributes takes the path from git\'s configuration '
       '(core.attributesfile, else the XDG default) without any existence test -- once the setting is there git reads only that path, and enable is what creates the file', 1)
def r18_16(ctx, rule):
    from ..util import if_chain
    repo = ctx.repo
    fid = 'nbdime.utils:locate_gitattributes'
    fn = repo.func(fid)
    arm = None
    for st in fn.body:
        if isinstance(st, ast.If):
            arms, orelse = if_chain(st)
            for test, body, node in arms:
                if isinstance(test, ast.Compare) and 'global' in [const_val(c) for c in test.comparators] + [const_val(test.left)]:
                    arm = body
    if arm is None:
        raise AnalysisError('locate_gitattributes: the arm for scope == "global" was not found')
    # the arm ends where the next scope starts; statements after the chain that run for the global scope too are part of it
    probes = [c for st in arm for c in ast.walk(st) if isinstance(c, ast.Call) and (dotted(c.func) or '').split('.')[-1] in ('isfile', 'exists', 'isdir', 'lexists', 'access', 'stat', 'is_file')]
    reads = [c for st in arm for c in ast.walk(st) if isinstance(c, ast.List) and 'core.attributesfile' in [const_val(e) for e in c.elts]]
    if not reads:
        raise AnalysisError('locate_gitattributes: core.attributesfile is not consulted in the global arm')
    ok = not probes
    ctx.inst(rule, fid, 'global arm', ok, 'the configured path is used whether or not the file exists' if ok else
             '%s: with core.attributesfile set and the file not yet created, enable writes the lines into another file, which git ignores in that configuration -- check-attr stays '
             '`unspecified` after a successful enable' % repo.norm(probes[0])[:50], probes[0] if probes else fn)


@extra('C19', 'R19.14', 'recursive_update, tabulated: a mapping in the new layer is merged into the target key by key at EVERY depth, also when the target does not have the key yet; unless '
       'include_none, a null deletes its key and an emptied sub-mapping is pruned -- so a null never survives into the accumulated configuration, where it would delete a value '
       'of a less specific section or a built-in default', 8)
def r19_14(ctx, rule):
    import copy as _copy
    from .. import miniinterp
    repo = ctx.repo
    fid = 'nbdime.config:recursive_update'
    fn = repo.func(fid)

    def spec(t, new, inc):
        for k, v in new.items():
            if isinstance(v, dict):
                sub = t.get(k)
                if not isinstance(sub, dict):
                    sub = {}
                spec(sub, v, inc)
                if not inc and not sub:
                    t.pop(k, None)
                else:
                    t[k] = sub
            elif not inc and v is None:
                t.pop(k, None)
            else:
                t[k] = v
        return t
    cases = [({}, {'a': 1}), ({'a': 1}, {'a': 2, 'b': 3}), ({'a': 1}, {'a': None}), ({}, {'a': None}),
             ({'S': {'x': 1}}, {'S': {'y': 2}}), ({'S': {'x': 1}}, {'S': {'x': None}}), ({}, {'S': {'x': None, 'y': 2}}), ({}, {'S': {'x': None}}),
             ({'S': {'Ignore': {'/metadata': ['a']}}}, {'S': {'Ignore': {'/cells/*/metadata': ['b']}}}), ({}, {'S': {'Ignore': {'/metadata': None, '/cells': True}}}),
             ({'S': {'Ignore': {'/metadata': ['a']}}}, {'T': {'Ignore': {'/metadata': None}}})]
    for t0, new in cases:
        for inc in (False, True):
            t = _copy.deepcopy(t0)
            try:
                miniinterp.call(fn, [t, _copy.deepcopy(new), inc], what='recursive_update', globs={'recursive_update': fn})
                got = t
            except miniinterp.Raised as ex:
                got = 'raises %s' % ex
            want = spec(_copy.deepcopy(t0), _copy.deepcopy(new), inc)
            ok = got == want
            ctx.inst(rule, fid, 'target %r, new %r, include_none=%s' % (t0, new, inc), ok, '-> %r' % (want,) if ok else
                     'gives %r instead of %r: a null (or an empty mapping) of the new layer survives in the accumulated configuration and later deletes an inherited value' % (got, want), fn)


@extra('C11', 'R11.16', 'the diff stored under a MIME key is the diff OF the value stored under that key: in add_mime_diff whatever reaches <builder>.patch(key, d) is the result of a differ '
       'called on the two payload parameters themselves (not on joined, parsed or otherwise transformed copies) and the parameters are never re-bound -- a line diff of joined text '
       'or a mapping diff of parsed JSON is not a well-formed diff of the list / string that the notebook holds', 1)
def r11_16(ctx, rule):
    repo = ctx.repo
    fid = 'nbdime.diffing.notebooks:add_mime_diff'
    fn = repo.func(fid)
    ps = [a.arg for a in fn.args.args]
    if len(ps) < 4:
        raise AnalysisError('add_mime_diff: signature changed')
    av, bv = ps[1], ps[2]
    rebinds = [x for x in walk_no_nested(fn) if isinstance(x, (ast.Assign, ast.AugAssign)) and
               any(isinstance(y, ast.Name) and y.id in (av, bv) and isinstance(y.ctx, ast.Store) for t in (x.targets if isinstance(x, ast.Assign) else [x.target]) for y in ast.walk(t))]
    patches = [c for c in calls_in(fn, nested=False) if isinstance(c.func, ast.Attribute) and c.func.attr == 'patch' and len(c.args) >= 2]
    if not patches:
        raise AnalysisError('add_mime_diff: no <builder>.patch(key, diff) found')
    for c in patches:
        d = c.args[1]
        src = d
        if isinstance(d, ast.Name):
            ds = [x.value for x in walk_no_nested(fn) if isinstance(x, ast.Assign) and len(x.targets) == 1 and isinstance(x.targets[0], ast.Name) and x.targets[0].id == d.id]
            if not ds:
                raise AnalysisError('add_mime_diff: the patched diff `%s` has no definition' % d.id)
            bad_src = [v for v in ds if not (isinstance(v, ast.Call) and len(v.args) >= 2 and isinstance(v.args[0], ast.Name) and v.args[0].id == av and
                                             isinstance(v.args[1], ast.Name) and v.args[1].id == bv)]
            src = bad_src[0] if bad_src else None
        elif isinstance(d, ast.Call) and len(d.args) >= 2 and isinstance(d.args[0], ast.Name) and d.args[0].id == av and isinstance(d.args[1], ast.Name) and d.args[1].id == bv:
            src = None
        ok = src is None and not rebinds
        ctx.inst(rule, fid, repo.norm(c)[:70], ok, 'the diff of the two payloads as stored' if ok else
                 '%s: the patch attached to the key was computed from a transformed copy of the payload, so its keys do not address the stored value (ops shifted, out of range, or of the '
                 'wrong container kind)' % (repo.norm(rebinds[0])[:60] if rebinds else repo.norm(src)[:60]), rebinds[0] if rebinds else c)
