"""C18 -- git integration setup is idempotent and never touches foreign settings."""
import ast
import re

from ..core import AnalysisError, dotted, walk_no_nested
from ..cfg import CFG, cond_guards
from ..util import if_chain, calls_in, local_defs, depends_on, const_val, NOVAL, names_in, truth_under
from .. import facts

ASSUMPTIONS = [
    '`git config <key> <value>` replaces a single-valued key idempotently; `--unset`/`--remove-section` act only on the named key/section (git semantics, trusted)',
    'locate_gitattributes returns the attributes file git reads for the scope (not decided; --system path is outside the property)',
    'the behaviour of real git over all enable/disable sequences is not executed here',
]

MODS = {
    'diffdriver': 'nbdime.vcs.git.diffdriver',
    'mergedriver': 'nbdime.vcs.git.mergedriver',
    'difftool': 'nbdime.vcs.git.difftool',
    'mergetool': 'nbdime.vcs.git.mergetool',
}
OWN = re.compile(r'^(diff|merge)\.jupyternotebook(\.|$)|^(difftool|mergetool)\.nbdime(\.|$)')
SHARED_SELECTORS = {'diff.guitool', 'diff.tool', 'merge.tool', 'merge.guitool'}
PROMPT_KEYS = {'difftool.prompt', 'mergetool.prompt'}      # named exemption: the no-prompt defaults of the tools


def git_config_calls(cg, fn):
    """(call, kind, argv-tail list of consts) for check_call/check_output(cmd + [...]) in fn."""
    out = []
    for c in calls_in(fn, nested=False):
        kinds = [t[1] for t in cg.resolve(c.func, fn) if t[0] == 'ext']
        kind = None
        for k in kinds:
            if k in ('subprocess.check_call', 'subprocess.call', 'subprocess.run', 'subprocess.Popen'):
                kind = 'write'
            elif k == 'subprocess.check_output':
                kind = 'read'
        if kind is None or not c.args:
            continue
        a = c.args[0]
        tail = None

        def cv(e):
            v = const_val(e)
            if v is NOVAL and isinstance(e, ast.Name):
                # a local bound exactly once to a literal
                loc = [x for x in ast.walk(fn) if isinstance(x, ast.Assign) and any(isinstance(t, ast.Name) and t.id == e.id for t in x.targets)]
                others = [x for x in ast.walk(fn) if isinstance(x, ast.Name) and x.id == e.id and isinstance(x.ctx, ast.Store)]
                if len(loc) == 1 and len(others) == 1 and const_val(loc[0].value) is not NOVAL:
                    return const_val(loc[0].value)
                # a module-level constant (assigned once, a literal)
                m = cg.repo.mod_of(fn)
                vals = m.assigns.get(e.id, [])
                if len(vals) == 1 and not any(isinstance(x, ast.Name) and x.id == e.id and isinstance(x.ctx, ast.Store) for x in ast.walk(fn)):
                    return const_val(vals[0])
            return v
        if isinstance(a, ast.BinOp) and isinstance(a.op, ast.Add) and isinstance(a.right, ast.List):
            tail = [cv(e) for e in a.right.elts]
        elif isinstance(a, ast.List):
            tail = [cv(e) for e in a.elts]
        out.append((c, kind, tail))
    return out


def _run_base(ctx):
    repo, cg = ctx.repo, ctx.cg
    ctx.rule('R18.1', 'enable writes only nbdime-owned keys; shared tool selectors only under set_default; no multi-value/removal flags',
             floor=8, floor_what='config writes of the four enable functions')
    ctx.rule('R18.2', 'disable unsets a shared key only after reading it and finding the value nbdime; removes only own sections',
             floor=4, floor_what='four disable functions')
    ctx.rule('R18.3', 'driver disable removes exactly the section the driver enable registers', floor=2)
    ctx.rule('R18.4', 'attributes file: marker test before append, mode a, one line, marker names the registered driver',
             floor=4)
    ctx.rule('R18.5', 'config-git runs all four commands and propagates the first failure', floor=1)

    enable_sections = {}
    for short, mod in MODS.items():
        en = repo.func(mod + ':enable')
        fid = mod + ':enable'
        g = CFG(en)
        calls = git_config_calls(cg, en)
        writes = [(c, t) for c, k, t in calls if k == 'write']
        if not writes:
            raise AnalysisError('no git config write found in %s' % fid)
        for c, tail in writes:
            st = repo.stmt_of(c)
            cons = repo.norm(c)
            if tail is None or not tail or tail[0] is NOVAL:
                ctx.inst('R18.1', fid, cons, False, 'git config arguments are not constant: the key written cannot be bounded', c)
                continue
            if any(x is NOVAL for x in tail[1:]) and not (isinstance(tail[0], str) and OWN.match(tail[0])):
                ctx.inst('R18.1', fid, cons, False, 'the value written to %s is not constant' % tail[0], c)
                continue
            if isinstance(tail[0], str) and tail[0].startswith('--'):
                ctx.inst('R18.1', fid, cons, False, 'enable uses flag %s (adds/removes values instead of setting one key)' % tail[0], c)
                continue
            key = tail[0]
            val = tail[1] if len(tail) > 1 else None
            if OWN.match(key):
                enable_sections.setdefault(short, set()).add(key.rsplit('.', 1)[0])
                ctx.inst('R18.1', fid, cons, True, 'own key %s' % key, c)
            elif key in SHARED_SELECTORS:
                guards = cond_guards(g, st)
                ok = any(truth_under(t, pol, lambda e: isinstance(e, ast.Name) and e.id == 'set_default') is True
                         for t, pol in guards) and val == 'nbdime'
                ctx.inst('R18.1', fid, cons, ok,
                         'shared selector %s written only under set_default, value nbdime' % key if ok else
                         'shared selector %s is written without the set_default guard (overwrites the user\'s tool)' % key, c)
            elif key in PROMPT_KEYS:
                ok = val == 'false'
                ctx.inst('R18.1', fid, cons, ok, 'no-prompt default of the tool (named exemption)' if ok else
                         'prompt key set to something other than the documented no-prompt default', c)
            else:
                ctx.inst('R18.1', fid, cons, False, 'enable writes the foreign key %s' % key, c)

    for short, mod in MODS.items():
        dis = repo.func(mod + ':disable')
        fid = mod + ':disable'
        g = CFG(dis)
        defs = local_defs(dis)
        calls = git_config_calls(cg, dis)
        reads = [(c, t) for c, k, t in calls if k == 'read']
        writes = [(c, t) for c, k, t in calls if k == 'write']
        if not writes:
            ctx.inst('R18.2', fid, '<no git config write>', True, 'disable writes nothing', dis, nontrivial=False)
        for c, tail in writes:
            st = repo.stmt_of(c)
            cons = repo.norm(c)
            if tail is None or not tail or any(x is NOVAL for x in tail):
                ctx.inst('R18.2', fid, cons, False, 'git config arguments are not constant', c)
                continue
            flag = tail[0]
            key = tail[1] if len(tail) > 1 else None
            if flag == '--remove-section':
                ok = bool(key and OWN.match(key))
                ctx.inst('R18.2', fid, cons, ok, 'removes own section %s' % key if ok else
                         'removes section %s, which is not nbdime\'s' % key, c)
                if short in ('diffdriver', 'mergedriver'):
                    want = enable_sections.get(short, set())
                    ok3 = want == {key}
                    ctx.inst('R18.3', fid, '%s vs enable keys under %s' % (cons, sorted(want)), ok3,
                             'disable removes the section enable registered' if ok3 else
                             'disable removes %s but enable registers %s: git keeps routing notebooks to nbdime' % (key, sorted(want)), c)
            elif flag in ('--unset', '--unset-all'):
                if key and OWN.match(key):
                    ctx.inst('R18.2', fid, cons, True, 'unsets own key', c)
                    continue
                if flag == '--unset-all':
                    # the guard looks at ONE value (the effective one); --unset-all removes every value of a multi-valued key, foreign ones included
                    ctx.inst('R18.2', fid, cons, False,
                             '--unset-all on the shared key %s removes ALL its values: with `meld` and `nbdime` both configured (git config --add), the guard sees nbdime and the '
                             'user\'s meld entry is deleted as well' % key, c)
                    continue
                # shared / foreign key: need a read of the same key compared with 'nbdime' guarding it
                guards = cond_guards(g, st)
                ok = False
                for t, pol in guards:
                    # `if tool == 'nbdime': unset`  or the guard-clause form  `if tool != 'nbdime': return` ... unset
                    if not isinstance(t, ast.Compare) or not (pol and isinstance(t.ops[0], ast.Eq) or not pol and isinstance(t.ops[0], ast.NotEq)):
                        continue
                    sides = [t.left, t.comparators[0]]
                    if not any(isinstance(s, ast.Constant) and s.value == 'nbdime' for s in sides):
                        continue
                    other = [s for s in sides if not isinstance(s, ast.Constant)]
                    if other and depends_on(dis, other[0], lambda n: any(n is rc and rt and rt[-1] == key
                                                                        for rc, rt in reads), defs) is not None:
                        ok = True
                        # ... and the value was read in the SAME scope it is unset in: the command prefix is not extended (--global/--system appended)
                        # between the read and the unset
                        for rc, rt in reads:
                            if not (rt and rt[-1] == key):
                                continue
                            rst = repo.stmt_of(rc)
                            base_names = {x.id for x in ast.walk(rc) if isinstance(x, ast.Name)} & {x.id for x in ast.walk(c) if isinstance(x, ast.Name)}
                            for m_ in g.stmts():
                                mut = any(isinstance(y, ast.Call) and isinstance(y.func, ast.Attribute) and y.func.attr in ('append', 'extend', 'insert') and
                                          isinstance(y.func.value, ast.Name) and y.func.value.id in base_names for y in ast.walk(m_) if not isinstance(m_, (ast.If, ast.For, ast.While, ast.Try, ast.With))) or \
                                    (isinstance(m_, ast.AugAssign) and isinstance(m_.target, ast.Name) and m_.target.id in base_names)
                                if mut and not g.dominated_by(rst, [m_]) and m_ in g.reachable(rst) and st in g.reachable(m_):
                                    ok = False
                                    scope_why = 'the value is read with the command prefix as it is BEFORE `%s`, the unset runs after it: the guard looks at one scope (the effective value) and ' \
                                                'the removal hits another -- a global merge.tool=meld is removed because the repository says nbdime' % repo.norm(m_)
                ctx.inst('R18.2', fid, cons, ok,
                         'shared key %s is unset only after reading it and finding nbdime' % key if ok else
                         (locals().get('scope_why') or 'shared key %s is unset unconditionally: a user setting pointing at another tool is removed' % key), c)
                scope_why = None
            else:
                ok = bool(flag and OWN.match(str(flag)))
                ctx.inst('R18.2', fid, cons, ok, 'sets own key' if ok else 'disable writes foreign key/flag %s' % flag, c)
    for short in ('diffdriver', 'mergedriver'):
        fid = MODS[short] + ':disable'
        if not any(i['rule'] == 'R18.3' and i['where'] == fid for i in ctx.instances):
            ctx.inst('R18.3', fid, '<no --remove-section>', False,
                     'driver disable does not remove the driver section: git keeps routing notebooks to nbdime',
                     repo.func(fid))

    # ---------------------------------------------------------------- R18.4
    for short in ('diffdriver', 'mergedriver'):
        mod = MODS[short]
        en = repo.func(mod + ':enable')
        fid = mod + ':enable'
        g = CFG(en)
        kind = 'diff' if short == 'diffdriver' else 'merge'
        opens = []
        for c in calls_in(en, nested=False):
            names = [t[1] for t in cg.resolve(c.func, en) if t[0] == 'ext']
            if any(n in ('io.open', 'builtins.open', 'codecs.open') for n in names) or dotted(c.func) == 'open':
                mode = None
                if len(c.args) > 1:
                    mode = const_val(c.args[1])
                for k in c.keywords:
                    if k.arg == 'mode':
                        mode = const_val(k.value)
                opens.append((c, mode))
        wr = [(c, m) for c, m in opens if m is not None and m is not NOVAL and any(ch in str(m) for ch in 'wax+')]
        rd = [(c, m) for c, m in opens if (c, m) not in wr]
        if len(wr) != 1 or not rd:
            # the read/append may live in a shared helper: judge what can be judged there -- is the user's existing content preserved byte for byte?
            hopens = []
            for c in calls_in(en, nested=False):
                for t in cg.resolve(c.func, en):
                    if t[0] == 'func' and t[1].startswith('nbdime.') and t[1] in repo.functions and t[1] != fid:
                        h = repo.functions[t[1]]
                        for oc in calls_in(h, nested=False):
                            if dotted(oc.func) in ('open', 'io.open', 'codecs.open'):
                                kw = {k.arg: const_val(k.value) for k in oc.keywords}
                                mode = const_val(oc.args[1]) if len(oc.args) > 1 else kw.get('mode', 'r')
                                hopens.append((t[1], oc, str(mode), kw))
            hw = [x for x in hopens if any(ch in x[2] for ch in 'wax+')]
            hr = [x for x in hopens if x not in hw]
            if not hw:
                raise AnalysisError('%s: expected one read-open and one write-open of the attributes file (here or in a helper it calls)' % fid)
            for hf, oc, mode, kw in hw:
                if 'a' in mode:
                    ctx.inst('R18.4', hf, repo.norm(oc), True, 'attributes file opened in append mode (helper of %s)' % fid, oc)
                    continue
                lossless = bool(hr) and all('b' in m or (k.get('newline') == '' and k.get('errors') in ('surrogateescape',)) for _, _, m, k in hr)
                ctx.inst('R18.4', hf, repo.norm(oc), lossless,
                         'the file is rewritten from content read back losslessly (binary, or newline=\'\' with surrogateescape)' if lossless else
                         'the attributes file is REWRITTEN (mode %r) from text read with %s: CRLF line endings are translated and undecodable bytes replaced, so the user\'s '
                         'existing rules are altered (a rule for a non-UTF-8 file name stops matching)' % (
                             mode, ', '.join('mode %r errors=%r newline=%r' % (m, k.get('errors'), k.get('newline')) for _, _, m, k in hr) or 'nothing'), oc)
            ctx.inst('R18.4', fid, 'attributes handling delegated to a helper', True, 'text/marker/ordering checks of the inline form are not judged for the helper form', en, nontrivial=False)
            continue
        wc, mode = wr[0]
        ok = mode in ('a', 'at', 'a+')
        ctx.inst('R18.4', fid, repo.norm(wc), ok, 'attributes file opened in append mode' if ok else
                 'attributes file opened with mode %r: existing content is truncated/overwritten' % mode, wc)
        wst = repo.stmt_of(wc)
        # written literal(s)
        writes = [c for c in calls_in(wst) if isinstance(c.func, ast.Attribute) and c.func.attr in ('write', 'writelines')]
        lits = [const_val(c.args[0]) for c in writes if c.args]
        ok = len(lits) == 1 and isinstance(lits[0], str)
        text = lits[0] if ok else ''
        lines = [l for l in text.split('\n') if l.strip()]
        marker = '%s=jupyternotebook' % kind
        ok = ok and len(lines) == 1 and lines[0].split() == ['*.ipynb', marker] and text.endswith('\n') and text.startswith('\n')
        ctx.inst('R18.4', fid, 'write(%r)' % text, ok,
                 'exactly one rule line "*.ipynb %s", newline-separated from existing content' % marker if ok else
                 'the appended text is not exactly one "*.ipynb %s" line separated by newlines' % marker, wst)
        # marker names the registered driver
        want = enable_sections.get(short, set())
        ok = want == {'%s.jupyternotebook' % kind}
        ctx.inst('R18.4', fid, 'attribute %s <-> config section %s' % (marker, sorted(want)), ok,
                 'the attribute routes *.ipynb to the driver section enable registers' if ok else
                 'attribute and registered driver section disagree', wst)
        # marker test before append
        tests = []
        for s in g.stmts():
            if isinstance(s, ast.If):
                cmps = [c for c in ast.walk(s.test) if isinstance(c, ast.Compare) and isinstance(c.ops[0], ast.In) and
                        isinstance(c.left, ast.Constant) and isinstance(c.left.value, str)]
                if cmps:
                    tests.append((s, cmps[0]))
        if not tests:
            ctx.inst('R18.4', fid, '<no marker test>', False, 'the line is appended without checking whether it is already there (not idempotent)', en)
            continue
        t, mcmp = tests[0]
        tested = mcmp.left.value
        # the test must look at RULE lines: a substring test on the whole file also matches a commented-out line or a rule for another pattern
        per_line = any(isinstance(ge, (ast.GeneratorExp, ast.ListComp)) and any(x is mcmp for x in ast.walk(ge)) and
                       any(isinstance(c, ast.Call) and isinstance(c.func, ast.Attribute) and c.func.attr == 'startswith' and c.args and const_val(c.args[0]) == '#'
                           for i_ in ge.generators[0].ifs for c in ast.walk(i_)) for ge in ast.walk(t.test))
        # statement form of the same scan: `for line in <lines>: if <comment>: continue; if MARKER in line.split(): return`
        loop = None

        def _is_comment_test(e):
            return any(isinstance(c, ast.Call) and isinstance(c.func, ast.Attribute) and c.func.attr == 'startswith' and c.args and const_val(c.args[0]) == '#'
                       for c in ast.walk(e))
        anc = []
        p_ = repo.parent(t)
        while p_ is not None and p_ is not en and not isinstance(p_, ast.For):
            anc.append(p_)
            p_ = repo.parent(p_)
        if isinstance(p_, ast.For) and not per_line:
            L = p_
            iter_reads = any(isinstance(c, ast.Call) and isinstance(c.func, ast.Attribute) and c.func.attr in ('read', 'readlines', 'splitlines')
                             for c in ast.walk(L.iter)) or isinstance(L.iter, ast.Name)
            tvars = {x.id for x in ast.walk(L.target) if isinstance(x, ast.Name)}
            on_line = bool(tvars & names_in(mcmp.comparators[0]))
            no_break = not any(isinstance(x, ast.Break) for x in ast.walk(L))
            conts = [x for x in ast.walk(L) if isinstance(x, ast.Continue)]
            conts_ok = all(isinstance(repo.parent(c_), ast.If) and _is_comment_test(repo.parent(c_).test) and c_ in repo.parent(c_).body for c_ in conts)
            skips = bool(conts) and conts_ok or any(isinstance(a_, ast.If) and _is_comment_test(a_.test) for a_ in anc) or _is_comment_test(t.test)
            anc_ok = all(isinstance(a_, ast.If) and _is_comment_test(a_.test) for a_ in anc)
            if iter_reads and on_line and no_break and conts_ok and anc_ok and not L.orelse:
                loop = L
                per_line = skips
        ctx.inst('R18.4', fid, 'marker test reads %s' % ('rule lines (comments skipped)' if per_line else 'the whole file text'), per_line,
                 'only an effective rule line counts as installed' if per_line else
                 '`%r in <file text>` is true for a commented-out line ("# *.ipynb %s", the obvious way to switch the integration off by hand) or a rule for another pattern: '
                 'enable then adds nothing and `git check-attr` stays unspecified -- enabling has no effect' % (tested, tested), t)
        ok = tested in text and kind in tested and 'jupyternotebook' in tested
        ctx.inst('R18.4', fid, '%r in <file content>' % tested, ok,
                 'tested marker is a substring of the written line and names this driver' if ok else
                 'tested marker %r does not identify the written line %r: a second enable appends again or never writes' % (tested, text), t)
        ok = bool(t.body) and isinstance(t.body[-1], ast.Return)
        rdst = repo.stmt_of(rd[0][0])
        if loop is None:
            reach = g.reachable(rdst, removed=[g.branch(t, False)])
            ok = ok and wst not in reach and g.dominated_by(t, [rdst])
        else:
            # every way from the read to the append runs the whole scan (the loop has no other exit than exhaustion and the return)
            reach = g.reachable(rdst, removed=[loop])
            ok = ok and wst not in reach and g.dominated_by(t, [rdst]) and not any(wst is x for x in ast.walk(loop))
        ctx.inst('R18.4', fid, 'read -> marker test -> append ordering', ok,
                 'once the file was read, the append is reachable only through "marker absent"' if ok else
                 'the append is reachable after the read without the marker-absent branch (duplicate lines)', t)

    # ---------------------------------------------------------------- R18.5
    md = repo.func('nbdime.__main__:main_dispatch')
    found = False
    for s in walk_no_nested(md):
        if isinstance(s, ast.If):
            lits = [n.value for n in ast.walk(s.test) if isinstance(n, ast.Constant)]
            if 'config-git' in lits:
                found = True
                rets = [n for n in s.body if isinstance(n, ast.Return)]
                ok = False
                why = 'config-git arm does not return an or-chain'
                if rets and isinstance(rets[-1].value, ast.BoolOp) and isinstance(rets[-1].value.op, ast.Or):
                    mods = set()
                    for v in rets[-1].value.values:
                        if isinstance(v, ast.Call):
                            for t in cg.resolve(v.func, md):
                                if t[0] == 'func':
                                    mods.add(t[1].split(':')[0])
                    ok = mods == set(MODS.values())
                    why = 'all four integration commands run, first non-zero status returned' if ok else \
                        'config-git does not run all four commands: %s' % sorted(mods)
                ctx.inst('R18.5', 'nbdime.__main__:main_dispatch', repo.norm(rets[-1]) if rets else '<no return>', ok, why, s)
    if not found:
        raise AnalysisError('config-git arm not found in main_dispatch')



def xdg_fallback_by_truthiness(ctx, rule):
    """git reads $XDG_CONFIG_HOME/git/attributes and treats an EMPTY XDG_CONFIG_HOME like an unset one ($HOME/.config).
    locate_gitattributes must therefore choose the fallback by the truthiness of the variable; `os.environ.get(name, default)`
    only falls back when the variable is absent and turns XDG_CONFIG_HOME="" into the relative path git/attributes."""
    repo = ctx.repo
    fn = repo.func('nbdime.utils:locate_gitattributes')
    n = 0
    for c in calls_in(fn):
        d = dotted(c.func) or ''
        is_get = d in ('os.environ.get', 'os.getenv', 'environ.get') and c.args and const_val(c.args[0]) == 'XDG_CONFIG_HOME'
        if not is_get:
            continue
        n += 1
        has_default = len(c.args) > 1 and not (isinstance(c.args[1], ast.Constant) and c.args[1].value in (None, ''))
        # the value must be consulted as a condition: an if/ifexp test or the left operand of `or`
        p = repo.parent(c)
        as_test = (isinstance(p, (ast.If, ast.IfExp)) and p.test is c) or (isinstance(p, ast.BoolOp) and isinstance(p.op, ast.Or) and p.values[0] is c) or \
            (isinstance(p, ast.UnaryOp) and isinstance(p.op, ast.Not))
        if not as_test and isinstance(p, ast.Assign) and len(p.targets) == 1 and isinstance(p.targets[0], ast.Name):
            nm = p.targets[0].id
            as_test = any((isinstance(t, (ast.If, ast.IfExp)) and isinstance(t.test, ast.Name) and t.test.id == nm) or
                          (isinstance(t, ast.BoolOp) and isinstance(t.op, ast.Or) and isinstance(t.values[0], ast.Name) and t.values[0].id == nm)
                          for t in ast.walk(fn))
        ok = as_test and not has_default
        ctx.inst(rule, 'nbdime.utils:locate_gitattributes', repo.norm(c), ok,
                 'the fallback to ~/.config is chosen when the variable is unset OR empty, as git does' if ok else
                 'XDG_CONFIG_HOME="" (set but empty) is used as is: the attributes line is written to the relative path git/attributes in the working directory '
                 'while git itself reads $HOME/.config/git/attributes, so --global enabling never takes effect', c)
    if n == 0:
        raise AnalysisError('locate_gitattributes: XDG_CONFIG_HOME lookup not found')


def no_shared_command_state(ctx, rule):
    """The `git config` argument vectors are built per call.  A module-level list that functions extend in place
    (`cmd = BASE; cmd += [...]`, `.append`, `.extend`) keeps the scope flag of an earlier call: after one --global operation
    every later repository-scope operation in the process edits the global configuration."""
    repo, cg = ctx.repo, ctx.cg
    G = facts.module_globals(repo, cg)
    mods = sorted(set(MODS.values()) | {'nbdime.vcs.git', 'nbdime.utils'})
    n = 0
    for fid, fn in sorted(repo.functions.items()):
        if fid.split(':')[0] not in mods:
            continue
        n += 1
        defs = local_defs(fn)

        def global_of(e, seen=()):
            if isinstance(e, ast.Name):
                for t in cg.resolve(e, fn):
                    if t[0] == 'value' and t[1] in G and G[t[1]]['ctor'] in ('list', 'dict', 'set'):
                        return t[1]
                if e.id not in seen:
                    for v, k, st in defs.get(e.id, []):
                        if k == 'assign' and isinstance(v, ast.Name):
                            r = global_of(v, seen + (e.id,))
                            if r:
                                return r
            return None
        bad = None
        for x in walk_no_nested(fn):
            if isinstance(x, ast.AugAssign) and isinstance(x.target, ast.Name):
                g_ = global_of(x.target)
                if g_ and not any(k == 'assign' and not isinstance(v, ast.Name) for v, k, st in defs.get(x.target.id, [])):
                    bad = (x, g_)
            if isinstance(x, ast.Call) and isinstance(x.func, ast.Attribute) and x.func.attr in facts.MUTATORS:
                g_ = global_of(x.func.value)
                if g_ and isinstance(x.func.value, ast.Name) and not any(k == 'assign' and not isinstance(v, ast.Name) for v, k, st in defs.get(x.func.value.id, [])):
                    bad = (x, g_)
        ctx.inst(rule, fid, 'in-place changes of module-level containers: %s' % ('%s -> %s.%s' % (repo.norm(bad[0])[:60], bad[1][0], bad[1][1]) if bad else 'none'), bad is None,
                 'argument vectors are built fresh on every call' if bad is None else
                 'this extends the module-level object %s.%s in place: flags added for one call (e.g. --global) stay for every later call in the process, '
                 'so a repository-scope enable/disable silently edits the global configuration' % bad[1], bad[0] if bad else fn, nontrivial=False)
    if n < 8:
        raise AnalysisError('fewer functions than expected in the git integration modules')

def run(ctx):
    """R18.6: "nothing to remove / already set" is not a failure of a config subcommand.

    `nbdime config-git` chains the four commands with `or` (R18.5): a non-zero status of one stops the rest.  git exits
    non-zero when asked to remove a section / unset a key that is absent -- the normal situation when disabling twice or
    disabling a part that was never enabled.  So either the config arm of each command returns a constant 0 after calling the
    enable/disable function, or (if it forwards that function's result) no enable/disable function returns the status of a
    git command."""
    ctx.rule('R18.9', 'the global attributes file follows git: an empty XDG_CONFIG_HOME counts as unset (fallback chosen by truthiness, not by a dict.get default)', floor=1)
    ctx.rule('R18.10', 'git config argument vectors are built per call: no function of the git integration extends a module-level container in place', floor=8)
    ctx.rule('R18.8', 'name binding: every global name a function refers to is bound at module level or builtin, and every local is assigned on every path before it is read', floor=4)
    ctx.rule('R18.7', 'every exactly resolved call binds against its callee\'s signature (no missing/unknown/surplus argument on any arm)', floor=3)
    ctx.rule('R18.6', 'a config subcommand does not turn "already absent" into a non-zero status (which would stop the config-git chain before the other drivers/tools are handled)', floor=4)
    _run_base(ctx)
    repo = ctx.repo
    for short, mod in sorted(MODS.items()):
        mn = repo.func(mod + ':main')
        arm = None
        for n in walk_no_nested(mn):
            if isinstance(n, ast.If):
                for test, body, node in if_chain(n)[0]:
                    if any(isinstance(c, ast.Constant) and c.value == 'config' for c in ast.walk(test)):
                        arm = body
        if arm is None:
            # dispatch through a table of per-subcommand functions: the arm is the body of the function that calls config_func
            holders = [f for fid_, f in repo.functions.items() if fid_.startswith(mod + ':') and f is not mn and
                       any(isinstance(x, ast.Call) and isinstance(x.func, ast.Attribute) and x.func.attr == 'config_func' for x in walk_no_nested(f))]
            if len(holders) == 1:
                arm = holders[0].body
        if arm is None:
            raise AnalysisError('%s:main: config arm not found' % mod)
        rets = [r for st in arm for r in ast.walk(st) if isinstance(r, ast.Return)]
        forwards = [r for r in rets if r.value is not None and any(isinstance(x, ast.Attribute) and x.attr == 'config_func' for x in ast.walk(r.value))]
        # results assigned first and returned later
        for st in arm:
            if isinstance(st, ast.Assign) and any(isinstance(x, ast.Attribute) and x.attr == 'config_func' for x in ast.walk(st.value)):
                names = {t.id for t in st.targets if isinstance(t, ast.Name)}
                forwards += [r for r in rets if r.value is not None and names & {x.id for x in ast.walk(r.value) if isinstance(x, ast.Name)}]
        if not forwards:
            ok = all(r.value is not None and const_val(r.value) == 0 for r in rets) and bool(rets)
            ctx.inst('R18.6', mod + ':main', 'config arm returns %s' % [ast.unparse(r.value) if r.value is not None else None for r in rets], ok,
                     'the status of a config subcommand is 0 whatever git reported for removals' if ok else 'config arm does not return 0', arm[0])
            continue
        leaks = []
        for fname in ('enable', 'disable'):
            f = repo.functions.get('%s:%s' % (mod, fname))
            if f is None:
                continue
            for r in walk_no_nested(f):
                if isinstance(r, ast.Return) and r.value is not None and const_val(r.value) not in (None, 0):
                    leaks.append((fname, r))
        ok = not leaks
        ctx.inst('R18.6', mod + ':main', 'config arm forwards the result of config_func: %s' % repo.norm(forwards[0]), ok,
                 'enable/disable return nothing, so the forwarded status is 0' if ok else
                 '%s() returns %s, and main() forwards it as exit status: `git config --remove-section/--unset` on something already absent exits non-zero, '
                 'so `nbdime config-git --disable` stops after this command and leaves the other drivers/tools enabled' % (
                     leaks[0][0], repo.norm(leaks[0][1].value)[:70]), leaks[0][1] if leaks else forwards[0])
    from ..signatures import call_compat
    call_compat(ctx, 'R18.7', ['nbdime.vcs.git.', 'nbdime.__main__'] if ctx.tier == 'quick' else ['nbdime.'], 'the config command aborts half-way, leaving some drivers configured and others not')
    from ..names import name_binding
    name_binding(ctx, 'R18.8', ['nbdime.vcs.git.', 'nbdime.__main__'] if ctx.tier == 'quick' else ['nbdime.'])
    xdg_fallback_by_truthiness(ctx, 'R18.9')
    no_shared_command_state(ctx, 'R18.10')


from .extra import with_extra  # noqa: E402
run = with_extra('C18', run)
