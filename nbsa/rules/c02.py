"""C02 -- generic JSON diff/patch round trip is exact, including value types (structural clauses)."""
import ast

from ..core import AnalysisError, dotted, walk_no_nested, FuncTypes
from ..cfg import CFG, cond_guards
from ..util import calls_in, local_defs, depends_on, const_val, if_chain, names_in, truth_under, param_names, compare_eq_const
from .. import mergefacts as mf
from .. import facts

ASSUMPTIONS = [
    'LCS optimality/backtracking, difflib behaviour, flatten arithmetic and float nan are not decided',
    'Python equality is exact between two str values; between other JSON scalars it conflates bool/int/float (True == 1 == 1.0)',
    'sources of notebooks are str or list of str (nbformat schema), which makes equality on them exact',
]

GEN = 'nbdime.diffing.generic'
NBD = 'nbdime.diffing.notebooks'
EQ_FUNCS = {'operator.__eq__', 'operator.eq'}
SCHEMA_EXACT_PATHS = {'/cells/*/source'}   # values are str / list of str by schema: == is exact there


def value_compare_sites(ctx, fid):
    """Compare(==/!=) nodes whose two operands come from the two document parameters of a differ."""
    repo = ctx.repo
    fn = repo.functions[fid]
    ps = param_names(fn)
    pa = pb = None
    for p in ps:
        for x, y in (('a', 'b'), ('A', 'B'), ('x', 'y')):
            if p.startswith(x) and (y + p[1:]) in ps:
                pa, pb = p, y + p[1:]
                break
        if pa:
            break
    if pa is None:
        return []
    defs = local_defs(fn)

    def side(e):
        s = set()
        for n in ast.walk(e):
            if isinstance(n, ast.Name):
                if n.id == pa:
                    s.add('a')
                elif n.id == pb:
                    s.add('b')
                elif n.id in defs:
                    for v, k, st in defs[n.id]:
                        if k in ('assign',) and not isinstance(v, ast.Call):
                            for m in ast.walk(v):
                                if isinstance(m, ast.Name) and m.id == pa:
                                    s.add('a')
                                if isinstance(m, ast.Name) and m.id == pb:
                                    s.add('b')
        return s
    out = []
    for n in walk_no_nested(fn):
        if isinstance(n, ast.Compare) and len(n.ops) == 1 and isinstance(n.ops[0], (ast.Eq, ast.NotEq)):
            l, r = n.left, n.comparators[0]
            if isinstance(repo.stmt_of(n), ast.Assert):
                continue        # sanity checks do not decide what is emitted
            if any(isinstance(c, ast.Call) and dotted(c.func) in ('len', 'set', 'type', 'bool') for c in ast.walk(n)):
                continue
            if isinstance(l, ast.Call) or isinstance(r, ast.Call):
                # len(a) == len(b), set(a.keys()) != set(b.keys()), type(a) is type(b): not value equality of documents
                continue
            if isinstance(l, ast.Constant) or isinstance(r, ast.Constant):
                continue
            if side(l) == {'a'} and side(r) == {'b'} or side(l) == {'b'} and side(r) == {'a'}:
                out.append(n)
    return out


def str_guarded(repo, fn, g, cmp_node):
    """Both operands proven str: isinstance(x, str) conjuncts/guards, or assert isinstance(...) for the parameters."""
    ops = [dotted(cmp_node.left), dotted(cmp_node.comparators[0])]
    proven = set()

    def scan(t, pol):
        for name in ops:
            if name and truth_under(t, pol, lambda e: isinstance(e, ast.Call) and dotted(e.func) == 'isinstance' and len(e.args) == 2
                                    and dotted(e.args[0]) == name and dotted(e.args[1]) == 'str') is True:
                proven.add(name)
    st = repo.stmt_of(cmp_node)
    for t, pol in cond_guards(g, st):
        scan(t, pol)
    # conjuncts of the same `and`
    par = repo.parent(cmp_node)
    if isinstance(par, ast.BoolOp) and isinstance(par.op, ast.And):
        for v in par.values:
            if v is not cmp_node:
                scan(v, True)
    for n in fn.body:
        if isinstance(n, ast.Assert):
            scan(n.test, True)
    return all(o in proven for o in ops if o) and all(ops)


def _only_routes(repo, cg, fn, cmp_node):
    """`if ... X.f != Y.f: <arm> else: <arm that calls a differ on (X, Y)>`: Python equality of the parts decides the route only."""
    if not (isinstance(cmp_node, ast.Compare) and len(cmp_node.ops) == 1 and isinstance(cmp_node.ops[0], (ast.Eq, ast.NotEq))):
        return None
    def root(e):
        while isinstance(e, (ast.Attribute, ast.Subscript)):
            e = e.value
        return e.id if isinstance(e, ast.Name) else None
    l, r = cmp_node.left, cmp_node.comparators[0]
    if isinstance(l, ast.Name) or isinstance(r, ast.Name):
        return None         # the values themselves, not parts of enclosing objects
    rl, rr = root(l), root(r)
    if not rl or not rr or rl == rr:
        return None
    p = repo.parent(cmp_node)
    while p is not None and not isinstance(p, ast.stmt):
        if isinstance(p, ast.BoolOp) and isinstance(p.op, ast.Or) or isinstance(p, ast.UnaryOp):
            return None
        p = repo.parent(p)
    if not isinstance(p, ast.If) or not any(x is cmp_node for x in ast.walk(p.test)):
        return None
    equal_arm = p.orelse if isinstance(cmp_node.ops[0], ast.NotEq) else p.body
    if not equal_arm and isinstance(cmp_node.ops[0], ast.NotEq):
        return None
    for st in equal_arm:
        for c in ast.walk(st):
            if isinstance(c, ast.Call) and len(c.args) >= 2 and isinstance(c.args[0], ast.Name) and isinstance(c.args[1], ast.Name) and \
                    (c.args[0].id, c.args[1].id) == (rl, rr):
                ts = cg.resolve(c.func, fn)
                if any(t[0] == 'func' and t[1].startswith('nbdime.diffing.') for t in ts) or (isinstance(c.func, ast.Name) and c.func.id in ('diff', 'diffit')):
                    return repo.norm(c)
    return None


def _run_base(ctx):
    repo, cg = ctx.repo, ctx.cg
    ctx.rule('R02.1', 'equality that suppresses diff output must discriminate JSON types: value comparisons of the two documents are str-guarded '
             '(or schema-exact), no table installs a bare operator.__eq__ as the deciding predicate for atomic items, equality helpers test the number type', floor=4)
    ctx.rule('R02.5', 'no dict/set lookup on the diff path is keyed by document items (hashing conflates True/1/1.0)', floor=1)
    ctx.rule('R02.6', 'the differ and the patcher split text into lines with the same primitive (str.splitlines(True)) at every line-key site', floor=4)
    ctx.rule('R02.2', 'only documented ops, handled ops: builder op sets = schema oneOf = documented ops, and every consumer has an arm per op of its container kind', floor=6)
    ctx.rule('R02.3', 'all generic sequence/mapping diffs are assembled by the sorting / duplicate-refusing builders', floor=5)
    ctx.rule('R02.4', 'sibling gap emitters keep one cursor discipline: same key for removerange and addrange, length = next - key, inserted slice from the second sequence', floor=5)

    reach = cg.reachable(facts.DIFF_API)
    # ---------------------------------------------------------------- R02.1 (a) comparisons
    for fid in sorted(reach):
        if not fid.startswith('nbdime.diffing.'):
            continue
        fn = repo.functions[fid]
        # only differs (functions that emit through a builder or return []): predicates steer alignment and are followed by a recursive diff
        emits = any(isinstance(c.func, ast.Name) and c.func.id in ('SequenceDiffBuilder', 'MappingDiffBuilder') for c in calls_in(fn, nested=False)) or \
            any(isinstance(r.value, ast.List) and not r.value.elts for r in walk_no_nested(fn) if isinstance(r, ast.Return) and r.value is not None) or \
            'diffbuilder' in param_names(fn)
        if not emits:
            continue
        sites = value_compare_sites(ctx, fid)
        g = CFG(fn) if sites else None
        for n in sites:
            own = None
            for st in fn.body:
                if isinstance(st, ast.Assert) and isinstance(st.test, ast.Compare) and dotted(st.test.left) == 'path':
                    own = const_val(st.test.comparators[0])
            exact = str_guarded(repo, fn, g, n)
            schema_exact = False
            if not exact:
                # registered only for schema-exact paths?
                reg = [k for tk, fs in cg.tables.items() for k in [tk] if ('func', fid) in fs]
                paths = _registered_paths(repo, fid)
                schema_exact = bool(paths) and paths <= SCHEMA_EXACT_PATHS
            routing = _only_routes(repo, cg, fn, n)
            if routing and not (exact or schema_exact):
                ctx.inst('R02.1', fid, repo.norm(n), True, 'the comparison only chooses between two differs: the arm taken when the values compare equal still diffs the enclosing objects (%s)' % routing, n)
                continue
            ok = exact or schema_exact
            ctx.inst('R02.1', fid, repo.norm(n), ok,
                     ('both operands are proven str: equality is exact' if exact else 'differ registered only for %s, whose values are str/list of str by schema' % sorted(_registered_paths(repo, fid))) if ok else
                     'Python == / != decides "unchanged" for arbitrary JSON values: True == 1 == 1.0, so a change of value type produces no diff entry', n)
    # ---------------------------------------------------------------- R02.1 (b) predicate tables
    for key, fs in sorted(cg.tables.items()):
        pass
    for m in repo.modules.values():
        if not m.name.startswith('nbdime.diffing.'):
            continue
        for n in ast.walk(m.tree):
            if isinstance(n, ast.Call) and (dotted(n.func) or '').split('.')[-1] in ('defaultdict', 'defaultdict2') and n.args and isinstance(n.args[0], ast.Lambda):
                body = n.args[0].body
                elts = body.elts if isinstance(body, (ast.List, ast.Tuple)) else [body]
                names = [dotted(e) for e in elts]
                if not any(x in EQ_FUNCS for x in names):
                    continue
                fn = repo.func_of(n)
                where = repo.where(n)
                # is this a predicates table?  (flows into `predicates=` or is named *predicates*)
                par = repo.parent(n)
                is_pred = (isinstance(par, ast.keyword) and par.arg == 'predicates') or \
                    (isinstance(par, ast.Assign) and 'predicate' in (dotted(par.targets[0]) or '')) or \
                    (isinstance(par, ast.Return) and fn is not None and 'predicate' in fn.name)
                if not is_pred:
                    continue
                # exact when the table only ever sees strings: built inside a function that asserts str inputs
                strings_only = fn is not None and any(isinstance(s, ast.Assert) and 'isinstance' in ast.unparse(s.test) and 'str' in ast.unparse(s.test) for s in fn.body)
                lowest = names[0] if names else None
                ok = strings_only
                ctx.inst('R02.1', where, 'default predicates %s' % repo.norm(body), ok,
                         'the sequences compared are lines of str inputs: equality is exact' if ok else
                         'items of a list that compare equal under operator.__eq__ are treated as unchanged; atomic items are not diffed further, so 1 -> True / 1 -> 1.0 is dropped', n)
    # equality helpers: a function used in place of == to decide "unchanged" must discriminate JSON number types
    helpers = set()
    for fid in sorted(reach):
        if not fid.startswith('nbdime.diffing.'):
            continue
        fn = repo.functions[fid]
        for c in calls_in(fn, nested=False):
            par = repo.parent(c)
            negated = isinstance(par, ast.UnaryOp) and isinstance(par.op, ast.Not)
            for t in cg.resolve(c.func, fn):
                if t[0] == 'func' and len(c.args) == 2 and (negated or isinstance(par, (ast.If, ast.BoolOp))) and \
                        _is_eq_helper(repo.functions[t[1]]):
                    helpers.add(t[1])
    for key, fs in cg.tables.items():
        for t in fs:
            if t[0] == 'func' and _is_eq_helper(repo.functions[t[1]]):
                helpers.add(t[1])
    for h in sorted(helpers):
        hf = repo.functions[h]
        ok = _discriminates_types(repo, cg, hf)
        ctx.inst('R02.1', h, 'equality helper: %s' % repo.norm([n for n in walk_no_nested(hf) if isinstance(n, ast.Return)][-1]), ok,
                 'equality conjoined with a number-type test' if ok else
                 'helper used to decide "unchanged" is plain ==: bool/int/float changes are dropped', hf)
    # diff_sequence default
    ds = repo.func('nbdime.diffing.sequences:diff_sequence')
    ctx.note('diff_sequence/bruteforce default compare=operator.__eq__ is only a default argument; callers on the diff path pass the table predicate')

    # ---------------------------------------------------------------- R02.5 no value-keyed hashing of document items
    n_h = 0
    for fid in sorted(reach):
        if not fid.startswith('nbdime.diffing.'):
            continue
        fn = repo.functions[fid]
        if repo.func_of(fn) is not None:
            continue            # nested defs are analysed with their outermost function
        scope_fns = [fn] + [n for n in ast.walk(fn) if isinstance(n, FuncTypes) and n is not fn]
        params = set()
        for f2 in scope_fns:
            params |= set(param_names(f2))
        elems = set()
        for n in ast.walk(fn):
            it = None
            if isinstance(n, (ast.For, ast.comprehension)):
                it, tg = n.iter, n.target
                if isinstance(it, ast.Name) and it.id in params or \
                        (isinstance(it, ast.Call) and dotted(it.func) in ('zip', 'enumerate') and any(isinstance(a, ast.Name) and a.id in params for a in it.args)):
                    elems |= {x.id for x in ast.walk(tg) if isinstance(x, ast.Name)}
        for f2 in scope_fns[1:]:
            # a nested helper called with elements receives elements
            for c in calls_in(fn):
                if isinstance(c.func, ast.Name) and c.func.id == f2.name:
                    for prm, a in zip(param_names(f2), c.args):
                        if isinstance(a, ast.Name) and a.id in elems:
                            elems.add(prm)
        if not elems:
            continue
        local_dicts = set()
        for n in ast.walk(fn):
            if isinstance(n, ast.Assign) and isinstance(n.targets[0], ast.Name) and (
                    isinstance(n.value, (ast.Dict, ast.Set, ast.DictComp, ast.SetComp)) or
                    (isinstance(n.value, ast.Call) and (dotted(n.value.func) or '').split('.')[-1] in ('dict', 'set', 'defaultdict', 'OrderedDict', 'Counter', 'frozenset'))):
                local_dicts.add(n.targets[0].id)
        for n in ast.walk(fn):
            hit = None
            if isinstance(n, ast.Subscript) and isinstance(n.value, ast.Name) and n.value.id in local_dicts and \
                    any(isinstance(x, ast.Name) and x.id in elems for x in ast.walk(n.slice)):
                hit = n
            if isinstance(n, ast.Call) and isinstance(n.func, ast.Attribute) and n.func.attr in ('get', 'setdefault', 'add', 'pop', '__contains__') and \
                    isinstance(n.func.value, ast.Name) and n.func.value.id in local_dicts and n.args and \
                    any(isinstance(x, ast.Name) and x.id in elems for x in ast.walk(n.args[0])):
                hit = n
            if isinstance(n, ast.Compare) and isinstance(n.ops[0], (ast.In, ast.NotIn)) and isinstance(n.comparators[0], ast.Name) and \
                    n.comparators[0].id in local_dicts and any(isinstance(x, ast.Name) and x.id in elems for x in ast.walk(n.left)):
                hit = n
            if hit is not None:
                n_h += 1
                ctx.inst('R02.5', fid, repo.norm(hit), False,
                         'items of the documents are used as dict/set keys: hash(1) == hash(True) == hash(1.0), so entries of different JSON type share a slot '
                         'and a cached/recorded verdict for one is reused for the other', hit)
    ctx.inst('R02.5', 'nbdime.diffing.*', 'dict/set lookups keyed by document items on the diff path: %d' % n_h, True,
             'no value-keyed hashing of document items (the only equality that decides is the table predicate)', None, nontrivial=False)

    # ---------------------------------------------------------------- R02.6 one line model inside Python
    from ..linemodel import python_line_sites
    sites = python_line_sites(ctx)
    sigs = {tuple(sig) for fid, sig, node in sites}
    for fid, sig, node in sites:
        ok = len(sigs) == 1 and sig == ['splitlines(True)']
        ctx.inst('R02.6', fid, 'line splitter: %s' % sig, ok,
                 'same splitter as every other line-key site (differ and patcher count lines alike)' if ok else
                 'this site splits lines with %s while the others use %s: line keys computed by the differ address other lines in the patcher' % (
                     sig, sorted({s for f2, sg, n2 in sites if f2 != fid for s in sg})), node)

    # ---------------------------------------------------------------- R02.2
    consts = mf.diffop_consts(repo)
    seq = mf.builder_ops(repo, 'SequenceDiffBuilder')
    mp = mf.builder_ops(repo, 'MappingDiffBuilder')
    sch = repo.json('nbdime/diff_format.schema.json')
    oneof = sorted(r['$ref'].rsplit('_', 1)[1] for r in sch['definitions']['diff']['oneOf'])
    ok = sorted(set(seq) | set(mp)) == oneof
    ctx.inst('R02.2', 'nbdime.diff_format', 'builder ops %s vs schema %s' % (sorted(set(seq) | set(mp)), oneof), ok, 'same vocabulary' if ok else 'builders and schema differ', None)
    doc = repo.text('docs/source/diffing.rst')
    documented = sorted(op for op in consts.values() if ('"%s"' % op) in doc or ("'%s'" % op) in doc or ('``%s``' % op) in doc or (' %s ' % op) in doc or ('*%s*' % op) in doc)
    ok = documented == sorted(consts.values())
    ctx.inst('R02.2', 'docs/source/diffing.rst', 'documented ops %s' % documented, ok, 'every op is documented' if ok else
             'ops %s are emitted but not documented' % sorted(set(consts.values()) - set(documented)), None)
    consumers = [('nbdime.patching:patch_list', seq, 'op'), ('nbdime.patching:patch_dict', mp, 'op'),
                 ('nbdime.diff_utils:flatten_list_of_string_diff', seq, 'op'), ('nbdime.diff_utils:count_consumed_symbols', seq, 'op')]
    for fid, want, var in consumers:
        fn = repo.func(fid)
        handled = set()
        raising_else = False
        for n in walk_no_nested(fn):
            if isinstance(n, ast.If):
                arms, orelse = if_chain(n)
                for test, body, node in arms:
                    if isinstance(test, ast.Compare) and isinstance(test.ops[0], ast.Eq) and dotted(test.comparators[0]) in consts:
                        if not (body and isinstance(body[-1], ast.Raise)):
                            handled.add(consts[dotted(test.comparators[0])])
                if orelse and isinstance(orelse[-1], ast.Raise):
                    raising_else = True
                # non-raising else handles "the other ops"
                if orelse and not isinstance(orelse[-1], ast.Raise) and any(isinstance(t, ast.Compare) and dotted(t.comparators[0]) in consts for t, b, nd in arms):
                    handled |= set(want)
        ok = set(want) <= handled
        ctx.inst('R02.2', fid, 'arms %s vs needed %s' % (sorted(handled), sorted(want)), ok,
                 'every op a differ can put into this container kind is consumed' if ok else
                 'no arm for %s: a diff the differ can produce is rejected or mis-applied' % sorted(set(want) - handled), fn)

    # ---------------------------------------------------------------- R02.3 (generic producers; the notebook ones are under C11)
    from .c11 import _ok_result
    producers = ['nbdime.diffing.generic:diff_lists', 'nbdime.diffing.generic:diff_dicts', 'nbdime.diffing.generic:diff_sequence_multilevel',
                 'nbdime.diffing.lcs:diff_from_lcs', 'nbdime.diffing.snakes:compute_diff_from_snakes', 'nbdime.diffing.seq_difflib:opcodes_to_diff',
                 'nbdime.diffing.seq_bruteforce:diff_sequence_bruteforce', 'nbdime.diffing.seq_difflib:diff_sequence_difflib',
                 'nbdime.diffing.sequences:diff_strings_linewise', 'nbdime.diffing.sequences:diff_strings_by_char', 'nbdime.diffing.sequences:diff_sequence']
    differset = set(f for f in repo.functions if f.startswith('nbdime.diffing.'))
    for fid in producers:
        fn = repo.func(fid)
        defs = local_defs(fn)
        rets = [n for n in walk_no_nested(fn) if isinstance(n, ast.Return) and n.value is not None]
        bad = [r for r in rets if not _ok_result(repo, cg, fn, r.value, defs, differset, set())]
        ctx.inst('R02.3', fid, '%d return(s)' % len(rets), not bad, 'builder result / [] / another differ' if not bad else
                 'returns a hand-assembled diff: %s' % repo.norm(bad[0]), bad[0] if bad else fn)

    # ---------------------------------------------------------------- R02.4
    sibs = ['nbdime.diffing.lcs:diff_from_lcs', 'nbdime.diffing.snakes:compute_diff_from_snakes', 'nbdime.diffing.seq_difflib:opcodes_to_diff']
    for fid in sibs:
        fn = repo.func(fid)
        ps = param_names(fn)
        second = ps[1]
        defs = local_defs(fn)
        rem = [c for c in calls_in(fn, nested=False) if isinstance(c.func, ast.Attribute) and c.func.attr == 'removerange']
        add = [c for c in calls_in(fn, nested=False) if isinstance(c.func, ast.Attribute) and c.func.attr == 'addrange']
        if not rem or not add:
            raise AnalysisError('%s: removerange/addrange emitters not found' % fid)
        for c in add:
            key = ast.unparse(c.args[0])
            sl = c.args[1]
            ok = isinstance(sl, ast.Subscript) and isinstance(sl.slice, ast.Slice) and dotted(sl.value) == second
            ctx.inst('R02.4', fid, repo.norm(c), ok, 'inserted values are a slice of the second sequence' if ok else
                     'inserted values do not come from the second sequence %r' % second, c)
        for c in rem:
            key = ast.unparse(c.args[0])
            ln = c.args[1]
            exprs = [ln]
            if isinstance(ln, ast.Name):
                exprs = [v for v, k, s in defs.get(ln.id, [])]
            ok = bool(exprs) and all(isinstance(e, ast.BinOp) and isinstance(e.op, ast.Sub) and ast.unparse(e.right) == key for e in exprs)
            ctx.inst('R02.4', fid, repo.norm(c), ok, 'length = <next index> - <key>' if ok else
                     'removerange length is not measured from its own key', c)
        # pairing: in each block that holds both, the keys agree
        for blk in _blocks(fn):
            rk = [ast.unparse(c.args[0]) for st in blk for c in calls_in(st) if c in rem and repo.stmt_of(c) in _flat(blk)]
            ak = [ast.unparse(c.args[0]) for st in blk for c in calls_in(st) if c in add and repo.stmt_of(c) in _flat(blk)]
            if rk and ak:
                ok = set(rk) == set(ak) and len(set(rk)) == 1
                ctx.inst('R02.4', fid, 'gap: removerange(%s, ..) + addrange(%s, ..)' % (rk[0], ak[0]), ok,
                         'both ops of one gap use the same key (so addrange sorts before removerange)' if ok else
                         'the two ops of one gap use different keys', blk[0])


def _is_eq_helper(fn):
    """two-parameter function whose last return contains `<p0> == <p1>` at top level / in an `and`."""
    ps = param_names(fn)
    if len(ps) != 2:
        return False
    rets = [n for n in walk_no_nested(fn) if isinstance(n, ast.Return) and n.value is not None]
    if not rets:
        return False
    v = rets[-1].value
    parts = v.values if isinstance(v, ast.BoolOp) and isinstance(v.op, ast.And) else [v]
    return any(isinstance(p, ast.Compare) and len(p.ops) == 1 and isinstance(p.ops[0], ast.Eq) and
               {dotted(p.left), dotted(p.comparators[0])} == set(ps) for p in parts) and len(fn.body) <= 8


def _discriminates_types(repo, cg, fn):
    rets = [n for n in walk_no_nested(fn) if isinstance(n, ast.Return) and n.value is not None]
    v = rets[-1].value
    if not (isinstance(v, ast.BoolOp) and isinstance(v.op, ast.And)):
        return False
    ps = param_names(fn)
    for p in v.values:
        if isinstance(p, ast.Compare) and isinstance(p.ops[0], (ast.Is, ast.Eq)) and not (
                {dotted(p.left), dotted(p.comparators[0])} == set(ps)):
            sides = [p.left, p.comparators[0]]
            if all(isinstance(x, ast.Call) and len(x.args) == 1 and dotted(x.args[0]) in ps for x in sides) and \
                    {dotted(x.args[0]) for x in sides} == set(ps):
                # type(x) is type(y)  or  helper(x) is helper(y) where helper distinguishes bool/int/float
                f = dotted(sides[0].func)
                if f == 'type':
                    return True
                for t in cg.resolve(sides[0].func, fn):
                    if t[0] == 'func':
                        hf = repo.functions[t[1]]
                        txt = ast.unparse(hf)
                        if 'type(' in txt and 'bool' in txt and 'int' in txt and 'float' in txt:
                            return True
    return False


def _registered_paths(repo, fid):
    """Paths under which a differ function is registered in notebook_differs."""
    v = repo.module_assign('nbdime.diffing.notebooks', 'notebook_differs')
    out = set()
    name = fid.split(':')[1]
    for n in ast.walk(v):
        if isinstance(n, ast.Dict):
            for k, val in zip(n.keys, n.values):
                if dotted(val) == name:
                    out.add(const_val(k))
    return out


def _flat(blk):
    out = []
    for st in blk:
        out.append(st)
        if isinstance(st, ast.If):
            out.extend(_flat(st.body))
            out.extend(_flat(st.orelse))
    return out


def _blocks(fn):
    """Statement lists that directly contain (possibly if-guarded) emit statements: loop bodies, function body, if arms with both."""
    out = []
    for n in walk_no_nested(fn):
        for f in ('body', 'orelse'):
            b = getattr(n, f, None)
            if isinstance(b, list) and b and isinstance(n, (ast.For, ast.While, ast.FunctionDef, ast.If)):
                out.append(b)
    # keep innermost blocks that contain both kinds: prefer if-arm bodies over enclosing loop when both present in the arm
    return out



def tables_do_not_insert_on_lookup(ctx, rule):
    """diff_dicts asks `subpath in config.differs` / `(path or '/') in config.predicates` ("was something configured for exactly
    this path?").  That question has a stable answer only if LOOKING a path up never stores it: a table that inserts on a miss
    (collections.defaultdict, or a subclass whose __missing__ stores) makes the second visit of a path within one diff() call
    look configured -- the differ is then applied to scalars and diff() raises, even for diff(a, a)."""
    from .. import facts
    repo, cg = ctx.repo, ctx.cg
    sites = []
    for fname in ('default_predicates', 'default_differs'):
        fn = repo.func('nbdime.diffing.generic:' + fname)
        for r in walk_no_nested(fn):
            if isinstance(r, ast.Return) and isinstance(r.value, ast.Call):
                sites.append(('nbdime.diffing.generic:' + fname, r.value))
    G = facts.module_globals(repo, cg)
    for (mod, name), info in sorted(G.items()):
        if mod == 'nbdime.diffing.notebooks' and name in ('notebook_predicates', 'notebook_differs'):
            sites.append(('%s.%s' % (mod, name), info['node']))
    if len(sites) < 4:
        raise AnalysisError('predicate/differ tables not found (%d)' % len(sites))
    for where, call in sites:
        ctor = (dotted(call.func) or '').split('.')[-1]
        ai, why = facts.auto_inserting(repo, cg, {'ctor': ctor, 'node': call})
        ctx.inst(rule, where, '%s(...)' % ctor, not ai,
                 'lookups leave the table unchanged (%s)' % why if not ai else
                 'this table stores a key whenever it is looked up (%s): `path in table` then depends on which paths were visited before, and a path visited twice '
                 'in one diff() call is treated as explicitly configured' % why, call)

def run(ctx):
    ctx.rule('R02.11', 'where equal items are trimmed from both ends before aligning, the tail scan is bounded by the head count (no overlap)', floor=1)
    ctx.rule('R02.10', 'the predicate/differ tables consulted by membership never insert on lookup', floor=4)
    ctx.rule('R02.9', 'fields read from a diff entry exist for every op that the surrounding op tests still allow (field table from the op_* constructors)', floor=8)
    ctx.rule('R02.8', 'name binding: every global name a function refers to is bound at module level or builtin, and every local is assigned on every path before it is read', floor=6)
    ctx.rule('R02.7', 'every exactly resolved call binds against its callee\'s signature (no missing/unknown/surplus argument on any arm)', floor=4)
    _run_base(ctx)
    from ..signatures import call_compat
    call_compat(ctx, 'R02.7', ['nbdime.diffing.generic', 'nbdime.diffing.seq', 'nbdime.diffing.sequences', 'nbdime.diffing.snakes', 'nbdime.diffing.lcs', 'nbdime.patching', 'nbdime.diff_utils', 'nbdime.diff_format'] if ctx.tier == 'quick' else ['nbdime.'], 'the generic diff/patch aborts for the documents that reach this arm')
    from ..names import name_binding
    name_binding(ctx, 'R02.8', ['nbdime.diffing.generic', 'nbdime.diffing.seq', 'nbdime.diffing.sequences', 'nbdime.diffing.snakes', 'nbdime.diffing.lcs', 'nbdime.patching', 'nbdime.diff_utils', 'nbdime.diff_format'] if ctx.tier == 'quick' else ['nbdime.'])
    from ..opfields import check_op_fields
    check_op_fields(ctx, 'R02.9', ['nbdime.diffing.generic', 'nbdime.diffing.seq', 'nbdime.diffing.sequences', 'nbdime.diffing.snakes', 'nbdime.diffing.lcs', 'nbdime.patching', 'nbdime.diff_utils', 'nbdime.diff_format'])
    tables_do_not_insert_on_lookup(ctx, 'R02.10')
    from ..trim import check_trims
    check_trims(ctx, 'R02.11', ['nbdime.diffing.'])


from .extra import with_extra  # noqa: E402
run = with_extra('C02', run)
