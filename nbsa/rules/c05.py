"""C05 -- identity, one-sided adoption, agreement, side symmetry: code-shape preconditions."""
import ast
import itertools

from ..core import AnalysisError, dotted, walk_no_nested, FuncTypes
from ..cfg import CFG, cond_guards
from ..util import calls_in, local_defs, const_val, if_chain, names_in, truth_under
from ..consteval import Evaluator, Abstract, AbstractEntry, UNKNOWN, reachable_arms
from .. import mergefacts as mf
from .. import mirror
from .c03 import always_failing_assert

ASSUMPTIONS = [
    'the algebraic laws themselves (merge(b,b,b)=b, one-sided adoption, symmetry of results) are behavioural and not decided; '
    'that diffs of identical inputs are empty is C01/C02',
    'decision sorting/application arithmetic and similarity-based splitting of concurrent inserts (_split_addrange, local-before-remote by design) are out of scope',
    'R05.3 compares role summaries of arms; a behaviour-preserving rewrite of ONE arm of a mirror pair into different decision calls would be reported (stated residual false-alarm surface)',
]

GEN, DEC, STR = mf.GEN, mf.DEC, mf.STR
CONFLICT_CAPABLE = {'conflict', 'tryresolve', 'custom', 'local_then_remote', 'remote_then_local', 'similar_insert',
                    'base', 'local', 'remote'}


def body_calls(body):
    out = []
    for st in body:
        for c in calls_in(st):
            if isinstance(c.func, ast.Attribute):
                out.append(c.func.attr)
            elif isinstance(c.func, ast.Name):
                out.append(c.func.id)
    return out


def strategy_names(body):
    out = set()
    for st in body:
        for n in ast.walk(st):
            if isinstance(n, ast.Name) and ('strateg' in n.id or 'transient' in n.id):
                out.add(n.id)
    return out


def _run_base(ctx):
    repo, cg = ctx.repo, ctx.cg
    ctx.rule('R05.1', 'non-conflict arms (untouched, one-sided, identical) are the first arms any such chunk/op pair can reach and are strategy-free; '
             'onesided/agreement create unconflicted decisions', floor=20)
    ctx.rule('R05.2', 'strategies only ever touch conflicted decisions: entry guards has_conflicted(), per-decision stores under d.conflict', floor=10)
    mirror.find_membership_params(repo)
    ctx.rule('R05.4', 'adjacent assignments to a local/remote pair of names are mirror images of each other (no side reads the other side\'s data)', floor=30)
    ctx.rule('R05.3', 'local/remote mirror symmetry: every arm of the merger dispatch chains is self-mirror or has a mirror arm in the same chain', floor=35, floor_what='top-level arms of 8 chains')

    consts = mf.diffop_consts(repo)
    letters = mf.chunk_letters(repo)
    seq_ops = mf.builder_ops(repo, 'SequenceDiffBuilder')
    map_ops = mf.builder_ops(repo, 'MappingDiffBuilder')
    letter_ops = {l: op for op, (w, l) in letters.items() if op in seq_ops}

    # ---------------------------------------------------------------- R05.1 lists
    ml = repo.func(GEN + ':_merge_lists')
    loop = [n for n in walk_no_nested(ml) if isinstance(n, ast.For) and isinstance(n.target, ast.Tuple) and len(n.target.elts) == 4]
    if len(loop) != 1:
        raise AnalysisError('_merge_lists: chunk loop not found')
    loop = loop[0]
    d_local, d_remote = loop.target.elts[2].id, loop.target.elts[3].id
    unpack = {}
    for st in loop.body:
        if isinstance(st, ast.Assign) and isinstance(st.targets[0], ast.Tuple) and isinstance(st.value, ast.Call) and \
                ('func', 'nbdime.merging.chunks:chunk_typename') in cg.resolve(st.value.func, ml):
            unpack[dotted(st.value.args[0])] = [e.id for e in st.targets[0].elts]
    bigif = max([s for s in loop.body if isinstance(s, ast.If)], key=lambda s: len(if_chain(s)[0]))
    arms, orelse = if_chain(bigif)
    pre = loop.body[:loop.body.index(bigif)]
    for la, lp, ra, rp in itertools.product(['', 'A'], ['', 'P', 'R'], ['', 'A'], ['', 'P', 'R']):
        env = {unpack[d_local][0]: la, unpack[d_local][1]: lp, unpack[d_remote][0]: ra, unpack[d_remote][1]: rp,
               d_local: Abstract(la + lp, letter_ops), d_remote: Abstract(ra + rp, letter_ops)}
        ev = Evaluator(env, consts)
        for st in pre:
            if isinstance(st, ast.Assign) and len(st.targets) == 1 and isinstance(st.targets[0], ast.Name) and \
                    not isinstance(st.value, ast.ListComp):
                ev.env[st.targets[0].id] = ev.ev(st.value)
        reach = reachable_arms(ev, bigif)
        ln, rn = la + lp, ra + rp
        ct = '%s/%s' % (ln, rn)
        first_idx, first_body = reach[0]
        calls = body_calls(first_body)
        if not ln and not rn:
            ok = len(reach) == 1 and not calls
            ctx.inst('R05.1', GEN + ':_merge_lists', 'chunktype %r (untouched) -> arm %s' % (ct, first_idx), ok,
                     'an untouched chunk produces no decision' if ok else 'an untouched chunk reaches code that makes decisions', bigif)
        elif not ln or not rn:
            sn = strategy_names(first_body)
            ok = len(reach) == 1 and set(calls) == {'onesided'} and not sn
            ctx.inst('R05.1', GEN + ':_merge_lists', 'chunktype %r (one-sided) -> arm %s calls %s' % (ct, first_idx, sorted(set(calls))), ok,
                     'a one-sided change is adopted verbatim by decisions.onesided, independent of any strategy' if ok else
                     ('one-sided chunk consults %s' % sorted(sn) if sn else 'one-sided chunk does not go (only) to decisions.onesided'),
                     first_body[0] if first_body else bigif)
        elif ln == rn:
            sn = strategy_names(first_body)
            t0 = arms[first_idx][0]
            if isinstance(t0, ast.Compare) and len(t0.ops) == 1 and isinstance(t0.ops[0], ast.Eq):
                eq_ops = {dotted(t0.left), dotted(t0.comparators[0])}
            elif isinstance(t0, ast.Call) and isinstance(t0.func, ast.Name) and t0.func.id in mirror.EQUALITY_HELPERS and len(t0.args) == 2:
                eq_ops = {dotted(t0.args[0]), dotted(t0.args[1])}
            else:
                eq_ops = set()
            ok = set(calls) == {'agreement'} and not sn and ev.truth(ev.ev(t0)) is UNKNOWN and eq_ops == {d_local, d_remote}
            ctx.inst('R05.1', GEN + ':_merge_lists', 'chunktype %r (same ops both sides) -> first reachable arm %s calls %s' % (ct, first_idx, sorted(set(calls))), ok,
                     'identical two-sided changes are tested (d0 == d1 -> agreement) before any conflict-capable arm' if ok else
                     'a conflict-capable arm can run before the identical-change test', first_body[0] if first_body else bigif)
    # ---------------------------------------------------------------- R05.1 dicts
    md = repo.func(GEN + ':_merge_dicts')
    xor_loops = [n for n in walk_no_nested(md) if isinstance(n, ast.For) and
                 any(isinstance(x, ast.BinOp) and isinstance(x.op, ast.BitXor) for x in ast.walk(n.iter))]
    if len(xor_loops) != 1:
        raise AnalysisError('_merge_dicts: one-sided key loop (bldkeys ^ brdkeys) not found')
    calls = body_calls(xor_loops[0].body)
    sn = strategy_names(xor_loops[0].body)
    ok = set(calls) <= {'onesided', 'get'} and 'onesided' in calls and not sn
    ctx.inst('R05.1', GEN + ':_merge_dicts', 'for key in (local keys ^ remote keys): %s' % sorted(set(calls)), ok,
             'keys changed on one side only are adopted by decisions.onesided, strategy-free' if ok else
             'one-sided dict changes do not go (only) to decisions.onesided', xor_loops[0])
    chain = None
    for n in walk_no_nested(md):
        if isinstance(n, ast.If) and 'parent_deleted' in [c.value for c in ast.walk(n.test) if isinstance(c, ast.Constant)]:
            chain = n
            break
    if chain is None:
        raise AnalysisError('_merge_dicts chain not found')
    darms, _ = if_chain(chain)
    lname = dotted(darms[0][0].left.value)
    rname = dotted(darms[1][0].left.value)
    for op in map_ops:
        ev = Evaluator({lname: AbstractEntry(op), rname: AbstractEntry(op)}, consts)
        reach = reachable_arms(ev, chain)
        idx, body = reach[0]
        # descend into a definitely-taken nested chain (remove/remove)
        inner = [s for s in body if isinstance(s, ast.If)]
        if ev.truth(ev.ev(darms[idx][0])) is True and inner:
            r2 = reachable_arms(ev, inner[0])
            body = r2[0][1]
            definite = ev.truth(ev.ev(if_chain(inner[0])[0][r2[0][0]][0])) is True if r2[0][0] != 'else' else False
        else:
            definite = False
        calls = body_calls(body)
        ok = set(calls) == {'agreement'} and not strategy_names(body)
        ctx.inst('R05.1', GEN + ':_merge_dicts', 'ops (%s, %s): first reachable arm %s calls %s' % (op, op, idx, sorted(set(calls))), ok,
                 ('agreed removal needs no comparison' if definite else 'equal entries are tested (ld == rd -> agreement) before any conflict-capable arm') if ok else
                 'a conflict-capable arm precedes the agreement test for identical %s entries' % op, body[0] if body else chain)
    # builder methods
    for meth, actions in (('onesided', {'local', 'remote'}), ('agreement', {'either'})):
        fn = repo.func('%s:MergeDecisionBuilder.%s' % (DEC, meth))
        a = fn.args
        pos = a.args
        dflt = dict(zip([p.arg for p in pos[len(pos) - len(a.defaults):]], a.defaults))
        d = dflt.get('conflict')
        em = mf.emitted_actions(repo, cg)
        acts = {act for act, sites in em.items() for w, n in sites if w == '%s:MergeDecisionBuilder.%s' % (DEC, meth)}
        ok = isinstance(d, ast.Constant) and d.value is False and acts == actions
        ctx.inst('R05.1', '%s:MergeDecisionBuilder.%s' % (DEC, meth), 'conflict=%s, actions %s' % (ast.unparse(d) if d is not None else '?', sorted(acts)), ok,
                 'creates an unconflicted decision taking the changed side' if ok else
                 'non-conflict decision kind defaults to conflicted or takes another action', fn)
    # callers in the non-conflict arms never pass conflict=
    for fnid in (GEN + ':_merge_lists', GEN + ':_merge_dicts', GEN + ':_split_addrange', GEN + ':_merge_concurrent_inserts'):
        fn = repo.func(fnid)
        for c in calls_in(fn, nested=False):
            if isinstance(c.func, ast.Attribute) and c.func.attr in ('onesided', 'agreement'):
                bad = [k for k in c.keywords if k.arg == 'conflict'] or len(c.args) > 3
                ctx.inst('R05.1', fnid, repo.norm(c), not bad, 'unconflicted by default' if not bad else
                         'a one-sided/agreed decision is explicitly given a conflict flag', c)

    # ---------------------------------------------------------------- R05.2
    entry = [STR + ':resolve_strategy_generic', STR + ':resolve_conflicted_decisions_list',
             STR + ':resolve_conflicted_decisions_dict', STR + ':resolve_conflicted_decisions_strings']
    def _nodoc(fn):
        return [s for s in fn.body if not (isinstance(s, ast.Expr) and isinstance(s.value, ast.Constant))]

    def _own_guard(fn):
        first = _nodoc(fn)[0]
        return isinstance(first, ast.If) and len(first.body) == 1 and isinstance(first.body[0], ast.Return) and \
            truth_under(first.test, False, lambda e: isinstance(e, ast.Call) and isinstance(e.func, ast.Attribute) and e.func.attr == 'has_conflicted') is True

    def _guarded(fid, depth=0):
        """the function has the entry guard itself, or does nothing but hand its arguments to one that has"""
        fn = repo.functions[fid]
        if _own_guard(fn):
            return fid
        body = _nodoc(fn)
        if depth < 2 and len(body) == 1 and isinstance(body[0], (ast.Expr, ast.Return)) and isinstance(body[0].value, ast.Call):
            for kind, tgt in cg.resolve(body[0].value.func, fn):
                if kind == 'func' and tgt in repo.functions:
                    return _guarded(tgt, depth + 1)
        return None

    for fid in entry:
        fn = repo.func(fid)
        first = _nodoc(fn)[0]
        via = _guarded(fid)
        ok = via is not None
        ctx.inst('R05.2', fid, (repo.norm(first.test) if isinstance(first, ast.If) else '<no entry guard>') if via in (None, fid) else
                 'delegates to %s' % via.split(':')[1], ok,
                 'returns immediately unless some decision is conflicted' if ok else
                 'strategy resolution runs even when nothing is conflicted (clean merges are rewritten)', first)
    helpers = [f for f in repo.functions if f.startswith(STR + ':resolve_strategy_') and f not in entry
               and f != STR + ':resolve_strategy_inline_source']
    smod = repo.mod(STR)
    for h in sorted(helpers):
        callers = set(cg.callers(h))
        # dispatch through a module-level table: every function that reads the table counts as a caller
        hname = h.split(':')[1]
        tables = {nm for nm, vals in smod.assigns.items() if any(isinstance(x, ast.Name) and x.id == hname for v in vals for x in ast.walk(v))}
        for fid2, fn2 in repo.functions.items():
            if fid2.startswith(STR + ':') and any(isinstance(x, ast.Name) and x.id in tables and isinstance(x.ctx, ast.Load) for x in ast.walk(fn2)):
                callers.add(fid2)
        ok = bool(callers) and all(c in entry or _guarded(c) for c in callers)
        ctx.inst('R05.2', h, 'called only from %s' % sorted(c.split(':')[1] for c in callers), ok,
                 'reached only behind an entry guard' if ok else 'a decision-rewriting helper is called without the has_conflicted() guard', repo.functions[h])
    # per-decision stores under d.conflict
    for fid, fn in sorted(repo.functions.items()):
        if not fid.startswith(STR + ':'):
            continue
        g = None
        for n in walk_no_nested(fn):
            if isinstance(n, ast.Assign) and isinstance(n.targets[0], ast.Attribute) and n.targets[0].attr in ('action', 'conflict') \
                    and isinstance(n.targets[0].value, ast.Name):
                var = n.targets[0].value.id
                g = g or CFG(fn)
                guards = cond_guards(g, n)
                ok = any(truth_under(t, pol, lambda e: isinstance(e, ast.Attribute) and e.attr == 'conflict' and dotted(e.value) == var) is True
                         for t, pol in guards)
                ctx.inst('R05.2', fid, repo.norm(n), ok, 'store guarded by %s.conflict' % var if ok else
                         'an unconflicted decision can be relabelled by a strategy', n)

    # ---------------------------------------------------------------- R05.3
    current = {'fn': None}

    def swap_positions(call):
        """(i, j) positions of the mirrored parameter pair of the package callee(s) of this call."""
        fn = current['fn']
        targets = [t[1] for t in cg.resolve(call.func, fn) if t[0] == 'func']
        if not targets and isinstance(call.func, ast.Attribute):
            targets = list(cg.res.methods_by_name.get(call.func.attr, ()))
        best = None
        for fid in targets:
            f2 = repo.functions[fid]
            pos = [a.arg for a in f2.args.posonlyargs + f2.args.args]
            if isinstance(repo.parent(f2), ast.ClassDef) and isinstance(call.func, ast.Attribute):
                pos = pos[1:]
            for i, p in enumerate(pos):
                m = mirror.mirror_name(p)
                if m in pos[i + 1:]:
                    if best is None:
                        best = (i, pos.index(m))
                    break
        return best

    chains = [
        (GEN + ':_merge_dicts', lambda fn: chain),
        (GEN + ':_merge_lists', lambda fn: bigif),
        (STR + ':resolve_strategy_inline_source', None),
        (STR + ':resolve_strategy_inline_attachments', None),
        (DEC + ':MergeDecisionBuilder.tryresolve', None),
        (DEC + ':MergeDecisionBuilder.onesided', None),
        ('nbdime.prettyprint:builtin_merge_render', None),
        ('nbdime.prettyprint:merge_render_with_git', None),
        ('nbdime.prettyprint:merge_render_with_diff3', None),
    ]
    for fid, pick in chains:
        fn = repo.func(fid)
        if pick is not None:
            tops = [pick(fn)]
        else:
            tops = [s for s in walk_no_nested(fn) if isinstance(s, ast.If) and not isinstance(repo.parent(s), ast.If)
                    and any(mirror.mirror_name(n.id) or False for n in ast.walk(s) if isinstance(n, ast.Name)) or
                    (isinstance(s, ast.If) and not isinstance(repo.parent(s), ast.If) and
                     any(isinstance(c, ast.Constant) and isinstance(c.value, str) and mirror.swap_const(c.value) != c.value for c in ast.walk(s)))]
            tops = [s for s in tops if repo.func_of(s) is fn]

        def report(ok, arm, detail, node, fid=fid):
            if "'union'" in arm:
                # named exemption (property text): at a two-sided insertion local is placed before remote by design
                ctx.inst('R05.3', fid, 'arm: if %s' % arm[:140], True, 'union is local-before-remote by design (exempt)', node, nontrivial=False)
                return
            ctx.inst('R05.3', fid, 'arm: if %s' % arm[:140], ok,
                     'self-mirror or mirrored by a sibling arm' if ok else
                     'no arm treats the other side the same way (%s)' % detail[:260], node)
        current['fn'] = fn
        for top in tops:
            mirror.check_chain(top, fn, swap_positions, report)

    # ---------------------------------------------------------------- R05.4 mirrored statement pairs
    mirror_statement_pairs(ctx, 'R05.4')


ROLE_PKGS = ('nbdime.merging.', 'nbdime.prettyprint', 'nbdime.nbmergeapp', 'nbdime.webapp.')
PAIR_EXEMPT = {
    GEN + ':_split_addrange': 'places local before remote at a two-sided insertion by design (the exclusion in the property text)',
    GEN + ':__unused__wrap_subconflicts': 'dead code (named unused)',
}


class _PairSigma(ast.NodeTransformer):
    """sigma for one statement: role names, role attributes and role constants are swapped."""

    def __init__(self, names):
        self.names = names

    def visit_Name(self, n):
        m = mirror.mirror_name(n.id)
        return ast.Name(id=m if (m and m in self.names) else n.id, ctx=n.ctx)

    def visit_Attribute(self, n):
        self.generic_visit(n)
        if 'local' in n.attr or 'remote' in n.attr:
            n.attr = mirror.mirror_name(n.attr)
        return n

    def visit_Constant(self, n):
        if isinstance(n.value, str):
            return ast.Constant(value=mirror.swap_const(n.value))
        return n


def _role_bearing(expr, names):
    for n in ast.walk(expr):
        if isinstance(n, ast.Name):
            m = mirror.mirror_name(n.id)
            if m and m in names and ('local' in n.id or 'remote' in n.id or n.id[0] in 'lr' or n.id[-1] in '01'):
                return True
        if isinstance(n, ast.Attribute) and ('local' in n.attr or 'remote' in n.attr):
            return True
        if isinstance(n, ast.Constant) and isinstance(n.value, str) and mirror.swap_const(n.value) != n.value:
            return True
    return False


def _alpha_equal(a, b, free):
    """Structural equality of two expressions modulo a consistent, injective renaming of the names in `free`
    (cursor variables that come in unrelated pairs, e.g. i / j)."""
    fwd, bwd = {}, {}

    def eq(x, y):
        if type(x) is not type(y):
            return False
        if isinstance(x, ast.Name):
            if x.id == y.id:
                return fwd.setdefault(x.id, y.id) == y.id and bwd.setdefault(y.id, x.id) == x.id
            if x.id in free and y.id in free:
                return fwd.setdefault(x.id, y.id) == y.id and bwd.setdefault(y.id, x.id) == x.id
            return False
        if isinstance(x, ast.AST):
            for f in x._fields:
                if f == 'ctx':
                    continue
                if not eq(getattr(x, f, None), getattr(y, f, None)):
                    return False
            return True
        if isinstance(x, list):
            return len(x) == len(y) and all(eq(p, q) for p, q in zip(x, y))
        return x == y
    return eq(a, b)


def mirror_statement_pairs(ctx, rule, only=None):
    """Adjacent assignments `X = E1 ; X' = E2` whose targets are a local/remote name pair must be mirror images:
    E2 == sigma(E1).  A slip in one of the two (reading the other side's diff, the other side's cell ...) makes the
    function treat the sides differently, which swapping the roles exposes."""
    import copy
    repo = ctx.repo
    n = 0
    for fid, fn in sorted(repo.functions.items()):
        if not fid.startswith(ROLE_PKGS) or (only is not None and fid not in only):
            continue
        names = {x.id for x in ast.walk(fn) if isinstance(x, ast.Name)} | {a.arg for a in fn.args.args + fn.args.kwonlyargs}
        free = {x for x in names if not (mirror.mirror_name(x) and mirror.mirror_name(x) in names)}
        for node in walk_no_nested(fn):
            for field in ('body', 'orelse', 'finalbody'):
                blk = getattr(node, field, None)
                if not isinstance(blk, list):
                    continue
                for s1, s2 in zip(blk, blk[1:]):
                    if not (isinstance(s1, ast.Assign) and isinstance(s2, ast.Assign) and len(s1.targets) == 1 and len(s2.targets) == 1):
                        continue
                    t1, t2 = s1.targets[0], s2.targets[0]
                    if not (isinstance(t1, ast.Name) and isinstance(t2, ast.Name) and mirror.mirror_name(t1.id) == t2.id):
                        continue
                    img = _PairSigma(names).visit(copy.deepcopy(s1.value))
                    ok = _alpha_equal(img, s2.value, free)
                    if not ok and not (_role_bearing(s1.value, names) or _role_bearing(s2.value, names)):
                        continue        # sep0/sep1, m0/m1: numbered names that are not the two sides
                    if fid in PAIR_EXEMPT:
                        ctx.inst(rule, fid, '%s || %s' % (repo.norm(s1), repo.norm(s2)), True, 'exempt: ' + PAIR_EXEMPT[fid], s1, nontrivial=False)
                        continue
                    n += 1
                    if ok:
                        # a name both statements share must not itself be computed from ONE side only
                        shared = {x.id for x in ast.walk(s1.value) if isinstance(x, ast.Name)} & {x.id for x in ast.walk(s2.value) if isinstance(x, ast.Name)} & free
                        ldefs = local_defs(fn)
                        for nm in sorted(shared):
                            ds = [v for v, k, st in ldefs.get(nm, []) if k == 'assign']
                            if len(ds) != 1 or len(ldefs.get(nm, [])) != 1:
                                continue
                            if not _role_bearing(ds[0], names):
                                continue
                            # only where the shared name indexes/slices the sided objects themselves (local[:end] / remote[:end]);
                            # an index into a common object (base[start:...]) taken from one side's diff is the same on both by construction
                            cuts_side = any(isinstance(sub, ast.Subscript) and _role_bearing(sub.value, names) and
                                            any(isinstance(x, ast.Name) and x.id == nm for x in ast.walk(sub.slice))
                                            for sv in (s1.value, s2.value) for sub in ast.walk(sv))
                            if not cuts_side:
                                continue
                            img2 = _PairSigma(names).visit(copy.deepcopy(ds[0]))
                            if not _alpha_equal(img2, ds[0], free):
                                ok = False
                                ctx.inst(rule, fid, '%s || %s  [shared %s = %s]' % (repo.norm(s1), repo.norm(s2), nm, repo.norm(ds[0])), False,
                                         'both sides are cut/indexed with `%s`, which is computed from one side only (`%s = %s`): correct when the two sides have the same '
                                         'length, wrong otherwise -- the longer side loses its extra items' % (nm, nm, ast.unparse(ds[0])[:60]), s2)
                        if not ok:
                            continue
                    ctx.inst(rule, fid, '%s || %s' % (repo.norm(s1), repo.norm(s2)), ok,
                             'the two assignments are mirror images of each other' if ok else
                             'the assignment to %s is not the local/remote mirror image of the assignment to %s (expected `%s`): the two sides are treated differently'
                             % (t2.id, t1.id, ' '.join(ast.unparse(ast.fix_missing_locations(img)).split())[:120]), s2)
    return n



def sides_compared_strictly(ctx, rule):
    """"Both sides made the same change" must be decided by an equality that tells booleans, integers and floats apart: with
    Python ==, local changing a value to 1 and remote to True is an agreement and remote's value is silently lost; since the
    differ does tell them apart, the sanity assertions comparing the two diffs with != fire for similar inserts that differ
    only in such a value."""
    repo = ctx.repo
    n = 0
    for fid, fn in sorted(repo.functions.items()):
        if not fid.startswith(('nbdime.merging.generic:', 'nbdime.merging.decisions:')) or '__unused__' in fid:
            continue
        names = {x.id for x in ast.walk(fn) if isinstance(x, ast.Name)} | {a.arg for a in fn.args.args}
        for c in walk_no_nested(fn):
            if isinstance(c, ast.Compare) and len(c.ops) == 1 and isinstance(c.ops[0], (ast.Eq, ast.NotEq)) and \
                    isinstance(c.left, ast.Name) and isinstance(c.comparators[0], ast.Name):
                a, b = c.left.id, c.comparators[0].id
                if mirror.mirror_name(a) == b and a != b:
                    if isinstance(repo.stmt_of(c), ast.Assert) and isinstance(c.ops[0], ast.Eq):
                        continue        # `assert l == r`: a loose comparison only makes the sanity check weaker, it cannot abort or drop anything
                    n += 1
                    ctx.inst(rule, fid, repo.norm(c), False,
                             'the two sides are compared with Python %s: 1, 1.0 and True count as the same change -- an agreement is recorded and one side\'s value lost, '
                             'or (in an assertion) a legitimate conflict between type-different values aborts the merge' % ('==' if isinstance(c.ops[0], ast.Eq) else '!='), c)
        for c in calls_in(fn, nested=False):
            if isinstance(c.func, ast.Name) and c.func.id in ('strict_equal',) and len(c.args) == 2 and all(isinstance(a, ast.Name) for a in c.args) and \
                    mirror.mirror_name(c.args[0].id) == c.args[1].id:
                n += 1
                ctx.inst(rule, fid, repo.norm(c), True, 'type-strict deep comparison of the two sides', c)
    if n < 4:
        raise AnalysisError('fewer comparisons between the two sides than expected in the mergers (%d)' % n)

def run(ctx):
    ctx.rule('R05.6', 'agreement between the two sides is decided by a type-strict comparison (no Python ==/!= between a local/remote pair of diffs or values)', floor=4)
    ctx.rule('R05.5', 'diffs concatenated in role order (local_then_remote) are re-sorted by key before they are applied (C09 R09.8): otherwise which side is called local decides the text', floor=2)
    _run_base(ctx)
    from . import c09
    from ..report import run_sub
    run_sub(ctx, c09, {'R09.8': 'R05.5'})
    sides_compared_strictly(ctx, 'R05.6')


from .extra import with_extra  # noqa: E402
run = with_extra('C05', run)
