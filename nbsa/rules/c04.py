"""C04 -- a merged notebook validates against its declared format: what the merge code itself constructs is schema-typed."""
import ast

from ..core import AnalysisError, dotted, walk_no_nested, find_pkg_file
from ..cfg import CFG, cond_guards
from ..util import calls_in, local_defs, depends_on, const_val, if_chain, names_in, truth_under, param_names
from ..schema import NbSchema, load_nbformat_schema
from .. import mergefacts as mf

ASSUMPTIONS = [
    'validity of values that come from the (valid) inputs is assumed; jsonschema validity of a concrete merged notebook is run-time data and not decided',
    'metadata conflict records and renamed attachments are free-form objects / input mime bundles by schema; their inner validity is not decided',
    'nbformat constructors and schemas are read from the installed nbformat as data',
]

STR = mf.STR
DEC = mf.DEC
SCALAR_JSON = {'string', 'integer', 'number', 'boolean', 'null'}


def expr_kind(repo, cg, fn, e, key_var=None):
    """JSON kind of a constructed value: 'object' | 'array' | 'string' | 'null' | 'from-input' | None (unknown)."""
    if isinstance(e, ast.Dict):
        return 'object'
    if isinstance(e, (ast.List, ast.ListComp)):
        return 'array'
    if isinstance(e, ast.Constant):
        if e.value is None:
            return 'null'
        if isinstance(e.value, str):
            return 'string'
        if isinstance(e.value, bool):
            return 'boolean'
        if isinstance(e.value, int):
            return 'integer'
        return None
    if isinstance(e, ast.Subscript):
        if isinstance(e.value, ast.Call) and any(t == ('func', 'nbdime.prettyprint:merge_render') for t in cg.resolve(e.value.func, fn)) \
                and const_val(e.slice) == 0:
            return 'string'
        if key_var is not None and dotted(e.slice) == key_var and isinstance(e.value, ast.Name):
            return 'from-input'
    if isinstance(e, ast.JoinedStr):
        return 'string'
    if isinstance(e, ast.IfExp):
        kinds = {expr_kind(repo, cg, fn, e.body, key_var), expr_kind(repo, cg, fn, e.orelse, key_var)}
        if len(kinds) == 1:
            return kinds.pop()
    if isinstance(e, ast.Name):
        # a local built up in place: its kind is the kind of its (single-kind) initialisations
        kinds = {expr_kind(repo, cg, fn, v, key_var) for v, k, s in local_defs(fn).get(e.id, []) if k == 'assign'}
        if len(kinds) == 1:
            return kinds.pop()
    return None


def _run_base(ctx):
    repo, cg = ctx.repo, ctx.cg
    ctx.rule('R04.1', 'schema-typed construction: every value the merge code builds and stores under a notebook field has a JSON kind the nbformat schema allows there', floor=8)
    ctx.rule('R04.2', 'version-aware construction: cells created with nbformat constructors (which always add an id) are stripped of the id unless the notebook\'s cells carry ids', floor=4)
    ctx.rule('R04.4', 'the declared format version of a merge is the maximum over base, local and remote: take_max reads each side\'s own value', floor=2)
    ctx.rule('R04.3', 'the merged result is converted with nbformat.from_dict on the only exit of apply_decisions', floor=1)

    sch = NbSchema(5)
    # ---------------------------------------------------------------- R04.1
    fid = STR + ':resolve_strategy_inline_recurse'
    fn = repo.func(fid)
    g = CFG(fn)
    # the merged cell: the local initialised with an empty dict literal that receives keyed stores (name independent)
    empties = {t.id for n in walk_no_nested(fn) if isinstance(n, ast.Assign) and isinstance(n.value, ast.Dict) and not n.value.keys
               for t in n.targets if isinstance(t, ast.Name)}
    # ... and that is inserted as the one new cell: op_addrange(<key>, [<cell>])
    cellvars = {e.id for c in calls_in(fn, nested=False) if dotted(c.func) == 'op_addrange' and len(c.args) == 2 and isinstance(c.args[1], ast.List)
                for e in c.args[1].elts if isinstance(e, ast.Name) and e.id in empties}
    stores = [n for n in walk_no_nested(fn) if isinstance(n, ast.Assign) and isinstance(n.targets[0], ast.Subscript)
              and dotted(n.targets[0].value) in cellvars]
    if len(stores) < 5:
        raise AnalysisError('resolve_strategy_inline_recurse: keyed stores into the merged cell not found')
    for st in stores:
        keyv = dotted(st.targets[0].slice)
        field = None
        for t, pol in cond_guards(g, st):
            if pol and isinstance(t, ast.Compare) and isinstance(t.ops[0], ast.Eq) and dotted(t.left) == keyv and isinstance(const_val(t.comparators[0]), str):
                field = const_val(t.comparators[0])
        kind = expr_kind(repo, cg, fn, st.value, keyv)
        if field is None:
            ok = kind == 'from-input'
            ctx.inst('R04.1', fid, repo.norm(st), ok, 'copies the value of the same key from an input cell' if ok else
                     'a constructed value is stored under a key that is not fixed by a guard', st)
            continue
        allowed = sch.types_at('/cells/*/' + field)
        ok = kind == 'from-input' or (kind in allowed)
        ctx.inst('R04.1', fid, 'cell[%r] = %s  (kind %s; schema allows %s)' % (field, repo.norm(st.value)[:60], kind, sorted(allowed)), ok,
                 'schema-typed' if ok else 'the merged cell gets a %s under %r where the schema requires %s: the merged notebook fails validation' % (
                     kind or 'value of unknown kind', field, sorted(allowed)), st)
    # make_cleared_value
    mc = repo.func(DEC + ':make_cleared_value')
    top = [s for s in mc.body if isinstance(s, ast.If)]
    if not top:
        raise AnalysisError('make_cleared_value: no type dispatch')
    arms, orelse = if_chain(top[0])
    want = {'list': 'array', 'dict': 'object', 'str': 'string'}
    for test, body, node in arms:
        if isinstance(test, ast.Call) and dotted(test.func) == 'isinstance':
            ty = dotted(test.args[1])
            r = body[-1]
            k = expr_kind(repo, cg, mc, r.value) if isinstance(r, ast.Return) else None
            ok = want.get(ty) == k
            ctx.inst('R04.1', DEC + ':make_cleared_value', '%s -> %s' % (ty, repo.norm(r)), ok, 'cleared value keeps the JSON type' if ok else
                     'clearing a %s yields a %s: a typed field becomes invalid' % (ty, k), r)
    r = orelse[-1] if orelse else None
    ok = isinstance(r, ast.Return) and expr_kind(repo, cg, mc, r.value) == 'null'
    ctx.inst('R04.1', DEC + ':make_cleared_value', 'atomic -> %s' % (repo.norm(r) if r is not None else '?'), ok,
             'atomic values are cleared to null (execution_count: integer|null)' if ok else 'atomic values are not cleared to null', r if r is not None else mc)
    # where "clear" is attached: the schema must allow the cleared kind
    from .c03 import strategy_table
    table, _ = strategy_table(ctx)
    for path, strategies in sorted(table.items()):
        if 'clear' in strategies and path != '/':
            types = sch.types_at(path)
            cleared = {'array': 'array', 'object': 'object', 'string': 'string'}
            ok = all((cleared.get(t, 'null') in types) for t in types)
            for node in sch.at(path):
                if isinstance(node, dict) and ('enum' in node or 'const' in node):
                    vals = node.get('enum', [node.get('const')])
                    empties = {'string': '', 'array': [], 'object': {}}
                    if not any((empties.get(t, None) in vals) for t in types):
                        ok = False
            ctx.inst('R04.1', mf.MNB + ':notebook_merge_strategies', 'strategy clear on %s (schema types %s)' % (path, sorted(types)), ok,
                     'the cleared value of every admissible type is itself admissible' if ok else
                     'clearing a value at %s produces a type the schema forbids there' % path, None)
    # output marker: fields valid in every minor
    om = repo.func(STR + ':output_marker')
    calls = [c for c in calls_in(om) if (dotted(c.func) or '').endswith('new_output')]
    if len(calls) != 1:
        raise AnalysisError('output_marker: new_output call not found')
    otype = const_val(calls[0].args[0]) if calls[0].args else None
    kws = {k.arg for k in calls[0].keywords}
    bad = []
    for minor in range(0, 6):
        s = load_nbformat_schema(minor)
        d = s['definitions'].get(otype)
        if d is None or not kws <= set(d['properties']) or not set(d.get('required', [])) <= (kws | {'output_type'}):
            bad.append(minor)
    ctx.inst('R04.1', STR + ':output_marker', 'new_output(%r, %s)' % (otype, sorted(kws)), not bad,
             'marker outputs are valid %s outputs in every format minor 0-5' % otype if not bad else 'marker output invalid for minors %s' % bad, calls[0])
    # metadata is free-form wherever conflict records go
    import re as _re
    rec_paths = sorted(path for path, strategies in table.items() if 'record-conflict' in strategies)
    if len(rec_paths) < 3:
        raise AnalysisError('strategy table: fewer than three paths carry the record-conflict strategy (%s)' % rec_paths)

    def _admits_record(n):
        """may an object of this schema node carry the key `nbdime-conflicts` with an OBJECT value?"""
        def obj_ok(sub):
            if sub is True or sub is None:
                return True
            if sub is False:
                return False
            sub = sch.deref(sub) if isinstance(sub, dict) else sub
            t = sub.get('type') if isinstance(sub, dict) else None
            return t is None or t == 'object' or (isinstance(t, list) and 'object' in t)
        if 'nbdime-conflicts' in n.get('properties', {}):
            return obj_ok(n['properties']['nbdime-conflicts'])
        for pat, sub in n.get('patternProperties', {}).items():
            if _re.search(pat, 'nbdime-conflicts') and not obj_ok(sub):
                return False
        if any(_re.search(pat, 'nbdime-conflicts') for pat in n.get('patternProperties', {})):
            return True
        return obj_ok(n.get('additionalProperties', True))
    for p in rec_paths:
        nodes = [n for n in sch.at(p) if isinstance(n, dict)]
        ok = bool(nodes) and all(_admits_record(n) for n in nodes)
        ctx.inst('R04.1', 'nbformat schema', '%s additionalProperties' % p, ok, 'free-form: the nbdime-conflicts record is admissible' if ok else
                 'metadata is closed at %s: recorded conflicts make the notebook invalid' % p, None)

    # ---------------------------------------------------------------- R04.2
    p = find_pkg_file('nbformat', 'v4', 'nbbase.py')
    with open(p, encoding='utf8') as fh:
        nbb = ast.parse(fh.read())
    ctor_adds_id = {}
    for n in nbb.body:
        if isinstance(n, ast.FunctionDef) and n.name in ('new_code_cell', 'new_markdown_cell', 'new_raw_cell'):
            ctor_adds_id[n.name] = any(isinstance(c, ast.Call) and any(k.arg == 'id' for k in c.keywords) for c in ast.walk(n))
    forbid = []
    for minor in range(0, 5):
        s = load_nbformat_schema(minor)
        for cname in ('markdown_cell', 'code_cell', 'raw_cell'):
            d = s['definitions'][cname]
            if d.get('additionalProperties') is False and 'id' not in d['properties']:
                forbid.append((minor, cname))
    ctx.inst('R04.2', 'nbformat (installed dependency, read as data)', 'constructors adding id: %s; minors forbidding id: %s' % (
        sorted(k for k, v in ctor_adds_id.items() if v), sorted({m for m, c in forbid})), True,
        'fact table for this rule', None, nontrivial=False)
    n_ctor = 0
    for f, fnode in sorted(repo.functions.items()):
        if not f.startswith('nbdime.merging.'):
            continue
        for c in calls_in(fnode, nested=False):
            name = (dotted(c.func) or '').split('.')[-1]
            if name in ctor_adds_id and ctor_adds_id[name] and forbid:
                n_ctor += 1
                st = repo.stmt_of(c)
                var = dotted(st.targets[0]) if isinstance(st, ast.Assign) else None
                gg = CFG(fnode)
                strip = None
                for n in walk_no_nested(fnode):
                    if isinstance(n, ast.Call) and isinstance(n.func, ast.Attribute) and n.func.attr == 'pop' and dotted(n.func.value) == var \
                            and n.args and const_val(n.args[0]) == 'id':
                        strip = n
                    if isinstance(n, ast.Delete) and any(isinstance(t, ast.Subscript) and dotted(t.value) == var and const_val(t.slice) == 'id' for t in n.targets):
                        strip = n
                if strip is None:
                    ctx.inst('R04.2', f, repo.norm(c), False,
                             'a cell created by %s always carries an id and nothing removes it: inserted into a notebook declaring format 4.0-4.4 it makes the notebook invalid' % name, c)
                    continue
                flags = set()
                for t, pol in cond_guards(gg, repo.stmt_of(strip)):
                    flags |= names_in(t)
                flag = [x for x in flags if x in param_names(fnode)]
                ok = bool(flag)
                ctx.inst('R04.2', f, '%s ... %s under %s' % (repo.norm(c)[:60], repo.norm(strip), sorted(flags)), ok,
                         'the id is removed under a caller-supplied condition' if ok else 'id removal is unconditional/unparameterised (4.5 notebooks need ids)', strip)
                # every caller passes a flag derived from "do the notebook's cells have ids"
                for caller, sites in sorted(cg.sites.items()):
                    for call, targets in sites:
                        if ('func', f) not in targets:
                            continue
                        cf = repo.functions[caller]
                        pos = param_names(fnode)
                        argexpr = None
                        for fl in flag:
                            i = pos.index(fl)
                            if len(call.args) > i:
                                argexpr = call.args[i]
                            for k in call.keywords:
                                if k.arg == fl:
                                    argexpr = k.value
                        src = depends_on(cf, argexpr, lambda n: isinstance(n, ast.Compare) and isinstance(n.ops[0], ast.In) and
                                         const_val(n.left) == 'id', local_defs(cf)) if argexpr is not None else None
                        ok = src is not None
                        ctx.inst('R04.2', caller, repo.norm(call), ok,
                                 'marker gets an id only if some cell of the notebook has one' if ok else
                                 'marker cell is created with the default (id present) regardless of the notebook\'s format', call)
    if n_ctor == 0 and any(ctor_adds_id.values()):
        raise AnalysisError('no nbformat cell constructor call found in nbdime.merging (anchor moved)')

    # ---------------------------------------------------------------- R04.3
    ap = repo.func(DEC + ':apply_decisions')
    rets = [n for n in walk_no_nested(ap) if isinstance(n, ast.Return)]
    defs = local_defs(ap)
    ok = len(rets) == 1 and depends_on(ap, rets[0].value, lambda n: isinstance(n, ast.Call) and (dotted(n.func) or '').endswith('from_dict'), defs) is not None
    ctx.inst('R04.3', DEC + ':apply_decisions', repo.norm(rets[0]) if rets else '<no return>', ok,
             'plain dicts built during the merge become NotebookNodes (attribute access, nbformat.write)' if ok else
             'the merged structure is returned without nbformat.from_dict', rets[0] if rets else ap)

    # ---------------------------------------------------------------- R04.4 declared minor = max over the three versions
    # cells of a 4.5 side arrive with ids whichever side they come from; the merged notebook is valid only if it declares
    # the largest minor any side declares.  Structural part: the take_max arm of resolve_action feeds base, the local value
    # and the remote value (each read from its own side's diff) into max().
    from .c05 import mirror_statement_pairs
    from .. import mergefacts as _mf
    ra = repo.func(_mf.DEC + ':resolve_action')
    n = mirror_statement_pairs(ctx, 'R04.4', only={_mf.DEC + ':resolve_action'})
    if n == 0:
        raise AnalysisError('resolve_action: no local/remote value pair found in the take_max arm')
    mx = [c for c in calls_in(ra) if isinstance(c.func, ast.Name) and c.func.id == 'max']
    if not mx:
        raise AnalysisError('resolve_action: take_max no longer calls max()')
    for c in mx:
        args = [dotted(a) for a in c.args]
        defs = local_defs(ra)
        roles = set()
        for a in args:
            if a is None:
                continue
            for v, k, st in defs.get(a, []):
                src = ast.unparse(v)
                if 'local_diff' in src:
                    roles.add('local')
                if 'remote_diff' in src:
                    roles.add('remote')
                if src.startswith('base['):
                    roles.add('base')
        ok = roles == {'base', 'local', 'remote'}
        ctx.inst('R04.4', _mf.DEC + ':resolve_action', repo.norm(c) + ' over ' + str(sorted(roles)), ok,
                 'the maximum ranges over base, local and remote' if ok else
                 'the maximum does not range over all of base, local and remote (%s): the merged notebook can declare a smaller minor than a side whose cells it contains' % sorted(roles), c)


def synthesised_values(ctx, rule):
    """Every value a resolution strategy writes with add/replace is (i) a value of one side taken verbatim (entry .value, or
    base patched with one side's diff), (ii) the text produced by the three-way text merge, or (iii) stored under a constant
    key whose schema type R04.1 checks (`nbdime-conflicts` in free-form metadata).  A value the merge code *assembles* from
    pieces (a partial dict of what both sides agree on, a filtered list ...) and stores under a key taken from the input is
    not guaranteed to satisfy that field's schema (required sub-keys, closed objects)."""
    repo, cg = ctx.repo, ctx.cg
    n = 0
    for fid, fn in sorted(repo.functions.items()):
        if not fid.startswith(STR + ':'):
            continue
        defs = local_defs(fn)

        def side_value(e, seen=()):
            if isinstance(e, ast.Attribute) and e.attr in ('value', 'valuelist'):
                return True
            if isinstance(e, ast.Call) and (dotted(e.func) or '').split('.')[-1] == 'patch':
                return True
            if isinstance(e, ast.Subscript) and isinstance(e.value, ast.Call) and (dotted(e.value.func) or '').split('.')[-1] == 'merge_render':
                return True
            if isinstance(e, ast.Name) and e.id not in seen:
                ds = [v for v, k, st in defs.get(e.id, []) if k in ('assign', 'unpack')]
                if ds and all(side_value(v, seen + (e.id,)) or (isinstance(v, ast.Call) and (dotted(v.func) or '').split('.')[-1] == 'merge_render') for v in ds):
                    return True
            return False
        for c in calls_in(fn, nested=False):
            if not (isinstance(c.func, ast.Name) and c.func.id in ('op_add', 'op_replace') and len(c.args) >= 2):
                continue
            n += 1
            key, val = c.args[0], c.args[1]
            const_key = isinstance(const_val(key), str)
            ok = side_value(val) or const_key
            ctx.inst(rule, fid, repo.norm(c), ok,
                     ('a side\'s own value / the text-merge result' if side_value(val) else 'constant key %r (typed by R04.1)' % const_val(key)) if ok else
                     'the value `%s` is assembled by the merge code and stored under the input-dependent key `%s`: it is neither side\'s value, so nothing '
                     'guarantees it meets the schema of that field (e.g. kernelspec requires name and display_name)' % (ast.unparse(val)[:40], ast.unparse(key)[:30]), c)
    if n < 5:
        raise AnalysisError('fewer add/replace constructions than expected in merging/strategies.py (%d)' % n)


def run(ctx):
    ctx.rule('R04.7', 'no dead adjustment code: no guard in the merge package compares a variable with its own defining expression (conflicts inside an attachment must be lifted to the attachment level)', floor=1)
    ctx.rule('R04.5', 'values written by resolution strategies with add/replace are a side\'s own value, the text-merge result, or go under a constant, schema-checked key', floor=5)
    ctx.rule('R04.6', 'no strategy arm is tried before an arm that settles a non-conflict (C10 R10.5): "removal wins over a transient-only edit" is what keeps e.g. '
             'execution_count off a cell converted to markdown; a `clear` tried first leaves a null field the target cell type does not admit', floor=1)
    _run_base(ctx)
    from . import c10
    from ..report import run_sub
    run_sub(ctx, c10, {'R10.5': 'R04.6'})
    synthesised_values(ctx, 'R04.5')
    from .c03 import no_tautological_guards
    no_tautological_guards(ctx, 'R04.7', ['nbdime.merging.'])


from .extra import with_extra  # noqa: E402
run = with_extra('C04', run)
