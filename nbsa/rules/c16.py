"""C16 -- terminal rendering never fails; silent on empty diff; no ANSI without colour (structural clauses)."""
import ast

from ..core import AnalysisError, dotted, walk_no_nested, FuncTypes
from ..cfg import CFG, cond_guards
from ..util import calls_in, local_defs, depends_on, const_val, if_chain, names_in, truth_under, compare_eq_const
from ..consteval import Evaluator, UNKNOWN, reachable_arms
from .. import mergefacts as mf
from .c03 import BlockChecker

ASSUMPTIONS = [
    'per-path formatting of arbitrary values, "prints something for every non-ignored change" and the regex post-processing of git/diff output are not decided',
    'unarmed: `assert n <= 2` on git diff output (input dependent; no reproduction found)',
    'ANSI sources are: colorama constants, pygments terminal formatters, --color* flags handed to git; other libraries are assumed not to emit escapes',
]

PP = 'nbdime.prettyprint'


def is_use_color(e):
    return isinstance(e, ast.Attribute) and e.attr == 'use_color'


def _run_base(ctx):
    repo, cg = ctx.repo, ctx.cg
    ctx.rule('R16.1', 'every ANSI source is selected by use_color: colorama only in the col_const[True] row, col_const indexed only by use_color, '
             'syntax highlighting and git --color* flags only on paths where use_color is true', floor=9)
    ctx.rule('R16.2', 'dispatches are total: every diff op has a rendering arm, dict/list/str dispatch, renderer selection ends in a built-in fallback, should_ignore_path always returns', floor=9)
    ctx.rule('R16.3', 'an empty diff prints nothing: every write in pretty_print_notebook_diff is under `if di`', floor=1)
    ctx.rule('R16.4', 'external tools: temp dir removed in finally; a tool is launched only behind which() of the same executable', floor=4)

    m = repo.mod(PP)
    # ---------------------------------------------------------------- R16.1
    cc = repo.module_assign(PP, 'col_const')
    if not isinstance(cc, ast.Dict):
        raise AnalysisError('col_const is no longer a dict literal')
    rows = {const_val(k): v for k, v in zip(cc.keys, cc.values)}
    true_row = rows.get(True)
    false_row = rows.get(False)
    colorama_uses = [n for n in ast.walk(m.tree) if isinstance(n, ast.Attribute) and (dotted(n) or '').startswith('colorama.')
                     and not isinstance(repo.parent(n), ast.Attribute)]
    for n in colorama_uses:
        inside = true_row is not None and any(x is n for x in ast.walk(true_row))
        ctx.inst('R16.1', repo.where(n), dotted(n), inside, 'inside the col_const[True] row' if inside else
                 'a colorama escape is used outside the use_color-selected table: it is printed even with colour disabled', n)
    if false_row is not None:
        lits = [x.value for x in ast.walk(false_row) if isinstance(x, ast.Constant) and isinstance(x.value, str)]
        ok = not any('\x1b' in s for s in lits) and not any((dotted(x) or '').startswith('colorama.') for x in ast.walk(false_row) if isinstance(x, ast.Attribute))
        ctx.inst('R16.1', PP + ':col_const[False]', 'plain row: %s' % lits, ok, 'no escape codes in the colourless row' if ok else 'the colourless row contains escapes', false_row)
    for n in ast.walk(m.tree):
        if isinstance(n, ast.Name) and n.id == 'col_const' and isinstance(n.ctx, ast.Load):
            par = repo.parent(n)
            ok = isinstance(par, ast.Subscript) and is_use_color(par.slice)
            ctx.inst('R16.1', repo.where(n), repo.norm(repo.parent(par)) if isinstance(par, ast.Subscript) else repo.norm(par), ok,
                     'row chosen by use_color' if ok else 'col_const is indexed by something other than use_color', n)
    # syntax highlighting
    hl_funcs = {PP + ':colorize_source'}
    for fid, fn in sorted(repo.functions.items()):
        if not fid.startswith(PP + ':') or fid in hl_funcs:
            continue
        g = None
        for c in calls_in(fn, nested=False):
            ts = cg.resolve(c.func, fn)
            if any(t[0] == 'func' and t[1].split(':')[1].split('.')[-1] == 'colorize_source' for t in ts) or \
                    any(t[0] == 'ext' and t[1].startswith('pygments') for t in ts):
                g = g or CFG(fn)
                guards = cond_guards(g, repo.stmt_of(c))
                ok = any(truth_under(t, pol, is_use_color) is True for t, pol in guards)
                ctx.inst('R16.1', fid, repo.norm(c), ok, 'highlighting only when use_color is true' if ok else
                         'terminal syntax highlighting (ANSI escapes) is applied without consulting use_color', c)
    # git colour flags: evaluate the command on the use_color=False path
    gcmd = const_val(repo.module_assign(PP, 'git_diff_print_cmd'))
    dg = repo.func(PP + ':diff_render_with_git')
    for use_color, color_words in ((False, False), (False, True)):
        ev = Evaluator({'config.use_color': use_color, 'config.color_words': color_words, 'git_diff_print_cmd': gcmd})
        _exec_block(ev, dg.body)
        cmd = ev.env.get('cmd', UNKNOWN)
        toks = cmd.split() if isinstance(cmd, str) else []
        asked = [t for t in toks if t.startswith('--color')]
        ok = isinstance(cmd, str) and not asked and '--no-color' in toks
        ctx.inst('R16.1', PP + ':diff_render_with_git', 'use_color=%s color_words=%s -> %r' % (use_color, color_words, cmd), ok,
                 'git is told --no-color' if ok else ('git is still asked for coloured output with colour disabled' if asked or not isinstance(cmd, str) else
                                                     'git is not told --no-color: with color.ui / color.diff = always in the user\'s git configuration it colours its output although colour is disabled'), dg)
    for name, val in m.assigns.items():
        v = const_val(val[-1])
        if isinstance(v, str) and '--color' in v and name != 'git_diff_print_cmd':
            ctx.inst('R16.1', PP + ':' + name, repr(v), False, 'a second command template carries a colour flag that no use_color test removes', val[-1])
    for fid, fn in sorted(repo.functions.items()):
        if fid.startswith(PP + ':') and fid != PP + ':diff_render_with_git':
            for n in ast.walk(fn):
                if isinstance(n, ast.Constant) and isinstance(n.value, str) and ('\x1b[' in n.value or '--color' in n.value):
                    ctx.inst('R16.1', fid, repr(n.value), False, 'literal escape code / colour flag outside the use_color-controlled sites', n)

    # ---------------------------------------------------------------- R16.2
    consts = mf.diffop_consts(repo)
    pe = repo.func(PP + ':pretty_print_diff_entry')
    for opname, op in sorted(consts.items()):
        ev = Evaluator({'e.op': op}, consts)
        bc = BlockChecker(ev, set(), track_env=True)
        bc.block(pe.body, set())
        ab = [p for p in bc.problems if p[0] == 'abort']
        ctx.inst('R16.2', PP + ':pretty_print_diff_entry', 'op %r' % op, not ab, 'has a rendering arm' if not ab else
                 'rendering op %r raises: %s' % (op, ab[0][2]), ab[0][1] if ab else pe)
    pd = repo.func(PP + ':pretty_print_diff')
    kinds = set()
    for n in walk_no_nested(pd):
        if isinstance(n, ast.If):
            for test, body, node in if_chain(n)[0]:
                if isinstance(test, ast.Call) and dotted(test.func) == 'isinstance':
                    kinds.add(dotted(test.args[1]))
            break
    ok = {'dict', 'list', 'str'} <= kinds
    ctx.inst('R16.2', PP + ':pretty_print_diff', 'container dispatch %s' % sorted(kinds), ok,
             'all patchable container kinds are rendered' if ok else 'a container kind a patch can descend into is not rendered', pd)
    for name, fallback in (('diff_render', 'diff_render_with_difflib'), ('merge_render', 'builtin_merge_render')):
        fn = repo.func('%s:%s' % (PP, name))
        from ..util import final_fallback
        lastif = [s for s in fn.body if isinstance(s, ast.If)][-1]
        ok = final_fallback(repo, cg, fn, '%s:%s' % (PP, fallback))
        ctx.inst('R16.2', '%s:%s' % (PP, name), 'else -> %s' % fallback, ok, 'always a renderer' if ok else
                 'no unconditional built-in fallback: rendering fails where the external tools are absent', lastif)
    sp = repo.func(PP + ':PrettyPrintConfig.should_ignore_path')
    g = CFG(sp)
    fall = [n for n in g.nodes if g.EXIT in g.succ.get(n, ()) and not isinstance(n, ast.Return) and n in g.reachable(g.ENTRY)]
    ctx.inst('R16.2', PP + ':PrettyPrintConfig.should_ignore_path', 'every path returns', not fall, 'returns a verdict on every path' if not fall else
             'a path falls through and returns None', sp)
    # ---------------------------------------------------------------- R16.3
    nd = repo.func(PP + ':pretty_print_notebook_diff')
    g = CFG(nd)
    dparam = nd.args.args[3].arg
    n_w = 0
    bad = []
    for c in calls_in(nd, nested=False):
        st = repo.stmt_of(c)
        if isinstance(st, ast.If) and c in list(ast.walk(st.test)):
            continue
        n_w += 1
        guards = cond_guards(g, st)
        if not any(truth_under(t, pol, lambda e: isinstance(e, ast.Name) and e.id == dparam) is True for t, pol in guards):
            bad.append(c)
    ctx.inst('R16.3', PP + ':pretty_print_notebook_diff', '%d call(s), all under `if %s`' % (n_w, dparam), not bad and n_w > 0,
             'nothing is written for an empty diff' if not bad else 'output is produced even for an empty diff: %s' % repo.norm(bad[0]), bad[0] if bad else nd)
    # ---------------------------------------------------------------- R16.4
    for name in ('external_diff_render', 'external_merge_render'):
        fn = repo.func('%s:%s' % (PP, name))
        tries = [n for n in walk_no_nested(fn) if isinstance(n, ast.Try)]
        mk = [c for c in calls_in(fn, nested=False) if (dotted(c.func) or '').endswith('mkdtemp')]
        ok = bool(tries) and bool(mk) and any((dotted(c.func) or '').endswith('rmtree') for s in tries[0].finalbody for c in calls_in(s))
        if ok:
            # everything between mkdtemp and the try must not be able to leave the dir behind
            ok = repo.stmt_of(mk[0]) in fn.body and fn.body.index(tries[0]) == fn.body.index(repo.stmt_of(mk[0])) + 1
        ctx.inst('R16.4', '%s:%s' % (PP, name), 'mkdtemp(); try: ... finally: rmtree', ok,
                 'temp dir is removed on every exit' if ok else 'temp dir can be left behind (rmtree not in a finally directly after mkdtemp)', fn)
    dr = repo.func(PP + ':diff_render')
    # every tool test of the selection, whatever its layout (one if/elif chain, or guard clauses one after the other)
    _arms = []
    _seen_ifs = set()
    for s_ in dr.body:
        if isinstance(s_, ast.If) and id(s_) not in _seen_ifs:
            for t_, b_, n_ in if_chain(s_)[0]:
                if id(n_) not in _seen_ifs:
                    _seen_ifs.add(id(n_))
                    _arms.append((t_, b_, n_))
    for test, body, node in _arms:
        for c in [x for x in ast.walk(test) if isinstance(x, ast.Call) and dotted(x.func) == 'which']:
            tool = const_val(c.args[0]) if c.args else None
            cmds = []
            for u in [x for b in body for x in calls_in(b)]:
                for t in cg.resolve(u.func, dr):
                    if t[0] == 'func':
                        f2 = repo.functions[t[1]]
                        for v in [n for n in walk_no_nested(f2) if isinstance(n, ast.Assign)]:
                            if isinstance(v.value, ast.Name) and v.value.id.endswith('_cmd'):
                                cv = repo.mod_of(f2).assigns.get(v.value.id)
                                if cv:
                                    cmds.append(const_val(cv[-1]))
            ok = bool(cmds) and all(isinstance(s, str) and s.split()[0] == tool for s in cmds)
            ctx.inst('R16.4', PP + ':diff_render', 'which(%r) guards %s' % (tool, cmds), ok,
                     'the executable tested is the one launched' if ok else 'availability test and launched executable differ', c)


def compare_eq_const_or_dotted(test, consts):
    if isinstance(test, ast.Compare) and dotted(test.left) in ('op', 'e.op'):
        return True
    return False


def _exec_block(ev, stmts):
    """Tiny sequential interpreter: assignments to simple names and if/elif with evaluable tests."""
    for st in stmts:
        if isinstance(st, ast.Assign) and len(st.targets) == 1 and isinstance(st.targets[0], ast.Name):
            ev.env[st.targets[0].id] = ev.ev(st.value)
        elif isinstance(st, ast.If):
            for idx, body in reachable_arms(ev, st):
                _exec_block(ev, body)
                break
        elif isinstance(st, ast.Return):
            return


def shared_class_state(ctx, rule, module_prefixes):
    """Class-level mutable containers (one object shared by every instance) that methods write through self/cls.

    A renderer configuration is created per call (per request, per command); what one rendering stores in a container
    declared in the class body is seen by every later configuration object, whose flags may differ."""
    from ..facts import MUTABLE_CTORS, MUTATORS
    repo = ctx.repo
    n = 0
    for cid, c in sorted(repo.classes.items()):
        mod = cid.split(':')[0]
        if not any(mod == p or mod.startswith(p) for p in module_prefixes):
            continue
        n += 1
        shared = {}
        for st in c.body:
            if isinstance(st, ast.Assign) and len(st.targets) == 1 and isinstance(st.targets[0], ast.Name):
                v = st.value
                if isinstance(v, (ast.Dict, ast.List, ast.Set)) or (isinstance(v, ast.Call) and (dotted(v.func) or '').split('.')[-1] in MUTABLE_CTORS):
                    shared[st.targets[0].id] = st
        # attributes re-created per instance in __init__ are not shared
        for st in c.body:
            if isinstance(st, FuncTypes) and st.name == '__init__':
                for a in ast.walk(st):
                    if isinstance(a, ast.Assign):
                        for t in a.targets:
                            if isinstance(t, ast.Attribute) and dotted(t.value) == 'self' and t.attr in shared:
                                del shared[t.attr]
        writes = []
        cname = cid.split(':')[-1]
        for st in c.body:
            if not isinstance(st, FuncTypes):
                continue
            for a in ast.walk(st):
                tgts = []
                if isinstance(a, ast.Assign):
                    tgts = a.targets
                elif isinstance(a, ast.AugAssign):
                    tgts = [a.target]
                elif isinstance(a, ast.Delete):
                    tgts = a.targets
                for t in tgts:
                    if isinstance(t, ast.Subscript) and isinstance(t.value, ast.Attribute) and t.value.attr in shared and \
                            dotted(t.value.value) in ('self', 'cls', cname, 'type(self)'):
                        writes.append((t.value.attr, a, st))
                if isinstance(a, ast.Call) and isinstance(a.func, ast.Attribute) and a.func.attr in MUTATORS and \
                        isinstance(a.func.value, ast.Attribute) and a.func.value.attr in shared and dotted(a.func.value.value) in ('self', 'cls', cname):
                    writes.append((a.func.value.attr, a, st))
        ctx.inst(rule, cid, 'class-level containers: %s' % (sorted(shared) or 'none'), not writes,
                 'no method stores into a container shared by all instances' if not writes else
                 '%s.%s is one dict/list for every instance; %s() writes it (%s): a verdict stored while rendering with one configuration is '
                 'replayed for later configurations with other flags' % (cname, writes[0][0], writes[0][2].name, repo.norm(writes[0][1])[:80]),
                 writes[0][1] if writes else c)
    return n


def tool_output_regexes_anchored(ctx, rule):
    """Patterns used to delete tool chatter from the output of git diff / diff must be anchored at a line start.

    The output consists of the notebook text being diffed (prefixed by one marker character) plus lines the tool adds.
    `\\ No newline at end of file` is such an added line and always starts in column 0, which no line of content does.
    A pattern that can match in the middle of a line also deletes that phrase from content and breaks the count the
    assertion that follows relies on."""
    import re
    try:
        import re._parser as sre_parse
        import re._constants as sre_c
    except ImportError:     # Python < 3.11
        import sre_parse
        import sre_constants as sre_c
    repo, cg = ctx.repo, ctx.cg
    fn = repo.func(PP + ':external_diff_render')
    defs = local_defs(fn)
    n = 0
    for c in calls_in(fn, nested=False):
        if not (isinstance(c.func, ast.Attribute) and c.func.attr in ('sub', 'subn')):
            continue
        recv = c.func.value
        comp = None
        if isinstance(recv, ast.Name) and recv.id == 're':
            pat_e, flags_e = c.args[0], next((k.value for k in c.keywords if k.arg == 'flags'), None)
        else:
            src = None
            if isinstance(recv, ast.Name):
                ds = defs.get(recv.id)
                if ds:
                    src = ds[-1][0]
                else:
                    src = repo.module_assign(PP, recv.id)
            if not (isinstance(src, ast.Call) and (dotted(src.func) or '').endswith('compile')):
                raise AnalysisError('external_diff_render: cannot resolve the pattern of %s' % ast.unparse(c)[:60])
            pat_e = src.args[0]
            flags_e = src.args[1] if len(src.args) > 1 else next((k.value for k in src.keywords if k.arg == 'flags'), None)
        pat = const_val(pat_e)
        if not isinstance(pat, str):
            raise AnalysisError('external_diff_render: pattern is not a string constant')
        flags = 0
        if flags_e is not None:
            for x in ast.walk(flags_e):
                if isinstance(x, ast.Attribute) and x.attr in ('M', 'MULTILINE'):
                    flags |= re.M
        parsed = sre_parse.parse(pat, flags)
        first = parsed[0] if len(parsed) else None
        anchored = first is not None and first[0] == sre_c.AT and first[1] in (sre_c.AT_BEGINNING, sre_c.AT_BEGINNING_LINE) and bool(flags & re.M)
        n += 1
        ctx.inst(rule, PP + ':external_diff_render', 'pattern %r flags %s' % (pat, 're.M' if flags & re.M else '0'), anchored,
                 'matches only at the start of a line of the tool output' if anchored else
                 'the pattern is not anchored at a line start: it also matches inside lines of notebook text that quote the phrase, deleting '
                 'content and tripping the `assert n <= 2` that follows (rendering raises)', c)
    if n == 0:
        raise AnalysisError('external_diff_render: no regex post-processing of the tool output found')



RAISING_ERROR_HANDLERS = ['strict', 'surrogateescape', 'surrogatepass']     # codecs documentation: these raise on unencodable characters
ESCAPING_ERROR_HANDLERS = ['backslashreplace', 'replace', 'ignore', 'xmlcharrefreplace', 'namereplace']


def lexer_name_is_a_string(ctx, rule):
    """The language handed to pygments as lexer name comes from notebook metadata; it must be read from fields the notebook
    schema types as *string*.  `language_info.codemirror_mode` is `string | object` by schema: the object form makes
    pygments' lexer lookup raise AttributeError, which colorize_source does not catch."""
    from ..schema import NbSchema
    repo = ctx.repo
    fn = repo.func(PP + ':pretty_print_notebook')
    sch = NbSchema(5)
    stores = [n for n in walk_no_nested(fn) if isinstance(n, ast.Assign) and any(isinstance(t, ast.Attribute) and t.attr == 'language' for t in n.targets)]
    if not stores:
        raise AnalysisError('pretty_print_notebook: config.language is no longer set from the notebook')
    defs = local_defs(fn)
    n = 0
    for st in stores:
        for c in ast.walk(st.value):
            if isinstance(c, ast.Call) and isinstance(c.func, ast.Attribute) and c.func.attr == 'get' and c.args and isinstance(const_val(c.args[0]), str):
                base = dotted(c.func.value)
                src = None
                if base in defs:
                    for v, k, s2 in defs[base]:
                        for g in ast.walk(v):
                            if isinstance(g, ast.Call) and isinstance(g.func, ast.Attribute) and g.func.attr == 'get' and g.args and isinstance(const_val(g.args[0]), str):
                                src = const_val(g.args[0])
                if src is None:
                    continue
                field = const_val(c.args[0])
                types = sch.types_at('/metadata/%s/%s' % (src, field))
                n += 1
                ok = bool(types) and types <= {'string', 'null'}
                ctx.inst(rule, PP + ':pretty_print_notebook', 'language <- metadata.%s.%s (schema type %s)' % (src, field, sorted(types) or 'untyped'), ok,
                         'a string by schema' if ok else
                         'the schema allows %s here: a non-string reaches pygments as lexer name and rendering a valid notebook raises' % (sorted(types) or 'any value'), c)
    if n == 0:
        raise AnalysisError('pretty_print_notebook: no metadata field feeds config.language')


def stream_error_handlers(ctx, rule):
    """nbdiff/nbshow print notebook text to the terminal.  CPython opens stdout with `strict` in most set-ups and with
    `surrogateescape` under the C/POSIX locale; both raise UnicodeEncodeError for text the locale codec cannot encode.
    _setup_std_stream_encoding must therefore replace every raising handler (codecs docs: strict, surrogateescape,
    surrogatepass) by an escaping one -- decided by evaluating its guard for each handler name."""
    from ..consteval import Evaluator, UNKNOWN
    repo = ctx.repo
    fn = repo.func('nbdime.utils:_setup_std_stream_encoding')
    g = CFG(fn)
    fix = None
    for n in walk_no_nested(fn):
        if isinstance(n, ast.Call) and any(k.arg == 'errors' and isinstance(const_val(k.value), str) and const_val(k.value) in ESCAPING_ERROR_HANDLERS for k in n.keywords):
            fix = n
    if fix is None:
        raise AnalysisError('_setup_std_stream_encoding: no call installing an escaping error handler found')
    guards = [(t, pol) for t, pol in cond_guards(g, repo.stmt_of(fix)) if 'errors' in {x.id for x in ast.walk(t) if isinstance(x, ast.Name)}]
    if not guards:
        ctx.inst(rule, 'nbdime.utils:_setup_std_stream_encoding', repo.norm(fix)[:80], True, 'the escaping handler is installed whatever the current handler is', fix)
        return

    def holds(t, value):
        # tiny evaluator for: errors == 'x', errors.startswith('x'), errors in (...), or/and/not
        if isinstance(t, ast.BoolOp):
            vals = [holds(v, value) for v in t.values]
            return all(vals) if isinstance(t.op, ast.And) else any(vals)
        if isinstance(t, ast.UnaryOp) and isinstance(t.op, ast.Not):
            return not holds(t.operand, value)
        if isinstance(t, ast.Compare) and len(t.ops) == 1 and dotted(t.left) == 'errors':
            r = t.comparators[0]
            vals = [const_val(e) for e in r.elts] if isinstance(r, (ast.Tuple, ast.List, ast.Set)) else [const_val(r)]
            if isinstance(t.ops[0], (ast.Eq, ast.In)):
                return value in vals
            if isinstance(t.ops[0], (ast.NotEq, ast.NotIn)):
                return value not in vals
        if isinstance(t, ast.Call) and isinstance(t.func, ast.Attribute) and dotted(t.func.value) == 'errors' and t.args and isinstance(const_val(t.args[0]), str):
            if t.func.attr == 'startswith':
                return value.startswith(const_val(t.args[0]))
            if t.func.attr == 'endswith':
                return value.endswith(const_val(t.args[0]))
        raise AnalysisError('_setup_std_stream_encoding: guard `%s` not modelled' % ast.unparse(t))
    for h in RAISING_ERROR_HANDLERS:
        ok = all(holds(t, h) == pol for t, pol in guards)
        ctx.inst(rule, 'nbdime.utils:_setup_std_stream_encoding', 'current handler %r -> %s' % (h, 'replaced' if ok else 'kept'), ok,
                 'a handler that raises on unencodable text is replaced by an escaping one' if ok else
                 'a stream opened with errors=%r (CPython under the C/POSIX locale) keeps that handler: printing non-ASCII notebook text raises UnicodeEncodeError' % h, fix)

def run(ctx):
    ctx.rule('R16.11', 'the lexer name is read only from notebook metadata fields the schema types as string', floor=2)
    ctx.rule('R16.12', 'every stdout/stderr error handler that raises on unencodable text (strict, surrogateescape, surrogatepass) is replaced by an escaping one', floor=3)
    ctx.rule('R16.10', 'fields read from a diff entry exist for every op that the surrounding op tests still allow (field table from the op_* constructors)', floor=6)
    ctx.rule('R16.9', 'name binding: every global name a function refers to is bound at module level or builtin, and every local is assigned on every path before it is read', floor=4)
    ctx.rule('R16.8', 'every exactly resolved call binds against its callee\'s signature (no missing/unknown/surplus argument on any arm)', floor=2)
    ctx.rule('R16.7', 'regexes that strip tool chatter from external diff output are anchored at a line start (re.M + ^)', floor=1)
    ctx.rule('R16.6', 'renderer classes keep no mutable state shared between instances (class-level containers written by methods)', floor=1)
    ctx.rule('R16.5', 'the renderers never test a diff key / path element (line number, list index) by truthiness', floor=1)
    _run_base(ctx)
    from ..keys import key_truthiness
    key_truthiness(ctx, 'R16.5', ['nbdime.prettyprint'], 'rendering a change at index/line 0 takes the wrong branch (the char-level diff of line 0 is applied as a line-level diff and patch() raises)')
    shared_class_state(ctx, 'R16.6', ['nbdime.prettyprint'] if ctx.tier == 'quick' else ['nbdime.'])
    tool_output_regexes_anchored(ctx, 'R16.7')
    from ..signatures import call_compat
    call_compat(ctx, 'R16.8', ['nbdime.prettyprint', 'nbdime.nbshowapp', 'nbdime.nbdiffapp', 'nbdime.vcs.git.diffdriver'] if ctx.tier == 'quick' else ['nbdime.'], 'rendering fails for the diffs/decisions that reach this arm')
    from ..names import name_binding
    name_binding(ctx, 'R16.9', ['nbdime.prettyprint', 'nbdime.nbshowapp', 'nbdime.nbdiffapp', 'nbdime.vcs.git.diffdriver'] if ctx.tier == 'quick' else ['nbdime.'])
    from ..opfields import check_op_fields
    check_op_fields(ctx, 'R16.10', ['nbdime.prettyprint'])
    lexer_name_is_a_string(ctx, 'R16.11')
    stream_error_handlers(ctx, 'R16.12')


from .extra import with_extra  # noqa: E402
run = with_extra('C16', run)
