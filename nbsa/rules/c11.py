"""C11 -- every produced diff is well-formed: the "by construction" clauses."""
import ast

from ..core import AnalysisError, dotted, walk_no_nested, FuncTypes
from ..cfg import CFG, cond_guards
from ..util import is_dynamic_differ_call, builder_names, tv_eval, calls_in, local_defs, depends_on, const_val, truth_under, names_in, param_names
from .. import mergefacts as mf
from .. import facts

ASSUMPTIONS = [
    'bounds, non-overlap and key existence of entries relative to a concrete base document are value-level: not decided',
    'that SequenceDiffBuilder.append keeps entries sorted (insertion arithmetic) is taken from its code shape, not proved',
]

DIFFMODS = ('nbdime.diffing.',)
# producers that legitimately assemble a result themselves (one line of reason each)
FROZEN = {
    'nbdime.diffing.notebooks:diff_ignore_keys.ignored_diff': 'order-preserving filter of a builder result',
    'nbdime.diffing.notebooks:diff_ignore': 'constant empty diff',
}


def _run_base(ctx):
    repo, cg = ctx.repo, ctx.cg
    ctx.rule('R11.1', 'every differ returns a builder result (validated()), [], or the result of another differ: ordering/duplicate refusal live in one place', floor=9)
    ctx.rule('R11.2', 'no empty nested patch: op_patch is reached only through the builders\' patch() under `if diff:`; push_patch_decision wraps only non-empty diffs', floor=3)
    ctx.rule('R11.5', 'a nested list patch is keyed by the base index of the item its sub-diff was computed from', floor=1)
    ctx.rule('R11.6', 'mapping diff entries are keyed by the iteration/lookup key itself, never by a transformed copy', floor=8)
    ctx.rule('R11.3', 'patches descend only into containers: recursion guarded by not is_atomic (and same type for dict values); is_atomic falls back to "not str/list/dict"', floor=3)
    ctx.rule('R11.4', 'ops emitted by the differs are the schema\'s oneOf list; output differ re-appends through a builder and its data key cannot collide', floor=3)

    reach = cg.reachable(facts.DIFF_API)
    consts = mf.diffop_consts(repo)
    # differs = functions in nbdime.diffing.* whose name starts with diff/compute_diff/opcodes_to_diff and that return something
    def is_differ(fid):
        nm = fid.split(':')[1].split('.')[-1]
        return fid.startswith('nbdime.diffing.') and (nm.startswith('diff') or nm in ('compute_diff_from_snakes', 'opcodes_to_diff', 'ignored_diff'))
    differs = sorted(f for f in repo.functions if is_differ(f) and f in reach or (is_differ(f) and f.startswith('nbdime.diffing.')))
    differset = set(differs)
    for fid in differs:
        fn = repo.functions[fid]
        defs = local_defs(fn)
        rets = [n for n in walk_no_nested(fn) if isinstance(n, ast.Return) and n.value is not None]
        if not rets:
            continue
        if fid in FROZEN:
            ctx.inst('R11.1', fid, 'frozen exception', True, FROZEN[fid], fn, nontrivial=False)
            continue
        if all(any(t[0] == 'func' for t in cg.resolve(r.value, fn)) for r in rets if isinstance(r.value, ast.Name)) and \
                all(isinstance(r.value, ast.Name) for r in rets) and any(isinstance(n, FuncTypes) for n in walk_no_nested(fn) if n is not fn):
            ctx.inst('R11.1', fid, 'factory: returns a differ function, not a diff', True, 'not a producer of entries', fn, nontrivial=False)
            continue
        bad = []
        for r in rets:
            if not _ok_result(repo, cg, fn, r.value, defs, differset, set()):
                bad.append(r)
        ctx.inst('R11.1', fid, '%d return(s)' % len(rets), not bad,
                 'every returned diff comes from a builder / another differ / is empty' if not bad else
                 'returns a hand-assembled diff: %s' % repo.norm(bad[0]), bad[0] if bad else fn)
    # raising stub is fine; builders: validated returns the internal store (sorted for mappings)
    sb = repo.func('nbdime.diff_format:SequenceDiffBuilder.append')
    ins = [c for c in calls_in(sb) if isinstance(c.func, ast.Attribute) and c.func.attr == 'insert']
    # shape, not loop form: the single mutation of the store is insert(pos, entry); the scan compares stored keys with
    # the new key, inclusive (>=) under the ADDRANGE arm and strict (>) otherwise, spelled as a comparison or as operator.ge/gt
    def _cmp_kinds(stmts):
        kinds = set()
        for st in stmts:
            for n in ast.walk(st):
                if isinstance(n, ast.Compare) and len(n.ops) == 1 and all(isinstance(x, ast.Attribute) and x.attr == 'key' for x in (n.left, n.comparators[0])):
                    kinds.add({ast.GtE: 'ge', ast.Gt: 'gt', ast.Lt: 'lt', ast.LtE: 'le'}.get(type(n.ops[0]), type(n.ops[0]).__name__))
                elif isinstance(n, ast.Attribute) and dotted(n) in ('operator.ge', 'operator.gt', 'operator.le', 'operator.lt'):
                    kinds.add(n.attr)
        return kinds
    arm = [n for n in walk_no_nested(sb) if isinstance(n, ast.If) and isinstance(n.test, ast.Compare) and 'ADDRANGE' in ast.unparse(n.test)
           and isinstance(n.test.ops[0], ast.Eq)]
    if len(arm) != 1 or not arm[0].orelse:
        raise AnalysisError('R11.1: SequenceDiffBuilder.append no longer has an `op == ADDRANGE` / else pair to read the scan from')
    k_add, k_other = _cmp_kinds(arm[0].body), _cmp_kinds(arm[0].orelse)
    if not k_add or not k_other:
        raise AnalysisError('R11.1: no key comparison recognised in the arms of SequenceDiffBuilder.append (%s / %s)' % (sorted(k_add), sorted(k_other)))
    mut = [c for c in calls_in(sb) if isinstance(c.func, ast.Attribute) and dotted(c.func.value) == 'self._diff' and c.func.attr in
           ('append', 'extend', 'insert', 'sort', 'pop', 'remove', 'reverse', 'clear')]
    ok = len(ins) == 1 and len(mut) == 1 and not ({'lt', 'le'} & (k_add | k_other))
    ctx.inst('R11.1', 'nbdime.diff_format:SequenceDiffBuilder.append', 'sorted insertion (scan %s under ADDRANGE, %s otherwise; %d store mutation(s))' % (sorted(k_add), sorted(k_other), len(mut)), ok,
             'entries are inserted at their sorted position, addrange first at equal key' if ok else 'builder no longer inserts at a sorted position', sb)
    ok1 = len(ins) == 1 and len(mut) == 1
    ops = {'addrange': sorted(k_add), 'other': sorted(k_other)}
    ok2 = k_add == {'ge'} and k_other == {'gt'}
    if ok1:
        ctx.inst('R11.1', 'nbdime.diff_format:SequenceDiffBuilder.append', 'tie-break %s' % ops, ok2,
                 'addrange goes before removerange/patch with the same key; equal-op entries keep insertion order' if ok2 else
                 'tie-break changed: addrange is no longer ordered before removerange/patch at equal key (patchers rely on it)', sb)
    mb = repo.func('nbdime.diff_format:MappingDiffBuilder.append')
    dup = any(isinstance(n, ast.Assert) and isinstance(n.test, ast.Compare) and isinstance(n.test.ops[0], ast.NotIn) for n in walk_no_nested(mb))
    mv = repo.func('nbdime.diff_format:MappingDiffBuilder.validated')
    srt = any(dotted(c.func) == 'sorted' for c in calls_in(mv))
    ctx.inst('R11.1', 'nbdime.diff_format:MappingDiffBuilder', 'duplicate-key refusal=%s, sorted output=%s' % (dup, srt), dup and srt,
             'each key targeted at most once, entries sorted by key' if dup and srt else 'mapping builder no longer refuses duplicates / sorts', mb)

    # ---------------------------------------------------------------- R11.2
    for fid, fn in sorted(repo.functions.items()):
        for c in calls_in(fn, nested=False):
            if ('func', 'nbdime.diff_format:op_patch') not in cg.resolve(c.func, fn):
                continue
            if fid in ('nbdime.diff_format:SequenceDiffBuilder.patch', 'nbdime.diff_format:MappingDiffBuilder.patch'):
                g = CFG(fn)
                guards = cond_guards(g, repo.stmt_of(c))
                prm = fn.args.args[2].arg
                ok = any(truth_under(t, pol, lambda e: isinstance(e, ast.Name) and e.id == prm) is True for t, pol in guards)
                ctx.inst('R11.2', fid, repo.norm(c), ok, 'patch entry created only for a non-empty sub-diff' if ok else
                         'builder emits patch entries with empty sub-diffs', c)
            elif fid.startswith('nbdime.diffing.'):
                ctx.inst('R11.2', fid, repo.norm(repo.stmt_of(c)), False,
                         'a differ builds a patch entry directly, bypassing the non-empty check of the builders', c)
    pp = repo.func(mf.DEC + ':push_patch_decision')
    wrappers = {('func', 'nbdime.diff_format:op_patch'), ('func', mf.DEC + ':push_path')}
    n_wrap = 0
    for c in calls_in(pp, nested=True):
        owner = repo.func_of(c) or pp
        if not (wrappers & set(cg.resolve(c.func, owner))) or len(c.args) < 2:
            continue
        n_wrap += 1
        x = c.args[1]
        xs = ast.unparse(x)
        tests = []
        p, child = repo.parent(c), c
        while p is not None and p is not pp:
            if isinstance(p, ast.IfExp):
                if child is p.body:
                    tests.append((p.test, True))
                elif child is p.orelse:
                    tests.append((p.test, False))
            child, p = p, repo.parent(p)
        gfn = owner if owner is not None else pp
        tests.extend(cond_guards(CFG(gfn), repo.stmt_of(c)))
        ok = any(truth_under(t, pol, lambda e: ast.unparse(e) == xs) is True for t, pol in tests)
        ctx.inst('R11.2', mf.DEC + ':push_patch_decision', repo.norm(repo.stmt_of(c))[:140], ok,
                 'wraps only a non-empty diff (truthiness of %s tested)' % xs if ok else
                 '%s is wrapped into nested patch entries without a test that it is non-empty: a side that made no change ([]) becomes `patch(key, [])`' % xs, c)
    if n_wrap == 0:
        raise AnalysisError('push_patch_decision: no wrapping of diffs into patch entries found')
    # ---------------------------------------------------------------- R11.5 a nested patch is keyed by the base index of the item it was computed from
    for fid in ('nbdime.diffing.generic:diff_lists', 'nbdime.diffing.snakes:compute_diff_from_snakes'):
        fn = repo.func(fid)
        defs = local_defs(fn)
        first = param_names(fn)[0]
        for c in calls_in(fn, nested=False):
            if isinstance(c.func, ast.Attribute) and c.func.attr == 'patch' and dotted(c.func.value) in builder_names(fn) and len(c.args) == 2:
                key = c.args[0]
                sub = c.args[1]
                src = depends_on(fn, sub, lambda n: is_dynamic_differ_call(fn, n), defs)
                ok = False
                why = 'patch payload does not come from the recursive differ'
                if src is not None and src.args:
                    aexpr = src.args[0]
                    idx = None
                    cands = [aexpr] + [v for v, k, s2 in defs.get(dotted(aexpr) or '', [])]
                    for e in cands:
                        if isinstance(e, ast.Subscript) and dotted(e.value) == first:
                            idx = e.slice
                    ok = idx is not None and ast.unparse(idx) == ast.unparse(key)
                    why = 'the patch addresses the base item that was diffed (%s[%s])' % (first, ast.unparse(key)) if ok else \
                        'patch key %s is not the index of the base item the sub-diff was computed from (%s[%s])' % (
                            ast.unparse(key), first, ast.unparse(idx) if idx is not None else '?')
                ctx.inst('R11.5', fid, repo.norm(c), ok, why, c)
    # ---------------------------------------------------------------- R11.6 mapping entries are keyed by the key that was looked up
    for fid, fn in sorted(repo.functions.items()):
        if not fid.startswith('nbdime.diffing.') or fid not in reach:
            continue
        defs = None
        for c in calls_in(fn, nested=False):
            if not (isinstance(c.func, ast.Attribute) and c.func.attr in ('add', 'remove', 'replace', 'patch') and c.args):
                continue
            recv = dotted(c.func.value)
            defs = defs or local_defs(fn)
            is_map = recv == 'diffbuilder' or any(isinstance(v, ast.Call) and dotted(v.func) == 'MappingDiffBuilder' for v, k, s2 in defs.get(recv or '', []))
            if not is_map:
                continue
            key = c.args[0]
            if isinstance(key, ast.Constant):
                continue        # fixed field name (checked by R11.4)
            ok = False
            why = 'key expression is not a plain name'
            if isinstance(key, ast.Name):
                kinds = {k for v, k, s2 in defs.get(key.id, [])}
                is_param = key.id in param_names(fn)
                # the same name must subscript the operands (a[key] / b[key]) or be the iteration variable over the key sets
                ok = (kinds <= {'for'} and (kinds or is_param)) or (is_param and not kinds)
                why = 'the entry is keyed by the very key used to look the values up' if ok else \
                    'the entry key %r is a transformed value (%s), not the key of the mapping: the diff names a key the base may not have' % (
                        key.id, '; '.join(ast.unparse(v)[:40] for v, k, s2 in defs.get(key.id, []) if k != 'for'))
            ctx.inst('R11.6', fid, repo.norm(c), ok, why, c)

    # ---------------------------------------------------------------- R11.3
    for fid, need_type in (('nbdime.diffing.generic:diff_lists', False), ('nbdime.diffing.generic:diff_dicts', True)):
        fn = repo.func(fid)
        g = CFG(fn)
        rec = [c for c in calls_in(fn, nested=False) if is_dynamic_differ_call(fn, c)]
        if not rec:
            raise AnalysisError('%s: recursive diffit(...) call not found' % fid)
        for c in rec:
            guards = cond_guards(g, repo.stmt_of(c))
            # can the recursion be reached with an atomic value for which no differ was configured explicitly?
            def leaf(e):
                if isinstance(e, ast.Call) and isinstance(e.func, ast.Attribute) and e.func.attr == 'is_atomic':
                    return True
                if isinstance(e, ast.Compare) and len(e.ops) == 1 and isinstance(e.ops[0], ast.In) and \
                        isinstance(e.comparators[0], ast.Attribute) and e.comparators[0].attr == 'differs':
                    return False    # `subpath in config.differs`: a differ the user installed for exactly this path wins over atomicity
                return None
            atom = any((lambda v: v is not None and v is not pol)(tv_eval(t, leaf, local_defs(fn))) for t, pol in guards)
            same = any(truth_under(t, pol, lambda e: isinstance(e, ast.Compare) and isinstance(e.ops[0], ast.Is) and
                                   all(isinstance(x, ast.Call) and dotted(x.func) == 'type' for x in [e.left, e.comparators[0]])) is True
                       for t, pol in guards)
            ok = atom and (same or not need_type)
            ctx.inst('R11.3', fid, repo.norm(c), ok,
                     'recursion only into non-atomic%s values' % (' same-typed' if need_type else '') if ok else
                     'the differ can emit a patch into an atomic value / a value whose type changed', c)
    ia = repo.func('nbdime.diffing.config:DiffConfig.is_atomic')
    rets = [n for n in walk_no_nested(ia) if isinstance(n, ast.Return)]
    fallback = [r for r in rets if isinstance(r.value, ast.UnaryOp) and isinstance(r.value.op, ast.Not) and isinstance(r.value.operand, ast.Call)
                and dotted(r.value.operand.func) == 'isinstance']
    ok = False
    if fallback:
        tp = fallback[0].value.operand.args[1]
        ok = isinstance(tp, ast.Tuple) and {dotted(e) for e in tp.elts} == {'str', 'list', 'dict'}
    ctx.inst('R11.3', 'nbdime.diffing.config:DiffConfig.is_atomic', repo.norm(fallback[0]) if fallback else '<no fallback>', ok,
             'everything but str/list/dict is atomic' if ok else 'atomicity fallback changed: patches may descend into scalars', ia)
    # ---------------------------------------------------------------- R11.4
    ds = repo.json('nbdime/diff_format.schema.json')
    oneof = sorted(r['$ref'].rsplit('_', 1)[1] for r in ds['definitions']['diff']['oneOf'])
    emit = sorted(set(mf.builder_ops(repo, 'SequenceDiffBuilder')) | set(mf.builder_ops(repo, 'MappingDiffBuilder')))
    ok = emit == oneof
    ctx.inst('R11.4', 'nbdime/diff_format.schema.json', 'builder ops %s vs schema oneOf %s' % (emit, oneof), ok,
             'identical' if ok else 'ops the builders accept and the schema lists differ', None)
    for cls in ('SequenceDiffBuilder', 'MappingDiffBuilder'):
        ap = repo.func('nbdime.diff_format:%s.append' % cls)
        ok = any(isinstance(n, ast.Assert) and isinstance(n.test, ast.Compare) and isinstance(n.test.ops[0], ast.In) and
                 (dotted(n.test.comparators[0]) or '').endswith('.OPS') for n in walk_no_nested(ap))
        ctx.inst('R11.4', 'nbdime.diff_format:%s.append' % cls, 'assert entry.op in %s.OPS' % cls, ok,
                 'only ops of this container kind enter a diff' if ok else 'builder no longer restricts ops to its container kind', ap)
    so = repo.func('nbdime.diffing.notebooks:diff_single_outputs')
    pops = [const_val(c.args[0]) for c in calls_in(so, nested=False) if isinstance(c.func, ast.Attribute) and c.func.attr == 'pop' and c.args]
    patches = [const_val(c.args[0]) for c in calls_in(so, nested=False) if isinstance(c.func, ast.Attribute) and c.func.attr == 'patch' and
               dotted(c.func.value) in builder_names(so) and c.args]
    appends = [c for c in calls_in(so, nested=False) if isinstance(c.func, ast.Attribute) and c.func.attr == 'append' and dotted(c.func.value) in builder_names(so)]
    # ... or the operands are built without the key: {k: v for k, v in x.items() if k != '<key>'}
    n_comp = 0
    for dc in walk_no_nested(so):
        if isinstance(dc, ast.DictComp) and len(dc.generators) == 1 and isinstance(dc.key, ast.Name):
            for cond in dc.generators[0].ifs:
                if isinstance(cond, ast.Compare) and len(cond.ops) == 1 and isinstance(cond.ops[0], ast.NotEq) and isinstance(cond.left, ast.Name) and \
                        cond.left.id == dc.key.id and isinstance(const_val(cond.comparators[0]), str):
                    pops.append(const_val(cond.comparators[0]))
                    n_comp += 1
    ok = len(set(pops)) == 1 and set(patches) == set(pops) and bool(appends) and len(pops) >= 2
    ctx.inst('R11.4', 'nbdime.diffing.notebooks:diff_single_outputs', 'key left out of both operands %s; di.patch(%s); entries re-appended through the mapping builder' % (sorted(set(pops)), patches), ok,
             'the key patched separately was removed from both operands of the other diff, so it cannot be targeted twice' if ok else
             'the separately patched key can also appear in the re-appended entries (duplicate key) or entries bypass the builder', so)


def _ok_result(repo, cg, fn, e, defs, differset, seen):
    if isinstance(e, (ast.List, ast.Tuple)) and not e.elts:
        return True
    if isinstance(e, ast.Call):
        if isinstance(e.func, ast.Attribute) and e.func.attr == 'validated':
            return True
        ts = cg.resolve(e.func, fn)
        fts = [t[1] for t in ts if t[0] == 'func']
        if fts and all(t in differset for t in fts):
            return True
        if is_dynamic_differ_call(fn, e):
            return True
        if any(t[0] == 'ext' and t[1].startswith('nbdime') for t in ts):
            return False
        return False
    if isinstance(e, ast.Name) and e.id in defs and e.id not in seen:
        seen.add(e.id)
        vals = [v for v, k, s in defs[e.id] if k in ('assign',)]
        muts = [v for v, k, s in defs[e.id] if k == 'mutate']
        if muts and not all(isinstance(v, (ast.List,)) and not v.elts for v in vals):
            return False
        if muts:
            return False
        return bool(vals) and all(_ok_result(repo, cg, fn, v, defs, differset, seen) for v in vals)
    return False


def add_or_replace_by_membership(ctx, rule):
    """Where code chooses between `add K` and `replace K` for the same key K, the choice must be made by membership of K in
    the base object: an addition has to name an absent key, a replacement a present one.  A truthiness/`.get()` test sends a
    key that is present with a falsy value ({} / '' / 0 / None) down the `add` arm."""
    repo, cg = ctx.repo, ctx.cg
    n = 0
    for fid, fn in sorted(repo.functions.items()):
        if not fid.startswith('nbdime.'):
            continue
        for node in walk_no_nested(fn):
            if not (isinstance(node, ast.If) and node.orelse):
                continue
            def first_args(block, opname):
                out = []
                for st in block:
                    for c in calls_in(st):
                        if isinstance(c.func, ast.Name) and c.func.id == opname and c.args:
                            out.append(ast.unparse(c.args[0]))
                return out
            for a_blk, r_blk, add_when in ((node.body, node.orelse, True), (node.orelse, node.body, False)):
                adds, reps = first_args(a_blk, 'op_add'), first_args(r_blk, 'op_replace')
                # this If must be the one that separates the two: no replace of K on the add side, no add of K on the replace side
                common = [k for k in adds if k in reps and k not in first_args(a_blk, 'op_replace') and k not in first_args(r_blk, 'op_add')]
                if not common:
                    continue
                k = common[0]
                n += 1
                t = node.test
                ok = isinstance(t, ast.Compare) and len(t.ops) == 1 and ast.unparse(t.left) == k and \
                    ((isinstance(t.ops[0], ast.NotIn) and add_when) or (isinstance(t.ops[0], ast.In) and not add_when))
                ctx.inst(rule, fid, 'if %s: ... add/replace %s' % (repo.norm(t), k), ok,
                         'add is chosen exactly when the key is absent' if ok else
                         'the choice between add and replace of %s is not made by `%s in <base>`: a key present with a falsy value gets an `add` entry '
                         '(an addition naming a present key; applying it raises)' % (k, k), node)
    return n


def run(ctx):
    ctx.rule('R11.9', 'add vs replace of one key is decided by membership of the key in the base object', floor=2)
    ctx.rule('R11.7', 'the differs and diff utilities never test a diff key by truthiness', floor=8)
    _run_base(ctx)
    from ..keys import key_truthiness
    key_truthiness(ctx, 'R11.7', ['nbdime.diffing.', 'nbdime.diff_format', 'nbdime.diff_utils', 'nbdime.patching'], 'an entry at index 0 / key "" is dropped or mis-ordered')
    add_or_replace_by_membership(ctx, 'R11.9')


from .extra import with_extra  # noqa: E402
run = with_extra('C11', run)
