"""C03 -- three-way merge always completes: every finite dispatch on the merge path is total over
the vocabulary its producers can emit (proof by exhaustion over the tables, not over notebooks)."""
import ast
import itertools

from ..core import AnalysisError, dotted, walk_no_nested, FuncTypes
from ..cfg import CFG, cond_guards
from ..util import calls_in, local_defs, const_val, NOVAL, if_chain, ends_abruptly, names_in, compare_eq_const, depends_on, last_attr
from ..consteval import Evaluator, Abstract, AbstractEntry, UNKNOWN, reachable_arms
from .. import mergefacts as mf
from ..schema import NbSchema

ASSUMPTIONS = [
    'make_merge_chunks yields per side at most one addrange followed by at most one patch/removerange (its documented contract); '
    'index arithmetic of chunking is not decided',
    'reachability of value-dependent sanity asserts (e.g. `assert p0[0].length == 1`) and of exceptions inside patch() is not decided',
    'valid notebooks follow the nbformat v4.5 schema types read from the installed nbformat (string-typed fields are diffed as string patches)',
]

GEN = mf.GEN
DEC = mf.DEC
STR = mf.STR


def always_failing_assert(st):
    if not isinstance(st, ast.Assert):
        return False
    t = st.test
    if isinstance(t, ast.Constant) and not t.value:
        return True
    if isinstance(t, ast.Call):
        d = dotted(t.func) or ''
        if d.split('.')[-1] in ('error', 'warning', 'critical', 'exception', 'info', 'debug'):
            return True     # logging calls return None
    return False


class BlockChecker:
    """Walk a block under a constant environment; report aborting arms and use-before-definition."""

    def __init__(self, ev, tracked, track_env=False, preconditions=None):
        self.preconditions = preconditions or {}     # callee name -> FunctionDef whose LEADING asserts are evaluated with the abstract arguments of each call
        self.track_env = track_env
        self.ev = ev
        self.tracked = tracked
        self.problems = []      # (kind, node, text)
        self.visited_arms = 0

    def block(self, stmts, assigned):
        assigned = set(assigned)
        for st in stmts:
            if isinstance(st, ast.If):
                arms = reachable_arms(self.ev, st)
                results = []
                for idx, body in arms:
                    self.visited_arms += 1
                    if idx == 'else' and not body:
                        results.append(set(assigned))
                        continue
                    r = self.block(body, assigned)
                    if r is not None:
                        results.append(r)
                if results:
                    assigned = set.intersection(*results)
                else:
                    return None          # every reachable arm aborts
                continue
            # uses
            for n in ast.walk(st):
                if isinstance(n, ast.Name) and isinstance(n.ctx, ast.Load) and n.id in self.tracked and n.id not in assigned:
                    self.problems.append(('unbound', n, 'name %r may be used before assignment' % n.id))
            for c in [x for x in ast.walk(st) if isinstance(x, ast.Call) and isinstance(x.func, ast.Name) and x.func.id in self.preconditions]:
                callee = self.preconditions[c.func.id]
                params = [a.arg for a in callee.args.args]
                sub = Evaluator(env={p: self.ev.ev(a) for p, a in zip(params, c.args)}, consts=self.ev.consts, calls=self.ev.calls)
                for a in callee.body:
                    if isinstance(a, ast.Expr) and isinstance(a.value, ast.Constant):
                        continue
                    if not isinstance(a, ast.Assert):
                        break
                    if sub.truth(sub.ev(a.test)) is False:
                        self.problems.append(('abort', st, 'the call of %s violates its own precondition `assert %s`' % (c.func.id, ast.unparse(a.test)[:60])))
                        return None
            if isinstance(st, ast.Return):
                return None             # block ends normally here
            if isinstance(st, ast.Raise):
                self.problems.append(('abort', st, 'raise reachable'))
                return None
            if isinstance(st, ast.Assert):
                if always_failing_assert(st):
                    self.problems.append(('abort', st, 'always-failing assert reachable (%s)' % ast.unparse(st.test)[:50]))
                    return None
                v = self.ev.truth(self.ev.ev(st.test))
                if v is False:
                    self.problems.append(('abort', st, 'assert %s is false for this combination' % ast.unparse(st.test)[:50]))
                    return None
            for n in ast.walk(st):
                if isinstance(n, ast.Name) and isinstance(n.ctx, ast.Store):
                    assigned.add(n.id)
            if self.track_env and isinstance(st, ast.Assign) and len(st.targets) == 1 and isinstance(st.targets[0], ast.Name):
                self.ev.env[st.targets[0].id] = self.ev.ev(st.value)
        return assigned


def chunk_switch_model(repo, cg):
    """The chunk-type switch of _merge_lists as a finite model: for each of the 36 (local, remote) chunk types an evaluator whose
    environment binds the chunk diffs and their a/p parts to abstract values (sets of op letters)."""
    consts = mf.diffop_consts(repo)
    letters = mf.chunk_letters(repo)
    seq_ops = mf.builder_ops(repo, 'SequenceDiffBuilder')
    map_ops = mf.builder_ops(repo, 'MappingDiffBuilder')
    a_letters = sorted({l for op, (w, l) in letters.items() if op in seq_ops and w == 'a'})
    p_letters = sorted({l for op, (w, l) in letters.items() if op in seq_ops and w == 'p'})
    letter_ops = {l: op for op, (w, l) in letters.items() if op in seq_ops}
    if a_letters != ['A'] or p_letters != ['P', 'R']:
        raise AnalysisError('sequence chunk letters changed: %s %s' % (a_letters, p_letters))

    # ---------------------------------------------------------------- R03.1
    ml = repo.func(GEN + ':_merge_lists')
    loops = [n for n in walk_no_nested(ml) if isinstance(n, ast.For) and isinstance(n.target, ast.Tuple) and len(n.target.elts) == 4]
    if len(loops) != 1:
        raise AnalysisError('_merge_lists: chunk loop not found')
    loop = loops[0]
    d_local, d_remote = loop.target.elts[2].id, loop.target.elts[3].id
    unpack = {}
    for st in loop.body:
        if isinstance(st, ast.Assign) and isinstance(st.targets[0], ast.Tuple) and isinstance(st.value, ast.Call) and \
                ('func', 'nbdime.merging.chunks:chunk_typename') in cg.resolve(st.value.func, ml):
            unpack[dotted(st.value.args[0])] = [e.id for e in st.targets[0].elts]
    if set(unpack) != {d_local, d_remote}:
        raise AnalysisError('_merge_lists: chunk_typename unpacking not found for both sides')
    bigifs = [s for s in loop.body if isinstance(s, ast.If)]
    if not bigifs:
        raise AnalysisError('_merge_lists: chunk switch not found')
    bigif = max(bigifs, key=lambda s: len(if_chain(s)[0]))
    arms, orelse = if_chain(bigif)
    pre = loop.body[:loop.body.index(bigif)]
    stored_before = set()
    for st in ml.body:
        if st is loop:
            break
        for n in ast.walk(st):
            if isinstance(n, ast.Name) and isinstance(n.ctx, ast.Store):
                stored_before.add(n.id)
    for st in pre:
        for n in ast.walk(st):
            if isinstance(n, ast.Name) and isinstance(n.ctx, ast.Store):
                stored_before.add(n.id)
    stored_before |= {e.id for e in loop.target.elts if isinstance(e, ast.Name)} | {a.arg for a in ml.args.args}
    tracked = {n.id for n in ast.walk(bigif) if isinstance(n, ast.Name) and isinstance(n.ctx, ast.Store)} - stored_before
    names = [''] + a_letters
    pnames = [''] + p_letters
    combos = list(itertools.product(names, pnames, names, pnames))
    arm_hits = {}

    def make_ev(la, lp, ra, rp):
        env = {unpack[d_local][0]: la, unpack[d_local][1]: lp, unpack[d_remote][0]: ra, unpack[d_remote][1]: rp,
               d_local: Abstract(la + lp, letter_ops), d_remote: Abstract(ra + rp, letter_ops)}
        ev = Evaluator(env, consts)
        for st in pre:
            if isinstance(st, ast.Assign) and len(st.targets) == 1 and isinstance(st.targets[0], ast.Name):
                nm = st.targets[0].id
                v = st.value
                if isinstance(v, ast.ListComp) and len(v.generators) == 1 and dotted(v.generators[0].iter) in (d_local, d_remote) \
                        and len(v.generators[0].ifs) == 1 and isinstance(v.generators[0].ifs[0], ast.Compare):
                    side = dotted(v.generators[0].iter)
                    c = v.generators[0].ifs[0]
                    is_add = consts.get(dotted(c.comparators[0])) == letter_ops['A']
                    eqop = isinstance(c.ops[0], ast.Eq)
                    a_part = (la if side == d_local else ra)
                    p_part = (lp if side == d_local else rp)
                    ev.env[nm] = Abstract(a_part if (is_add == eqop) else p_part, letter_ops)
                else:
                    ev.env[nm] = ev.ev(v)
        return ev
    return dict(consts=consts, letters=letters, seq_ops=seq_ops, map_ops=map_ops, letter_ops=letter_ops, ml=ml, loop=loop, bigif=bigif, arms=arms,
                pre=pre, tracked=tracked, combos=combos, make_ev=make_ev, d_local=d_local, d_remote=d_remote, unpack=unpack)


def _run_base(ctx):
    repo, cg = ctx.repo, ctx.cg
    ctx.rule('R03.1', 'chunk-type switch of _merge_lists is exhaustive over the 36 (local,remote) chunk types: no aborting arm reachable, '
             'no use-before-assignment on any reachable path', floor=36, floor_what='36 chunk-type pairs')
    ctx.rule('R03.2', 'dict-op table of _merge_dicts is exhaustive over MappingDiffBuilder.OPS^2 + parent_deleted pairings', floor=18)
    ctx.rule('R03.3', 'every action the decision builder can emit has a non-raising arm in resolve_action', floor=7)
    ctx.rule('R03.4', 'every strategy the strategy table can hold hits only non-raising arms where it lands; "fail" only on constant/string-typed paths',
             floor=40, floor_what='(path, strategy, resolver) triples')
    ctx.rule('R03.5', 'the internal parent_deleted pseudo-op stays internal (one producer, first arms of the consumer, sentinel tested before patch)', floor=4)
    ctx.rule('R03.7', 'index arithmetic of the concurrent-insert splitter is consistent across its arms (wrong offsets index past the remote list)', floor=4)
    ctx.rule('R03.8', 'the built-in renderer indexes its line lists only behind an emptiness test', floor=3)
    ctx.rule('R03.9', 'the per-field dispatch that merges two similar inserted cells has an arm for every field the cell schema defines', floor=5)
    ctx.rule('R03.6', 'renderer selection is total (unconditional built-in fallback) and every renderer returns a 2-tuple on every path', floor=5)

    _m = chunk_switch_model(repo, cg)
    consts, map_ops, bigif, arms, tracked, combos = _m['consts'], _m['map_ops'], _m['bigif'], _m['arms'], _m['tracked'], _m['combos']
    arm_hits = {}
    for la, lp, ra, rp in combos:
        ev = _m['make_ev'](la, lp, ra, rp)
        bc = BlockChecker(ev, tracked, preconditions={'_merge_concurrent_inserts': repo.func(GEN + ':_merge_concurrent_inserts')})
        reach = reachable_arms(ev, bigif)
        for idx, body in reach:
            arm_hits.setdefault(idx, []).append('%s%s/%s%s' % (la, lp, ra, rp))
        bc.block([bigif], set())
        ct = '%s%s/%s%s' % (la, lp, ra, rp)
        ok = not bc.problems
        ctx.inst('R03.1', GEN + ':_merge_lists', 'chunktype %r -> arms %s' % (ct, [i for i, _ in reach]), ok,
                 'handled: every reachable arm completes and all names are bound' if ok else
                 '; '.join('%s at line %d' % (t, getattr(n, 'lineno', 0)) for k, n, t in bc.problems[:2]) +
                 ' -- a merge producing this chunk type aborts', bc.problems[0][1] if bc.problems else bigif)
    ctx.extra['chunk_switch_arms'] = {str(k): v for k, v in arm_hits.items()}
    ctx.extra['chunk_switch_n_arms'] = len(arms)

    # ---------------------------------------------------------------- R03.2
    md = repo.func(GEN + ':_merge_dicts')
    chain = None
    for n in walk_no_nested(md):
        if isinstance(n, ast.If) and 'parent_deleted' in [c.value for c in ast.walk(n.test) if isinstance(c, ast.Constant)]:
            chain = n
            break
    if chain is None:
        raise AnalysisError('_merge_dicts: op table chain not found')
    # names of the two entries: from the first test  `ld.op == "parent_deleted"`
    t0 = chain.test
    lname = dotted(t0.left.value) if isinstance(t0, ast.Compare) and isinstance(t0.left, ast.Attribute) else None
    arms2, _ = if_chain(chain)
    t1 = arms2[1][0]
    rname = dotted(t1.left.value) if isinstance(t1, ast.Compare) and isinstance(t1.left, ast.Attribute) else None
    if not lname or not rname:
        raise AnalysisError('_merge_dicts: cannot identify local/remote entry names')
    pairs = [(a, b) for a in map_ops for b in map_ops] + [('parent_deleted', consts['DiffOp.PATCH']), (consts['DiffOp.PATCH'], 'parent_deleted')]
    for a, b in pairs:
        ev = Evaluator({lname: AbstractEntry(a), rname: AbstractEntry(b)}, consts)
        bc = BlockChecker(ev, set())
        reach = reachable_arms(ev, chain)
        bc.block([chain], set())
        ok = not bc.problems
        ctx.inst('R03.2', GEN + ':_merge_dicts', 'ops (%s, %s) -> arms %s' % (a, b, [i for i, _ in reach]), ok,
                 'handled' if ok else '; '.join(t for k, n, t in bc.problems[:2]) + ' -- this op pairing aborts the merge',
                 bc.problems[0][1] if bc.problems else chain)

    # ---------------------------------------------------------------- R03.3
    emitted = mf.emitted_actions(repo, cg)
    handled, else_raises = mf.handled_actions(repo)
    for a in sorted(emitted):
        ok = a in handled or not else_raises
        w, n = emitted[a][0]
        ctx.inst('R03.3', w, 'action %r (emitted at %d site(s))' % (a, len(emitted[a])), ok,
                 'resolve_action has an arm for it' if ok else
                 'resolve_action raises NotImplementedError for an action the builder emits', n)
    ctx.extra['actions_emitted'] = sorted(emitted)
    ctx.extra['actions_handled'] = sorted(handled)

    # ---------------------------------------------------------------- R03.4
    table, transients = strategy_table(ctx)
    ctx.extra['strategy_table'] = {k: sorted(str(x) for x in v) for k, v in sorted(table.items())}
    sch = NbSchema(5)
    tr = repo.func(DEC + ':MergeDecisionBuilder.tryresolve')
    tchains = [s for s in walk_no_nested(tr) if isinstance(s, ast.If) and compare_eq_const(s.test) and
               compare_eq_const(s.test)[0] == 'strategy']
    if not tchains:
        raise AnalysisError('tryresolve strategy chain not found')
    tchain = max(tchains, key=lambda s: len(if_chain(s)[0]))
    resolvers = {
        'object': STR + ':resolve_conflicted_decisions_dict',
        'array': STR + ':resolve_conflicted_decisions_list',
        'string': STR + ':resolve_conflicted_decisions_strings',
    }
    ms = repo.func(GEN + ':_merge_strings')
    for path, strategies in sorted(table.items()):
        types = sch.types_at(path) if path != '/' else {'object'}
        for s in sorted(x for x in strategies if isinstance(x, str)):
            # (a) as an item strategy in tryresolve
            ev = Evaluator({'strategy': s})
            bc = BlockChecker(ev, set())
            bc.block([tchain], set())
            aborts = [p for p in bc.problems if p[0] == 'abort']
            if aborts:
                only_str = bool(types) and types <= {'string'}
                const = sch.is_const_at(path)
                ok = only_str or const
                ctx.inst('R03.4', DEC + ':MergeDecisionBuilder.tryresolve', 'path %s strategy %r -> raising arm' % (path, s), ok,
                         ('schema makes a two-sided value conflict at this path impossible (%s)' %
                          ('constant' if const else 'string-typed: diffed as a string patch, merged by _merge_strings, never by tryresolve')) if ok else
                         'strategy %r aborts the merge when both sides change %s (schema types %s)' % (s, path, sorted(types)),
                         aborts[0][1])
            else:
                ctx.inst('R03.4', DEC + ':MergeDecisionBuilder.tryresolve', 'path %s strategy %r' % (path, s), True,
                         'resolved or logged, never raises', tchain)
            # (b) the container resolver selected by the schema type of the value at the path
            for ty in sorted(types & set(resolvers)):
                rf = repo.func(resolvers[ty])
                chains = [st for st in rf.body if isinstance(st, ast.If)]
                ev = Evaluator({'strategy': s})
                bc = BlockChecker(ev, set())
                for st in rf.body:
                    if isinstance(st, ast.If):
                        bc.block([st], set())
                ab = [p for p in bc.problems if p[0] == 'abort']
                ctx.inst('R03.4', resolvers[ty], 'path %s (%s) strategy %r' % (path, ty, s), not ab,
                         'no aborting arm for this strategy' if not ab else ab[0][2], ab[0][1] if ab else rf)
                # a strategy the container resolver has no arm of its own for is handed on to the generic resolver
                own = {c.value for st in rf.body if isinstance(st, ast.If) for t, b_, n_ in if_chain(st)[0] for c in ast.walk(t) if isinstance(c, ast.Constant)}
                rgen = repo.func(STR + ':resolve_strategy_generic')
                hands_on = any(('func', STR + ':resolve_strategy_generic') in cg.resolve(c.func, rf) for c in calls_in(rf, nested=False))
                if s not in own and hands_on and not ab:
                    ev = Evaluator({'strategy': s})
                    bc = BlockChecker(ev, set())
                    for st in rgen.body:
                        if isinstance(st, ast.If):
                            bc.block([st], set())
                    ab2 = [p_ for p_ in bc.problems if p_[0] == 'abort']
                    ctx.inst('R03.4', STR + ':resolve_strategy_generic', 'path %s (%s) strategy %r, handed on by %s' % (path, ty, s, resolvers[ty].split(':')[1]), not ab2,
                             'no aborting arm' if not ab2 else 'a conflict at %s (a %s, merged by the %s resolver) reaches an arm that raises: %s -- the merge aborts for valid notebooks '
                             '(both sides convert one cell to different types)' % (path, ty, ty, ab2[0][2]), ab2[0][1] if ab2 else rgen, nontrivial=False)
                if ty == 'string':
                    ev = Evaluator({'strategy': s})
                    bc = BlockChecker(ev, set())
                    for st in walk_no_nested(ms):
                        if isinstance(st, ast.If) and compare_eq_const(st.test) and compare_eq_const(st.test)[0] == 'strategy':
                            bc.block([st], set())
                            break
                    ab = [p for p in bc.problems if p[0] == 'abort']
                    ctx.inst('R03.4', GEN + ':_merge_strings', 'path %s strategy %r' % (path, s), not ab,
                             'string merge arm completes' if not ab else ab[0][2], ab[0][1] if ab else ms)
    # root strategy lands in resolve_strategy_generic
    rg = repo.func(STR + ':resolve_strategy_generic')
    for s in sorted(x for x in table.get('/', []) if isinstance(x, str)):
        ev = Evaluator({'strategy': s})
        bc = BlockChecker(ev, set())
        for st in rg.body:
            if isinstance(st, ast.If):
                bc.block([st], set())
        ab = [p for p in bc.problems if p[0] == 'abort']
        ctx.inst('R03.4', STR + ':resolve_strategy_generic', 'root strategy %r' % s, not ab,
                 'no aborting arm' if not ab else ab[0][2], ab[0][1] if ab else rg)

    # ---------------------------------------------------------------- R03.5
    prod = GEN + ':create_parent_deletion_counter_diff'
    _pf = repo.func(prod)
    # (the builder may have been moved to a sibling module and imported back: compare by the function it is, not by where it lives)
    prod = next((f for f, nd in repo.functions.items() if nd is _pf), prod)
    occ = []
    for m in repo.modules.values():
        for n in ast.walk(m.tree):
            if isinstance(n, ast.Constant) and n.value == 'parent_deleted':
                occ.append(n)
    for n in occ:
        w = repo.where(n)
        par = repo.parent(n)
        if isinstance(par, ast.keyword) or isinstance(par, ast.Call):
            ok = w == prod
            ctx.inst('R03.5', w, 'constructs op="parent_deleted"', ok,
                     'the pseudo-op is produced only by the counter-diff builder' if ok else
                     'a second producer of the internal pseudo-op: it can reach code that only knows the six public ops', n)
        elif isinstance(par, ast.Compare):
            ok = w == GEN + ':_merge_dicts'
            if ok:
                st = repo.stmt_of(n)
                ok = st is chain or st is arms2[1][2]
            ctx.inst('R03.5', w, repo.norm(par), ok,
                     'tested as one of the first two arms of the dict table (no later arm can see it)' if ok else
                     'parent_deleted is tested somewhere else than the first two arms of _merge_dicts', n)
        else:
            ctx.inst('R03.5', w, repo.norm(par)[:80], w == prod, 'occurrence of the pseudo-op name', n)
    # producer guard and consumer agreement
    pf = repo.func(prod)
    cs = repo.module_assign(GEN, 'countering_strategies')
    counter = tuple(const_val(e) for e in cs.elts) if isinstance(cs, (ast.Tuple, ast.List)) else ()
    g = CFG(pf)
    pd = [n for n in occ if repo.where(n) == prod]
    ok = bool(pd)
    for n in pd:
        guards = cond_guards(g, repo.stmt_of(n))
        ok = ok and any(pol and isinstance(t, ast.Compare) and isinstance(t.ops[0], ast.In) and
                        dotted(t.comparators[0]) == 'countering_strategies' for t, pol in guards)
    # _merge_strings delegates exactly those strategies to the ParentDeleted-aware resolver
    deleg = []
    for st in walk_no_nested(ms):
        if isinstance(st, ast.If):
            for test, body, node in if_chain(st)[0]:
                r = compare_eq_const(test)
                if r and r[0] == 'strategy' and r[2] and any(
                        ('func', STR + ':resolve_strategy_inline_source') in cg.resolve(c.func, ms) for b in body for c in calls_in(b)):
                    deleg.extend(r[1])
    ok2 = set(counter) <= set(deleg) and bool(counter)
    ctx.inst('R03.5', prod, 'parent_deleted emitted only under `s in countering_strategies` = %s; _merge_strings delegates %s' % (list(counter), deleg),
             ok and ok2, 'every path that gets the pseudo-op is string-merged by the sentinel-aware resolver' if ok and ok2 else
             'a countering strategy is not delegated to the ParentDeleted-aware resolver (or the guard is gone)', pf)
    ris = repo.func(STR + ':resolve_strategy_inline_source')
    g = CFG(ris)
    tests = [s for s in g.stmts() if isinstance(s, ast.If) and isinstance(s.test, ast.Compare) and isinstance(s.test.ops[0], ast.Is)
             and dotted(s.test.comparators[0]) == 'ParentDeleted']
    pcalls = [c for c in calls_in(ris, nested=False) if ('func', 'nbdime.patching:patch') in cg.resolve(c.func, ris)]
    ok = len(tests) == 2 and bool(pcalls) and all(
        g.dominated_by(repo.stmt_of(c), [g.branch(tests[0], False)]) and g.dominated_by(repo.stmt_of(c), [g.branch(tests[1], False)])
        for c in pcalls)
    ctx.inst('R03.5', STR + ':resolve_strategy_inline_source', 'patch(base, <diff>) only after both `is ParentDeleted` tests failed', ok,
             'the sentinel never reaches patch()' if ok else 'patch() can be called with the ParentDeleted sentinel', ris)

    # ---------------------------------------------------------------- R03.6
    PPM = 'nbdime.prettyprint'
    mr = repo.func(PPM + ':merge_render')
    from ..util import final_fallback
    lastif = [s for s in mr.body if isinstance(s, ast.If)][-1]
    a_, else_ = if_chain(lastif)
    ok = final_fallback(repo, cg, mr, PPM + ':builtin_merge_render')
    ctx.inst('R03.6', PPM + ':merge_render', 'final else -> builtin_merge_render', ok,
             'a renderer is always available' if ok else 'no unconditional built-in fallback: merge fails where git/diff3 are absent', lastif)
    for test, body, node in a_:
        calls = [c for c in ast.walk(test) if isinstance(c, ast.Call) and dotted(c.func) == 'which']
        for c in calls:
            tool = const_val(c.args[0]) if c.args else None
            used = [x for b in body for x in calls_in(b)]
            cmdvars = []
            for u in used:
                for t in cg.resolve(u.func, mr):
                    if t[0] == 'func':
                        f2 = repo.functions[t[1]]
                        for v in [n for n in walk_no_nested(f2) if isinstance(n, ast.Assign)]:
                            if isinstance(v.value, ast.Name) and v.value.id.endswith('_cmd'):
                                cv = repo.mod_of(f2).assigns.get(v.value.id)
                                if cv:
                                    cmdvars.append(const_val(cv[-1]))
            ok = bool(cmdvars) and all(isinstance(s, str) and s.split()[0] == tool for s in cmdvars)
            ctx.inst('R03.6', PPM + ':merge_render', 'which(%r) guards command %s' % (tool, cmdvars), ok,
                     'the executable tested is the one launched' if ok else
                     'availability test and launched executable differ: Popen raises where the tool is absent', c)
    for name in ('merge_render', 'merge_render_with_git', 'merge_render_with_diff3', 'builtin_merge_render', 'external_merge_render'):
        fn = repo.func('%s:%s' % (PPM, name))
        g = CFG(fn)
        rets = [n for n in walk_no_nested(fn) if isinstance(n, ast.Return)]
        bad = []
        for r in rets:
            v = r.value
            if isinstance(v, ast.Tuple) and len(v.elts) == 2:
                continue
            if isinstance(v, ast.Call) and any(t[0] == 'func' and t[1].startswith(PPM + ':') and 'merge_render' in t[1]
                                               for t in cg.resolve(v.func, fn)):
                continue
            bad.append(r)
        fall = [n for n in g.nodes if g.EXIT in g.succ.get(n, ()) and not isinstance(n, ast.Return) and n in g.reachable(g.ENTRY)
                and not str(n).startswith('finally')]
        ok = not bad and not fall
        ctx.inst('R03.6', '%s:%s' % (PPM, name), '%d return(s), all (text, status) pairs' % len(rets), ok,
                 'callers can always unpack two values' if ok else
                 ('a return is not a (text, status) pair: %s' % repo.norm(bad[0]) if bad else 'a path returns None'),
                 bad[0] if bad else fn)
    # ---------------------------------------------------------------- R03.7 index arithmetic of the concurrent-insert splitter
    from .c09 import split_addrange_algebra
    split_addrange_algebra(ctx, 'R03.7')
    # ---------------------------------------------------------------- R03.8 constant indices into possibly-empty line lists are guarded
    from ..util import truth_under
    for name in ('format_merge_render_lines', 'merge_render_with_git', 'builtin_merge_render'):
        fn = repo.func('%s:%s' % (PPM, name))
        g = CFG(fn)
        params = {a.arg for a in fn.args.args}
        defs = local_defs(fn)
        for n in walk_no_nested(fn):
            if isinstance(n, ast.Subscript) and isinstance(n.value, ast.Name) and isinstance(n.slice, (ast.Constant, ast.UnaryOp)) and \
                    isinstance(const_val(n.slice) if isinstance(n.slice, ast.Constant) else -1, int):
                var = n.value.id
                def lines_name(nm, _d=0):
                    if nm in params:
                        return True
                    for v, k, s2 in defs.get(nm, []):
                        if isinstance(v, ast.Call) and isinstance(v.func, ast.Attribute) and v.func.attr == 'splitlines':
                            return True
                        # loop variable ranging over a literal tuple/list of line lists: for side in (local, remote)
                        if k == 'for' and isinstance(v, (ast.Tuple, ast.List)) and _d < 3 and \
                                any(isinstance(e, ast.Name) and lines_name(e.id, _d + 1) for e in v.elts):
                            return True
                        if k == 'assign' and isinstance(v, ast.Name) and _d < 3 and lines_name(v.id, _d + 1):
                            return True
                    return False
                is_lines = lines_name(var)
                if not is_lines or var in ('cmd',):
                    continue
                st = repo.stmt_of(n)
                guards = cond_guards(g, st)
                ok = any(truth_under(t, pol, lambda e: isinstance(e, ast.Name) and e.id == var) is True for t, pol in guards)
                # earlier conjunct of the same `and`
                p = repo.parent(n)
                while p is not None and not isinstance(p, ast.stmt):
                    if isinstance(p, ast.BoolOp) and isinstance(p.op, ast.And):
                        for v in p.values:
                            if any(x is n for x in ast.walk(v)):
                                break
                            if isinstance(v, ast.Name) and v.id == var:
                                ok = True
                    p = repo.parent(p)
                ctx.inst('R03.8', '%s:%s' % (PPM, name), repo.norm(n), ok, 'index into %s only after it was tested non-empty' % var if ok else
                         '%s can be an empty list (a side whose text is empty; a tool that printed nothing because it refused the input as binary): constant index raises IndexError and aborts the merge' % var, n)
    # ---------------------------------------------------------------- R03.9 field dispatch of merged similar inserts is total over the cell schema
    rir = repo.func(STR + ':resolve_strategy_inline_recurse')
    kchain = None
    for n in walk_no_nested(rir):
        if isinstance(n, ast.If) and compare_eq_const(n.test) and compare_eq_const(n.test)[0] == 'k':
            kchain = n
            break
    if kchain is None:
        raise AnalysisError('resolve_strategy_inline_recurse: key dispatch not found')
    karms, kelse = if_chain(kchain)
    handled_keys = set()
    for test, body, node in karms:
        r = compare_eq_const(test)
        if r and r[2]:
            handled_keys |= set(r[1])
    raises = bool(kelse) and isinstance(kelse[-1], ast.Raise)
    cell_keys = set()
    for cname, cdef in sch.cell_defs().items():
        cell_keys |= set(cdef.get('properties', {}))
    # cell_type is asserted equal before the dispatch
    asserted = {const_val(x.slice) for st in walk_no_nested(rir) if isinstance(st, ast.Assert) for x in ast.walk(st.test) if isinstance(x, ast.Subscript)}
    for k in sorted(cell_keys - asserted):
        ok = k in handled_keys or not raises
        ctx.inst('R03.9', STR + ':resolve_strategy_inline_recurse', 'cell field %r' % k, ok,
                 'a difference in this field of two similar inserted cells is handled' if ok else
                 'two similar cells inserted on both sides that differ in %r make the merge raise ValueError("Conflict on unrecognized key")' % k, kchain)

    ctx.note('unarmed: _split_addrange / resolve_strategy_inline_recurse carry input-shape asserts (reachability not decided)')


def strategy_table(ctx):
    """Flow-insensitive may-values of the strategy table built by notebook_merge_strategies:
    path -> set of possible strategy constants (None = unset)."""
    repo, cg = ctx.repo, ctx.cg
    fn = repo.func(mf.MNB + ':notebook_merge_strategies')
    defs = local_defs(fn)
    cli = mf.cli_strategies(repo, cg)
    domain = {
        'merge_strategy': set(cli['cli_conflict_strategies']) | {'mergetool', 'union'},
        'input_strategy': set(cli['cli_conflict_strategies_input']) | {None},
        'output_strategy': set(cli['cli_conflict_strategies_output']) | {None},
        'ignore_transients': {True, False},
    }

    def possible(e, seen=()):
        if isinstance(e, ast.Constant):
            return {e.value}
        if isinstance(e, ast.Attribute) and dotted(e.value) == 'args' and e.attr in domain:
            return set(domain[e.attr])
        if isinstance(e, ast.Name):
            if e.id in seen:
                return set()        # cyclic re-definition (x = x or y): the other definitions contribute
            if e.id in defs:
                out = set()
                for v, k, s in defs[e.id]:
                    out |= possible(v, seen + (e.id,))
                return out
            return {UNKNOWN}
        if isinstance(e, ast.IfExp):
            return possible(e.body, seen) | possible(e.orelse, seen)
        if isinstance(e, ast.Subscript) and isinstance(e.value, ast.Name) and e.value.id not in defs:
            # lookup in a module-level table of constants: the selected value for a constant key, any of its values otherwise
            try:
                tbl = repo.module_assign(mf.MNB, e.value.id)
            except AnalysisError:
                tbl = None
            if isinstance(tbl, ast.Dict) and all(isinstance(vv, ast.Constant) for vv in tbl.values):
                if isinstance(e.slice, ast.Constant):
                    return {vv.value for kk, vv in zip(tbl.keys, tbl.values) if const_val(kk) == e.slice.value} or {UNKNOWN}
                return {vv.value for vv in tbl.values}
        if isinstance(e, ast.BoolOp) and isinstance(e.op, ast.Or):
            out = set()
            for v in e.values:
                out |= possible(v, seen)
            return out
        if isinstance(e, ast.Call) and isinstance(e.func, ast.Name):
            # a small helper of the same module that maps a user strategy to the strategy of a field:
            # union over its return expressions, parameters bound to the possible values of the arguments
            for t in cg.resolve(e.func, fn):
                if t[0] == 'func' and t[1].startswith(mf.MNB + ':') and t[1] in repo.functions:
                    hf = repo.functions[t[1]]
                    hp = [a.arg for a in hf.args.args]
                    bind = {}
                    for i, a in enumerate(e.args):
                        if i < len(hp):
                            bind[hp[i]] = possible(a, seen)
                    for k in e.keywords:
                        if k.arg in hp:
                            bind[k.arg] = possible(k.value, seen)
                    out = set()
                    for r in walk_no_nested(hf):
                        if isinstance(r, ast.Return) and r.value is not None:
                            v = r.value
                            if isinstance(v, ast.Constant):
                                out.add(v.value)
                            elif isinstance(v, ast.Name) and v.id in bind:
                                out |= bind[v.id]
                            elif isinstance(v, ast.Subscript) and isinstance(v.value, ast.Name):
                                tbl = repo.module_assign(mf.MNB, v.value.id)
                                keys = bind.get(v.slice.id) if isinstance(v.slice, ast.Name) else ({const_val(v.slice)} if isinstance(v.slice, ast.Constant) else None)
                                if isinstance(tbl, ast.Dict) and keys is not None and UNKNOWN not in keys:
                                    for kk, vv in zip(tbl.keys, tbl.values):
                                        if const_val(kk) in keys and isinstance(vv, ast.Constant):
                                            out.add(vv.value)
                                else:
                                    out.add(UNKNOWN)
                            else:
                                out.add(UNKNOWN)
                    return out or {UNKNOWN}
        return {UNKNOWN}
    table = {}
    transients = []

    def dict_items(d):
        for k, v in zip(d.keys, d.values):
            kv = const_val(k)
            if isinstance(kv, str):
                table.setdefault(kv, set()).update(possible(v))
    def literal(e, depth=0):
        """a display reached through one local name, a module-level constant, or list()/tuple()/dict() of one"""
        if isinstance(e, (ast.Dict, ast.List, ast.Tuple)):
            return e
        if depth > 3:
            return None
        if isinstance(e, ast.Call) and dotted(e.func) in ('list', 'tuple', 'dict') and len(e.args) == 1 and not e.keywords:
            return literal(e.args[0], depth + 1)
        if isinstance(e, ast.Name):
            ds = [v for v, k, s_ in defs.get(e.id, []) if k == 'assign']
            if len(ds) == 1:
                return literal(ds[0], depth + 1)
            if not ds:
                try:
                    return literal(repo.module_assign(mf.MNB, e.id), depth + 1)
                except AnalysisError:
                    return None
        return None
    for n in walk_no_nested(fn):
        if isinstance(n, ast.Call):
            d = dotted(n.func) or ''
            if (d.endswith('Strategies') or d.endswith('.update')) and n.args:
                lit = literal(n.args[0])
                if isinstance(lit, ast.Dict):
                    dict_items(lit)
            if d.endswith('.transients.extend') and n.args:
                lit = literal(n.args[0])
                if isinstance(lit, (ast.List, ast.Tuple)):
                    transients.extend(const_val(e) for e in lit.elts)
        if isinstance(n, ast.Assign):
            for t in n.targets:
                if isinstance(t, ast.Subscript) and isinstance(const_val(t.slice), str):
                    table.setdefault(const_val(t.slice), set()).update(possible(n.value))
                if isinstance(t, ast.Attribute) and t.attr == 'transients':
                    lit = literal(n.value)
                    if isinstance(lit, (ast.List, ast.Tuple)):
                        transients.extend(const_val(e) for e in lit.elts)
    # {path: <strategy> for path in strategies.transients}: one entry per transient path
    for n in walk_no_nested(fn):
        if isinstance(n, ast.Call) and n.args and isinstance(n.args[0], ast.DictComp):
            d = dotted(n.func) or ''
            dc = n.args[0]
            if (d.endswith('Strategies') or d.endswith('.update')) and len(dc.generators) == 1:
                it = dc.generators[0].iter
                tgt = dc.generators[0].target
                if isinstance(it, ast.Attribute) and it.attr == 'transients' and isinstance(tgt, ast.Name) and \
                        isinstance(dc.key, ast.Name) and dc.key.id == tgt.id and not dc.generators[0].ifs:
                    for pth in transients:
                        table.setdefault(pth, set()).update(possible(dc.value))
                elif isinstance(it, ast.Call) and isinstance(it.func, ast.Attribute) and it.func.attr == 'items' and isinstance(literal(it.func.value), ast.Dict) and \
                        isinstance(tgt, ast.Tuple) and len(tgt.elts) == 2 and all(isinstance(x, ast.Name) for x in tgt.elts) and \
                        isinstance(dc.key, ast.Name) and dc.key.id == tgt.elts[0].id and isinstance(dc.value, ast.Name) and dc.value.id == tgt.elts[1].id:
                    # {path: strategy for path, strategy in TABLE.items() [if strategy is not None]}: the literal table, filtered
                    lit = literal(it.func.value)
                    conds = dc.generators[0].ifs
                    drop_none = len(conds) == 1 and isinstance(conds[0], ast.Compare) and isinstance(conds[0].ops[0], (ast.IsNot, ast.NotEq)) and \
                        dotted(conds[0].left) == tgt.elts[1].id and const_val(conds[0].comparators[0]) is None
                    truthy = len(conds) == 1 and isinstance(conds[0], ast.Name) and conds[0].id == tgt.elts[1].id
                    if conds and not (drop_none or truthy):
                        raise AnalysisError('strategy table is updated from a comprehension the analyser cannot bound: %s' % ast.unparse(dc)[:80])
                    for kk, vv in zip(lit.keys, lit.values):
                        if isinstance(const_val(kk), str) and isinstance(vv, ast.Constant):
                            if conds and (vv.value is None or (truthy and not vv.value)):
                                continue
                            table.setdefault(const_val(kk), set()).add(vv.value)
                else:
                    raise AnalysisError('strategy table is updated from a comprehension the analyser cannot bound: %s' % ast.unparse(dc)[:80])
    if len(table) < 10:
        raise AnalysisError('strategy table extraction found only %d paths' % len(table))
    for k, v in table.items():
        if UNKNOWN in v:
            raise AnalysisError('strategy for %s is not a constant the analyser can bound' % k)
    return table, transients


# ------------------------------------------------------------------------------------------------- R03.10
BASEISH = {'base', 'outputs', 'attachments', 'base_cells'}
EXIST_LETTERS = set('PR')


def _action_strategies(repo, cg):
    """action constant -> strategy constants whose tryresolve arm sets it."""
    tr = repo.func(mf.DEC + ':MergeDecisionBuilder.tryresolve')
    out = {}
    for n in walk_no_nested(tr):
        if isinstance(n, ast.If):
            for test, body, nd in if_chain(n)[0]:
                ce = compare_eq_const(test)
                if not ce or ce[0] != 'strategy':
                    continue
                for st in body:
                    if isinstance(st, ast.Assign) and dotted(st.targets[0]) == 'action' and isinstance(const_val(st.value), str):
                        out.setdefault(const_val(st.value), set()).update(x for x in ce[1] if isinstance(x, str))
    if not out:
        # table-driven form: a module-level literal of (strategy, action) string pairs (or a dict) that tryresolve, or a helper
        # it hands the strategy to, walks / indexes
        fns = [tr]
        for c in calls_in(tr):
            if any(dotted(a) == 'strategy' for a in c.args):
                for kind, tgt in cg.resolve(c.func, tr):
                    if kind == 'func' and tgt in repo.functions:
                        fns.append(repo.functions[tgt])
        m = repo.mod(mf.DEC)
        for f in fns:
            for nm in {x.id for x in ast.walk(f) if isinstance(x, ast.Name)}:
                if nm not in m.assigns:
                    continue
                v = m.assigns[nm][-1]
                pairs = []
                if isinstance(v, (ast.Tuple, ast.List)) and v.elts and all(isinstance(e, ast.Tuple) and len(e.elts) == 2 for e in v.elts):
                    pairs = [(const_val(e.elts[0]), const_val(e.elts[1])) for e in v.elts]
                elif isinstance(v, ast.Dict) and v.keys:
                    pairs = [(const_val(k), const_val(x)) for k, x in zip(v.keys, v.values)]
                if pairs and all(isinstance(a, str) and isinstance(b, str) for a, b in pairs):
                    for strat, act in pairs:
                        out.setdefault(act, set()).add(strat)
    if not out:
        raise AnalysisError('R03.10: the strategy -> action mapping of tryresolve could not be recovered (neither an if-chain on '
                            '`strategy` nor a literal pair table)')
    return out



def base_lookups_by_diff_key(ctx, rule):
    """A base container is indexed with a key taken from a diff/decision only where that key is known to exist in base.

    Keys of diff entries name *existing* items for patch/remove/replace/removerange, but an `add` key is absent from the
    base dict and an `addrange` key may equal len(base) (insertion at the end).  A lookup base[key] with such a key raises
    KeyError/IndexError and aborts the merge.  Accepted evidence, per lookup site:
      bound   -- a dominating test `key < len(B)` / `key in B` (also as the test of an enclosing conditional expression);
      chunk   -- the lookup sits in an arm selected by chunk types that all contain a patch or a removal (P/R) of the item;
      schema  -- the lookup sits in a resolve_action arm for an action that tryresolve only emits for strategies which the
                 strategy table attaches to schema-*required* fields (execution_count of code cells / execute_result
                 outputs, nbformat_minor)."""
    from ..schema import NbSchema
    repo, cg = ctx.repo, ctx.cg
    sch = NbSchema(5)
    table, _tr = strategy_table(ctx)
    act2strat = _action_strategies(repo, cg)
    n_sites = 0
    for fid, fn in sorted(repo.functions.items()):
        if not fid.startswith(('nbdime.merging.generic:', 'nbdime.merging.strategies:', 'nbdime.merging.decisions:')):
            continue
        if '__unused__' in fid or fid.startswith('nbdime.merging.decisions:build_diffs') :
            continue
        params = {a.arg for a in fn.args.args + fn.args.kwonlyargs}
        defs = local_defs(fn)
        g = None
        for n in walk_no_nested(fn):
            if not (isinstance(n, ast.Subscript) and isinstance(n.ctx, ast.Load) and isinstance(n.value, ast.Name) and
                    n.value.id in BASEISH and n.value.id in params and not isinstance(n.slice, ast.Slice)):
                continue
            k = n.slice
            keyish = depends_on(fn, k, lambda x: (isinstance(x, ast.Attribute) and x.attr == 'key') or
                                (isinstance(x, ast.Call) and last_attr(x) == 'bundle_decisions_by_index'), defs)
            chunk_key = isinstance(k, ast.Name) and fid.endswith(':_merge_lists')
            if keyish is None and not chunk_key:
                continue
            n_sites += 1
            if g is None:
                g = CFG(fn)
            st = repo.stmt_of(n)
            guards = list(cond_guards(g, st))
            # enclosing conditional expressions / and-chains inside the statement
            p = repo.parent(n)
            child = n
            while p is not None and not isinstance(p, ast.stmt):
                if isinstance(p, ast.IfExp):
                    if child is p.body:
                        guards.append((p.test, True))
                    elif child is p.orelse:
                        guards.append((p.test, False))
                child, p = p, repo.parent(p)
            B, kname = n.value.id, ast.unparse(k)
            evidence = None
            for t, pol in guards:
                for c in ast.walk(t):
                    if isinstance(c, ast.Compare) and len(c.ops) == 1 and pol:
                        l, r = ast.unparse(c.left), ast.unparse(c.comparators[0])
                        if isinstance(c.ops[0], ast.Lt) and l == kname and r == 'len(%s)' % B:
                            evidence = 'bound: %s' % ast.unparse(c)
                        if isinstance(c.ops[0], ast.Gt) and r == kname and l == 'len(%s)' % B:
                            evidence = 'bound: %s' % ast.unparse(c)
                        if isinstance(c.ops[0], ast.In) and l == kname and r == B:
                            evidence = 'bound: %s' % ast.unparse(c)
            if evidence is None:
                # early exit `if isinstance(B, dict) and key not in B: return ...` before the lookup
                for t, pol in guards:
                    if pol is False:
                        conj = t.values if isinstance(t, ast.BoolOp) and isinstance(t.op, ast.And) else [t]
                        rest = [c for c in conj if not (isinstance(c, ast.Call) and dotted(c.func) == 'isinstance' and c.args and dotted(c.args[0]) == B)]
                        if len(rest) == 1 and isinstance(rest[0], ast.Compare) and len(rest[0].ops) == 1 and isinstance(rest[0].ops[0], ast.NotIn) and \
                                ast.unparse(rest[0].left) == kname and ast.unparse(rest[0].comparators[0]) == B:
                            evidence = 'bound: lookups with an absent key leave before this point (%s)' % ast.unparse(t)
            if evidence is None:
                for t, pol in guards:
                    if not pol or not isinstance(t, (ast.Compare, ast.BoolOp)):
                        continue
                    for c in ([t] if isinstance(t, ast.Compare) else [v for v in t.values if isinstance(v, ast.Compare)] if isinstance(t.op, ast.And) else []):
                        if len(c.ops) == 1 and isinstance(c.left, ast.Name) and 'chunktype' in c.left.id:
                            consts = [x.value for x in ast.walk(c.comparators[0]) if isinstance(x, ast.Constant) and isinstance(x.value, str)]
                            if isinstance(c.ops[0], (ast.In, ast.Eq)) and consts and all(EXIST_LETTERS & set(x) for x in consts):
                                evidence = 'chunk: %s selects only chunks that patch/remove the item' % ast.unparse(c)
            if evidence is None and fid.endswith(':resolve_action'):
                acts = set()
                for t, pol in guards:
                    if pol:
                        for c in ast.walk(t):
                            if isinstance(c, ast.Compare) and len(c.ops) == 1 and isinstance(c.left, ast.Name) and c.left.id == 'a':
                                got = [x.value for x in ast.walk(c.comparators[0]) if isinstance(x, ast.Constant) and isinstance(x.value, str)]
                                acts = set(got) if not acts else (acts & set(got))
                if acts:
                    bad = []
                    paths = []
                    for a in sorted(acts):
                        for strat in sorted(act2strat.get(a, ())):
                            for path, strats in sorted(table.items()):
                                if strat in strats:
                                    parent, _, field = path.rpartition('/')
                                    # required in EVERY alternative of the parent (a cell can change type: a field that only code cells
                                    # have is absent from a base cell that both sides converted from markdown)
                                    alts = [alt for alt in sch.at(parent or '/') if isinstance(alt, dict) and alt.get('properties')]
                                    req = bool(alts) and all(field in alt.get('required', []) for alt in alts)
                                    paths.append(path)
                                    if not req:
                                        bad.append((a, strat, path))
                    if paths and not bad:
                        evidence = 'schema: action(s) %s only arise at required fields %s' % (sorted(acts), sorted(set(paths)))
                    elif bad:
                        ctx.inst(rule, fid, '%s  [action %s via strategy %r at %s]' % (repo.norm(n), bad[0][0], bad[0][1], bad[0][2]), False,
                                 'strategy %r is attached to %s, which the notebook schema does not require: when both sides ADD the key it is absent '
                                 'from base and %s raises KeyError in apply_decisions' % (bad[0][1], bad[0][2], ast.unparse(n)), n)
                        continue
            ctx.inst(rule, fid, repo.norm(n), evidence is not None,
                     evidence if evidence else
                     '%s is a key taken from diff entries / decisions: an add key is absent from %s and an addrange key may equal len(%s) '
                     '(insertion at the end) -- the lookup raises %s and aborts the merge' % (
                         kname, B, B, 'KeyError' if B == 'attachments' else 'IndexError/KeyError'), n)
    return n_sites


def status_never_aborts(ctx, rule):
    """git merge-file exits with the NUMBER of conflicts (1..127), diff3 with 1 on conflicts: every status in 0..127 is a
    normal outcome of a text merge of valid sources.  No `raise`/failing assert in the renderer family may be reachable
    for such a status (evaluated over representative statuses with the constant evaluator)."""
    repo = ctx.repo
    PPM_ = 'nbdime.prettyprint'
    for name in ('external_merge_render', 'merge_render_with_git', 'merge_render_with_diff3', 'merge_render'):
        fn = repo.func('%s:%s' % (PPM_, name))
        defs = local_defs(fn)
        status_vars = set()
        for nm, ds in defs.items():
            for v, k, st in ds:
                if any(isinstance(x, ast.Attribute) and x.attr == 'returncode' for x in ast.walk(v)) or \
                        (k == 'unpack' and isinstance(v, ast.Call) and last_attr(v) in ('external_merge_render', 'merge_render_with_git', 'merge_render_with_diff3')
                         and isinstance(st, ast.Assign) and isinstance(st.targets[0], ast.Tuple) and len(st.targets[0].elts) == 2
                         and isinstance(st.targets[0].elts[1], ast.Name) and st.targets[0].elts[1].id == nm):
                    status_vars.add(nm)
        g = CFG(fn)
        aborts = [n for n in walk_no_nested(fn) if isinstance(n, (ast.Raise, ast.Assert))]
        bad = None
        for a in aborts:
            tests = [(t, pol) for t, pol in cond_guards(g, a)]
            if isinstance(a, ast.Assert):
                tests.append((a.test, False))
            if not any(status_vars & names_in(t) for t, pol in tests) and not any(
                    isinstance(x, ast.Attribute) and x.attr == 'returncode' for t, pol in tests for x in ast.walk(t)):
                continue
            for sv in (0, 1, 2, 3, 17, 127):
                ev = Evaluator({v: sv for v in status_vars} | {'p.returncode': sv})
                verdicts = []
                for t, pol in tests:
                    tr = ev.truth(ev.ev(t))
                    verdicts.append(UNKNOWN if tr is UNKNOWN else (tr is pol))
                if all(v is not False for v in verdicts) and any(v is True for v in verdicts):
                    bad = (a, sv)
                    break
            if bad:
                break
        ctx.inst(rule, '%s:%s' % (PPM_, name), 'status variables %s; %d raise/assert statement(s)' % (sorted(status_vars), len(aborts)), bad is None,
                 'no abort is reachable for an exit status in 0..127 (git merge-file returns the number of conflicts)' if bad is None else
                 '`%s` is reached for exit status %d: git merge-file reports %d conflict regions that way, so a valid merge aborts' % (
                     repo.norm(bad[0])[:80], bad[1], bad[1]), bad[0] if bad else fn)



def sort_key_homogeneous(ctx, rule):
    """Decisions are sorted by a list of tuples, one per path element.  Python compares tuples element-wise, so the FIRST
    element of the tuple must have one type whatever the path element is: paths mix list indices (ints, also dict keys
    that look like ints) with dict keys (strings).  The code wraps an index as ('', -i) so that a string always comes
    first; a tuple that starts with the int itself makes sorted() raise TypeError for a dict holding both kinds of keys."""
    repo = ctx.repo
    fn = repo.func(mf.DEC + ':_sort_key')
    g = CFG(fn)
    apps = [c for c in calls_in(fn) if isinstance(c.func, ast.Attribute) and c.func.attr == 'append' and c.args]
    if not apps:
        raise AnalysisError('_sort_key: no append of key tuples found')

    def kind(e, guards):
        if isinstance(e, ast.Constant):
            return type(e.value).__name__
        if isinstance(e, ast.UnaryOp) and isinstance(e.op, ast.USub):
            return 'int'
        if isinstance(e, ast.Name):
            for t, pol in guards:
                if isinstance(t, ast.Call) and dotted(t.func) == 'isinstance' and dotted(t.args[0]) == e.id:
                    tn = ast.unparse(t.args[1])
                    if tn == 'int':
                        return 'int' if pol else 'str'
                    if tn == 'str':
                        return 'str' if pol else 'int'
            return '?'
        return '?'
    firsts = []
    for c in apps:
        st = repo.stmt_of(c)
        guards = list(cond_guards(g, st))
        arg = c.args[0]
        alts = [(arg, guards)]
        if isinstance(arg, ast.IfExp):
            alts = [(arg.body, guards + [(arg.test, True)]), (arg.orelse, guards + [(arg.test, False)])]
        for a, gs in alts:
            if isinstance(a, ast.Tuple) and a.elts:
                firsts.append((kind(a.elts[0], gs), a))
            else:
                firsts.append(('?', a))
    kinds = sorted({k for k, a in firsts})
    ok = kinds == ['str']
    bad = next((a for k, a in firsts if k != 'str'), None)
    ctx.inst(rule, mf.DEC + ':_sort_key', 'first tuple elements: %s' % [(k, ast.unparse(a)) for k, a in firsts], ok,
             'every key tuple starts with a string: index tuples and key tuples always compare' if ok else
             'a key tuple starts with a non-string (%s): a dict holding an integer-looking key ("1", "2020") next to an ordinary key makes the '
             'sort compare int with str -> TypeError in validated(), the merge aborts' % (ast.unparse(bad) if bad is not None else '?'), bad if bad is not None else fn)


def boundaries_match_consumption(ctx, rule):
    """Sibling tables: count_consumed_symbols says how many base items an entry consumes (addrange 0, removerange length,
    patch 1); get_section_boundaries must open a boundary at the key and close one after the consumed items for every op
    that consumes any.  A missing end boundary leaves the other side's longer removerange unsplit, and the P/R arm of
    _merge_lists then fails its `length == 1` assertion."""
    repo = ctx.repo
    consts = mf.diffop_consts(repo)
    cc = repo.func('nbdime.diff_utils:count_consumed_symbols')
    consumed = {}
    for n in walk_no_nested(cc):
        if isinstance(n, ast.If):
            for test, body, nd in if_chain(n)[0]:
                ce = compare_eq_const(test)
                opv = None
                if isinstance(test, ast.Compare) and len(test.ops) == 1:
                    d = dotted(test.comparators[0])
                    opv = consts.get(d)
                for st in body:
                    if isinstance(st, ast.Return) and isinstance(st.value, ast.Tuple) and opv:
                        consumed[opv] = not (isinstance(st.value.elts[0], ast.Constant) and st.value.elts[0].value == 0)
            break
    if len(consumed) < 3:
        raise AnalysisError('count_consumed_symbols: op arms not found (%s)' % consumed)
    gb = repo.func('nbdime.merging.chunks:get_section_boundaries')
    loop = [n for n in walk_no_nested(gb) if isinstance(n, ast.For)]
    if not loop:
        raise AnalysisError('get_section_boundaries: loop over the diff not found')
    evar = loop[0].target.id
    for opv, uses_base in sorted(consumed.items()):
        ev = Evaluator({evar: AbstractEntry(opv)}, consts)
        adds = []

        def walk(body):
            for st in body:
                if isinstance(st, ast.If):
                    for idx_, b in reachable_arms(ev, st):
                        walk(b)
                else:
                    for c in calls_in(st):
                        if isinstance(c.func, ast.Attribute) and c.func.attr == 'add' and dotted(c.func.value) == 'boundaries':
                            adds.append(c)
        walk(loop[0].body)
        need = 2 if uses_base else 1
        ok = len(adds) >= need
        ctx.inst(rule, 'nbdime.merging.chunks:get_section_boundaries', 'op %s: %d boundary insertion(s) reachable, consumes base items: %s' % (opv, len(adds), uses_base), ok,
                 'start%s boundary recorded' % (' and end' if uses_base else '') if ok else
                 'an entry of op %s consumes base items (count_consumed_symbols) but only its start is recorded as a section boundary: the other side\'s '
                 'longer removerange is not split after it and the patch-vs-remove arm of _merge_lists aborts on its length assertion' % opv, gb)


def similar_insert_field_lookups(ctx, rule):
    """In the per-field dispatch that merges two similar inserted cells, `lcell[k]` / `rcell[k]` is read for a key k of the
    local->remote diff.  k is in both cells only if the op on it is a patch/replace; an `add`/`remove` means one of the two
    cells lacks the field.  A direct subscript is therefore safe only for fields that EVERY cell of that type has in EVERY
    format minor (source, metadata; execution_count and outputs for code cells) -- not for `id` (absent before 4.5) or
    `attachments` (optional): those need a guarded read."""
    from ..schema import load_nbformat_schema
    repo = ctx.repo
    fn = repo.func(mf.STR + ':resolve_strategy_inline_recurse')
    g = CFG(fn)
    always = None
    for minor in range(0, 6):
        sch_ = load_nbformat_schema(minor)
        req = {}
        for cname in ('code_cell', 'markdown_cell', 'raw_cell'):
            d = sch_['definitions'].get(cname, {})
            for f in d.get('properties', {}):
                req.setdefault(f, []).append(f in d.get('required', []))
        here = {f for f, v in req.items() if all(v)}
        # a field that only some cell types have but that is required where it exists (execution_count, outputs) is fine:
        # both cells have the same cell_type (asserted before the dispatch)
        for cname in ('code_cell',):
            d = sch_['definitions'].get(cname, {})
            here |= {f for f in d.get('required', [])}
        always = here if always is None else (always & here)
    n = 0
    for sub in walk_no_nested(fn):
        if isinstance(sub, ast.Subscript) and isinstance(sub.ctx, ast.Load) and isinstance(sub.value, ast.Name) and sub.value.id in ('lcell', 'rcell') and \
                isinstance(sub.slice, ast.Name) and sub.slice.id == 'k':
            st = repo.stmt_of(sub)
            field = None
            for t, pol in cond_guards(g, st):
                ce = compare_eq_const(t)
                if pol and ce and ce[0] == 'k' and ce[2] and len(ce[1]) == 1:
                    field = ce[1][0]
            if field is None:
                continue
            # guarded by `k in <cell>` on the same cell (if-expression or statement guard)?
            guarded = False
            p, child = repo.parent(sub), sub
            while p is not None and not isinstance(p, ast.stmt):
                if isinstance(p, ast.IfExp):
                    pol = True if child is p.body else (False if child is p.orelse else None)
                    t = p.test
                    if isinstance(t, ast.Compare) and len(t.ops) == 1 and ast.unparse(t.left) == 'k':
                        tgt = ast.unparse(t.comparators[0])
                        if isinstance(t.ops[0], ast.In) and ((pol is True and tgt == sub.value.id) or (pol is False and tgt != sub.value.id)):
                            guarded = True
                        if isinstance(t.ops[0], ast.NotIn) and ((pol is False and tgt == sub.value.id) or (pol is True and tgt != sub.value.id)):
                            guarded = True
                child, p = p, repo.parent(p)
            n += 1
            ok = field in always or guarded
            ctx.inst(rule, mf.STR + ':resolve_strategy_inline_recurse', 'field %r: %s' % (field, repo.norm(st)[:70]), ok,
                     ('both cells have %r in every format minor' % field if field in always else 'read only from a cell that has the field') if ok else
                     '%s[%r] is read unguarded, but a cell need not have %r in every format minor (only one of the two similar cells may carry it): KeyError aborts the merge'
                     % (sub.value.id, field, field), sub)
    if n < 3:
        raise AnalysisError('resolve_strategy_inline_recurse: field lookups not found')


def resolver_asserts_after_path_filter(ctx, rule):
    """The cell-list resolver iterates over ALL decisions collected below /cells, including conflicts that the strategies of
    deeper levels already turned into one-sided custom decisions (an edited output of a cell the other side deleted).  What it
    asserts about a decision's diffs may only be asserted for decisions on the cell list itself."""
    repo = ctx.repo
    fn = repo.func(mf.STR + ':resolve_strategy_inline_recurse')
    g = CFG(fn)
    loops = [n for n in walk_no_nested(fn) if isinstance(n, ast.For)]
    if not loops:
        raise AnalysisError('resolve_strategy_inline_recurse: decision loop not found')
    dvar = loops[0].target.id if isinstance(loops[0].target, ast.Name) else 'd'
    n = 0
    for a in ast.walk(loops[0]):
        if isinstance(a, ast.Assert) and any(isinstance(x, ast.Attribute) and x.attr in ('local_diff', 'remote_diff') and dotted(x.value) == dvar for x in ast.walk(a.test)):
            n += 1
            filt = [t for t, pol in cond_guards(g, a) if any(isinstance(x, ast.Attribute) and x.attr == 'common_path' for x in ast.walk(t))]
            ok = bool(filt)
            ctx.inst(rule, mf.STR + ':resolve_strategy_inline_recurse', repo.norm(a)[:100], ok,
                     'asserted only for decisions whose path is the cell list' if ok else
                     'asserted for every conflicted decision, also those below a cell: a one-sided decision made by the output/source strategy for a cell the other side '
                     'deleted fails it and the merge aborts (delete a cell on one side, edit its source and re-run it on the other)', a)
    if n == 0:
        ctx.inst(rule, mf.STR + ':resolve_strategy_inline_recurse', 'no assertion on decision diffs in the loop', True, 'nothing to violate', fn, nontrivial=False)


def collectors_accept_none(ctx, rule):
    """add_decision stores the diff of a side that did nothing as None or [] ("lists or None").  Functions that walk over ALL
    decisions of a level and chain/extend their diffs must treat None as empty."""
    repo = ctx.repo
    n = 0
    for fname in ('collect_diffs', 'collect_conflicting_diffs', 'bundle_decisions_by_index', 'collect_unresolved_diffs'):
        fid = mf.STR + ':' + fname
        if fid not in repo.functions:
            continue
        fn = repo.functions[fid]
        defs = local_defs(fn)

        def from_diff(e, seen=()):
            for x in ast.walk(e):
                if isinstance(x, ast.Attribute) and x.attr in ('local_diff', 'remote_diff'):
                    return True
                if isinstance(x, ast.Name) and x.id in defs and x.id not in seen:
                    if any(from_diff(v, seen + (x.id,)) for v, k, st in defs[x.id] if k in ('assign', 'unpack') and isinstance(v, (ast.Call, ast.Attribute))):
                        return True
            return False
        for c in calls_in(fn):
            iters = []
            if isinstance(c.func, ast.Attribute) and c.func.attr == 'extend' and c.args:
                iters = [c.args[0]]
            elif isinstance(c.func, ast.Name) and c.func.id in ('chain', 'list', 'sorted', 'set', 'tuple'):
                iters = list(c.args)
            for it in iters:
                if isinstance(it, ast.GeneratorExp):
                    continue
                core = it
                guarded = isinstance(it, ast.BoolOp) and isinstance(it.op, ast.Or)
                if guarded:
                    core = it.values[0]
                if not from_diff(core):
                    continue
                n += 1
                ctx.inst(rule, fid, repo.norm(c)[:100], guarded,
                         'a None diff is treated as empty' if guarded else
                         '%s can be None (the side did nothing): iterating it raises TypeError and the merge aborts' % ast.unparse(it)[:40], c)
    if n < 4:
        raise AnalysisError('diff collectors not found (%d sites)' % n)


def no_tautological_guards(ctx, rule, module_prefixes):
    """A guard that compares a variable with the very expression it was assigned from is always true (or always false): the code
    behind it is dead, which in adjust_patch_level meant diffs of deeper decisions were never lifted to the level they are
    resolved at."""
    repo = ctx.repo
    n = 0
    for fid, fn in sorted(repo.functions.items()):
        mod = fid.split(':')[0]
        if not any(mod == p or mod.startswith(p) for p in module_prefixes) or isinstance(fn, ast.Lambda):
            continue
        defs = local_defs(fn)
        for c in walk_no_nested(fn):
            if isinstance(c, ast.Compare) and len(c.ops) == 1:
                n += 1
                for a, b in ((c.left, c.comparators[0]), (c.comparators[0], c.left)):
                    if isinstance(a, ast.Name) and not isinstance(b, (ast.Constant, ast.Name)):
                        ds = defs.get(a.id, [])
                        if len(ds) == 1 and ds[0][1] == 'assign' and ast.dump(ds[0][0]) == ast.dump(b):
                            ctx.inst(rule, fid, repo.norm(c), False,
                                     '%s was assigned from exactly this expression: the comparison has one outcome only and the other branch is dead code' % a.id, c)
    ctx.inst(rule, ','.join(module_prefixes), '%d comparison(s) examined' % n, True, 'none compares a variable with its own defining expression', None, nontrivial=False)

def run(ctx):
    ctx.rule('R03.17', 'field lookups in the similar-insert dispatch are unguarded only for fields every cell has in every format minor', floor=3)
    ctx.rule('R03.18', 'the cell-list resolver asserts the shape of a decision only after filtering for decisions on the cell list itself', floor=1)
    ctx.rule('R03.19', 'functions that collect the diffs of all decisions of a level treat a None diff as empty', floor=4)
    ctx.rule('R03.20', 'no guard in the merge package compares a variable with the expression it was assigned from (dead adjustment code)', floor=1)
    ctx.rule('R03.15', 'decision sort keys are comparable for every mix of path elements: each key tuple starts with a string', floor=1)
    ctx.rule('R03.16', 'section boundaries agree with the consumed-symbol table: every op that consumes base items closes a boundary after them', floor=3)
    ctx.rule('R03.14', 'fields read from a diff entry exist for every op that the surrounding op tests still allow (field table from the op_* constructors)', floor=10)
    ctx.rule('R03.13', 'name binding: every global name a function refers to is bound at module level or builtin, and every local is assigned on every path before it is read', floor=6)
    ctx.rule('R03.12', 'every exactly resolved call binds against its callee\'s signature (no missing/unknown/surplus argument on any arm)', floor=4)
    ctx.rule('R03.11', 'the exit status of the external text-merge tool never aborts the merge: no raise/assert reachable for a status in 0..127', floor=4)
    ctx.rule('R03.10', 'a base container is indexed with a diff/decision key only where the key is known to exist in base '
             '(bound test, patch/remove chunk, or schema-required field)', floor=5)
    _run_base(ctx)
    base_lookups_by_diff_key(ctx, 'R03.10')
    status_never_aborts(ctx, 'R03.11')
    from ..signatures import call_compat
    call_compat(ctx, 'R03.12', ['nbdime.merging.', 'nbdime.prettyprint'] if ctx.tier == 'quick' else ['nbdime.'], 'the merge aborts with an internal error for the inputs that reach this arm')
    from ..names import name_binding
    name_binding(ctx, 'R03.13', ['nbdime.merging.', 'nbdime.prettyprint'] if ctx.tier == 'quick' else ['nbdime.'])
    from ..opfields import check_op_fields
    check_op_fields(ctx, 'R03.14', ['nbdime.merging.'])
    sort_key_homogeneous(ctx, 'R03.15')
    boundaries_match_consumption(ctx, 'R03.16')
    similar_insert_field_lookups(ctx, 'R03.17')
    resolver_asserts_after_path_filter(ctx, 'R03.18')
    collectors_accept_none(ctx, 'R03.19')
    no_tautological_guards(ctx, 'R03.20', ['nbdime.merging.'])


from .extra import with_extra  # noqa: E402
run = with_extra('C03', run)
