"""C01 -- notebook diff followed by patch reproduces the target exactly (structural necessary conditions)."""
import ast

from ..core import AnalysisError, dotted, walk_no_nested
from ..cfg import CFG
from ..util import calls_in, local_defs, depends_on, const_val, if_chain, param_names
from .. import mergefacts as mf
from .. import facts
from . import c02

ASSUMPTIONS = [
    'exact equality of patch(A, diff(A,B)) and B over all notebook pairs depends on LCS/snake index arithmetic and content heuristics: not decided',
    'lru_cache key collisions, line-ending handling and the heuristics thresholds are not decided',
    'decided: writer/reader op tables agree on the notebook path, the file interface revives what it serialised, and "unchanged" is never concluded from type-blind equality',
]

NBD = 'nbdime.diffing.notebooks'


def _run_base(ctx):
    repo, cg = ctx.repo, ctx.cg
    ctx.rule('R01.1', 'writer/reader op tables agree on the notebook path: every op a notebook differ can emit (by container kind of the builder used) has a non-raising arm in patch/flatten/count', floor=10)
    ctx.rule('R01.2', 'the file interface revives what it serialised: nbdiff dumps the diff object it computed; nbpatch feeds patch_notebook with to_diffentry_dicts(json.load(...)), which recurses into dicts and lists', floor=4)
    ctx.rule('R01.4', 'source/text diffs are line-keyed: the differ and the patcher split with the same primitive', floor=4)
    ctx.rule('R01.3', '"empty diff => identical" needs type-discriminating equality on the notebook path (same sites as C02 R02.1 plus the mime differ)', floor=3)

    consts = mf.diffop_consts(repo)
    seq = mf.builder_ops(repo, 'SequenceDiffBuilder')
    mp = mf.builder_ops(repo, 'MappingDiffBuilder')
    reach = cg.reachable([NBD + ':diff_notebooks'])
    # ---------------------------------------------------------------- R01.1 emit sites by builder kind
    emit_methods = {'addrange': consts['DiffOp.ADDRANGE'], 'removerange': consts['DiffOp.REMOVERANGE'], 'patch': consts['DiffOp.PATCH'],
                    'add': consts['DiffOp.ADD'], 'remove': consts['DiffOp.REMOVE'], 'replace': consts['DiffOp.REPLACE']}
    emitted = {'seq': set(), 'map': set()}
    n_sites = 0
    for fid in sorted(reach):
        if not fid.startswith('nbdime.diffing.'):
            continue
        fn = repo.functions[fid]
        defs = local_defs(fn)
        builders = {}
        for name, vals in defs.items():
            for v, k, s in vals:
                if isinstance(v, ast.Call) and dotted(v.func) in ('SequenceDiffBuilder', 'MappingDiffBuilder'):
                    builders[name] = 'seq' if dotted(v.func) == 'SequenceDiffBuilder' else 'map'
        if 'diffbuilder' in param_names(fn):
            builders['diffbuilder'] = 'map'     # add_mime_diff receives the mapping builder of diff_mime_bundle
        for c in calls_in(fn, nested=False):
            if isinstance(c.func, ast.Attribute) and isinstance(c.func.value, ast.Name) and c.func.value.id in builders:
                kind = builders[c.func.value.id]
                m = c.func.attr
                if m in emit_methods:
                    op = emit_methods[m]
                    n_sites += 1
                    okk = op in (seq if kind == 'seq' else mp)
                    emitted[kind].add(op)
                    if not okk:
                        ctx.inst('R01.1', fid, repo.norm(c), False, 'a %s op is emitted into a %s diff' % (op, 'sequence' if kind == 'seq' else 'mapping'), c)
                elif m == 'append' and c.args and isinstance(c.args[0], ast.Call):
                    d = dotted(c.args[0].func) or ''
                    if d.startswith('op_'):
                        op = d[3:]
                        n_sites += 1
                        emitted[kind].add(op)
                        okk = op in (seq if kind == 'seq' else mp)
                        if not okk:
                            ctx.inst('R01.1', fid, repo.norm(c), False, 'op_%s appended into a %s diff' % (op, kind), c)
    if n_sites < 15:
        raise AnalysisError('only %d emit sites found on the notebook diff path' % n_sites)
    ctx.extra['emit_sites'] = n_sites
    ctx.extra['emitted_ops'] = {k: sorted(v) for k, v in emitted.items()}
    consumers = [('nbdime.patching:patch_list', 'seq'), ('nbdime.patching:patch_dict', 'map'),
                 ('nbdime.diff_utils:flatten_list_of_string_diff', 'seq'), ('nbdime.diff_utils:count_consumed_symbols', 'seq')]
    for fid, kind in consumers:
        fn = repo.func(fid)
        handled = set()
        raising = set()
        open_else = False
        for n in walk_no_nested(fn):
            if isinstance(n, ast.If):
                arms, orelse = if_chain(n)
                hit = False
                for test, body, node in arms:
                    if isinstance(test, ast.Compare) and isinstance(test.ops[0], ast.Eq) and dotted(test.comparators[0]) in consts:
                        hit = True
                        if not (body and isinstance(body[-1], ast.Raise)):
                            handled.add(consts[dotted(test.comparators[0])])
                        else:
                            raising.add(consts[dotted(test.comparators[0])])
                if hit and orelse and not isinstance(orelse[-1], ast.Raise) and not (len(orelse) == 1 and isinstance(orelse[0], ast.If)):
                    open_else = True
        if open_else:
            handled |= (emitted[kind] - raising)
        for op in sorted(emitted[kind]):
            ok = op in handled
            ctx.inst('R01.1', fid, 'op %r (emitted by the notebook differs into %s diffs)' % (op, 'sequence' if kind == 'seq' else 'mapping'), ok,
                     'consumed by a non-raising arm' if ok else 'the differ emits %r but %s raises/ignores it: patching the notebook diff fails' % (op, fid.split(':')[1]), fn)
    # patch dispatch by container type
    pf = repo.func('nbdime.patching:patch')
    kinds = {}
    for n in walk_no_nested(pf):
        if isinstance(n, ast.If):
            for test, body, node in if_chain(n)[0]:
                if isinstance(test, ast.Call) and dotted(test.func) == 'isinstance' and body and isinstance(body[-1], ast.Return) and isinstance(body[-1].value, ast.Call):
                    kinds[dotted(test.args[1])] = dotted(body[-1].value.func)
            break
    ok = kinds == {'dict': 'patch_dict', 'list': 'patch_list', 'str': 'patch_string'}
    ctx.inst('R01.1', 'nbdime.patching:patch', 'dispatch %s' % kinds, ok, 'each container kind goes to its patcher' if ok else 'container dispatch of patch() changed', pf)

    # ---------------------------------------------------------------- R01.2
    mpf = repo.func('nbdime.nbpatchapp:main_patch')
    defs = local_defs(mpf)
    pc = [c for c in calls_in(mpf, nested=False) if ('func', 'nbdime.patching:patch_notebook') in cg.resolve(c.func, mpf)]
    if len(pc) != 1:
        raise AnalysisError('main_patch: patch_notebook call not found')
    darg = pc[0].args[1]
    rev = depends_on(mpf, darg, lambda n: isinstance(n, ast.Call) and ('func', 'nbdime.diff_utils:to_diffentry_dicts') in cg.resolve(n.func, mpf), defs)
    ok = rev is not None and depends_on(mpf, rev.args[0], lambda n: isinstance(n, ast.Call) and dotted(n.func) in ('json.load', 'json.loads'), defs) is not None
    # and the un-revived value must not be what is passed
    direct = [v for v, k, s in defs.get(dotted(darg) or '', [])]
    ok = ok and all(depends_on(mpf, v, lambda n: n is rev, defs) is not None for v in direct[-1:])
    ctx.inst('R01.2', 'nbdime.nbpatchapp:main_patch', repo.norm(pc[0]) + '  <- ' + (repo.norm(rev) if rev is not None else '<no revival>'), ok,
             'the diff read from the file is revived into DiffEntry objects before patching' if ok else
             'patch_notebook receives plain dicts (patch uses attribute access: e.op) or not the file content', pc[0])
    td = repo.func('nbdime.diff_utils:to_diffentry_dicts')
    rec = {}
    for n in walk_no_nested(td):
        if isinstance(n, ast.If):
            for test, body, node in if_chain(n)[0]:
                if isinstance(test, ast.Call) and dotted(test.func) == 'isinstance':
                    ty = dotted(test.args[1])
                    rec[ty] = any(('func', 'nbdime.diff_utils:to_diffentry_dicts') in cg.resolve(c.func, td) for b in body for c in calls_in(b))
                    if ty == 'dict':
                        rec['dict->DiffEntry'] = any(dotted(c.func) == 'DiffEntry' for b in body for c in calls_in(b))
            break
    ok = rec.get('dict') and rec.get('list') and rec.get('dict->DiffEntry')
    ctx.inst('R01.2', 'nbdime.diff_utils:to_diffentry_dicts', 'recursion %s' % rec, bool(ok),
             'dicts become DiffEntry at every depth, lists are traversed' if ok else 'revival is not recursive for dicts and lists: nested patch entries stay plain dicts', td)
    hd = repo.func('nbdime.nbdiffapp:_handle_diff')
    hdefs = local_defs(hd)
    dn = [c for c in calls_in(hd, nested=False) if ('func', NBD + ':diff_notebooks') in cg.resolve(c.func, hd)]
    dumps = [c for c in calls_in(hd, nested=False) if dotted(c.func) == 'json.dump']
    if not dn or not dumps:
        raise AnalysisError('_handle_diff: diff_notebooks / json.dump not found')
    dvar = dotted(repo.stmt_of(dn[0]).targets[0]) if isinstance(repo.stmt_of(dn[0]), ast.Assign) else None
    ok = all(dotted(c.args[0]) == dvar for c in dumps) and len(hdefs.get(dvar, [])) == 1
    ctx.inst('R01.2', 'nbdime.nbdiffapp:_handle_diff', repo.norm(dumps[0]), ok, 'the computed diff object itself is serialised' if ok else
             'what is written to the diff file is not the diff that was computed', dumps[0])
    args_ok = [dotted(a) for a in dn[0].args] == [dotted(repo.stmt_of(c).targets[0]) for c in calls_in(hd, nested=False)
                                                  if ('func', 'nbdime.utils:read_notebook') in cg.resolve(c.func, hd)]
    ctx.inst('R01.2', 'nbdime.nbdiffapp:_handle_diff', repo.norm(dn[0]), args_ok, 'diff(base, remote) in that order' if args_ok else
             'the diff command diffs the notebooks in the wrong order', dn[0])

    # ---------------------------------------------------------------- R01.4 the differ and the patcher count lines alike
    from ..linemodel import python_line_sites
    sites = python_line_sites(ctx)
    sigs = {tuple(sig) for f, sig, node in sites}
    for f, sig, node in sites:
        ok = len(sigs) == 1 and sig == ['splitlines(True)']
        ctx.inst('R01.4', f, 'line splitter: %s' % sig, ok, 'same line model at the site that creates line keys and the site that consumes them' if ok else
                 'line keys are created/consumed with different splitters (%s vs %s): string patches land at wrong offsets' % (
                     sig, sorted({s for f2, sg, n2 in sites if f2 != f for s in sg})), node)

    # ---------------------------------------------------------------- R01.3: reuse the C02 site analysis on the notebook path
    sub = type(ctx).__new__(type(ctx))
    sub.__dict__.update(ctx.__dict__)
    sub.instances, sub.findings, sub.notes, sub.rules, sub.floors, sub.extra = [], [], [], {}, {}, {}
    c02.run(sub)
    for i in sub.instances:
        if i['rule'] == 'R02.1':
            ctx.inst('R01.3', i['where'], i['construct'], i['verdict'] == 'ok', i['why'], None, extra={'at': i.get('at')})


def _open_encoding(call):
    """encoding= of an open()/io.open() call: the constant, or None when the locale default is used."""
    for k in call.keywords:
        if k.arg == 'encoding':
            v = const_val(k.value)
            return v.lower().replace('-', '') if isinstance(v, str) else '<dynamic>'
    return None


def run(ctx):
    """R01.5: the diff file is written in an encoding the patch command reads back.

    nbdiff --out writes the JSON diff with `open(output, 'w')` (locale encoding) and json.dump; nbpatch reads it with an
    explicit utf8 codec.  The two agree for every locale exactly when (a) the writer names the same codec as the reader, or
    (b) the writer emits ASCII only (json.dump's default ensure_ascii=True), which every ASCII-compatible locale codec and
    utf8 decode identically."""
    ctx.rule('R01.11', 'where equal items are trimmed from both ends before aligning, the tail scan is bounded by the head count (no overlap)', floor=1)
    ctx.rule('R01.10', 'alignment predicates are reflexive: under y := x no `return False` is reachable before the equality shortcut (symbolic folding of each compare_* function)', floor=12)
    ctx.rule('R01.9', 'fields read from a diff entry exist for every op that the surrounding op tests still allow (field table from the op_* constructors)', floor=8)
    ctx.rule('R01.8', 'name binding: every global name a function refers to is bound at module level or builtin, and every local is assigned on every path before it is read', floor=6)
    ctx.rule('R01.7', 'every exactly resolved call binds against its callee\'s signature (no missing/unknown/surplus argument on any arm)', floor=5)
    ctx.rule('R01.6', 'the notebook diff is a function of the two notebooks\' CONTENT: nothing reachable from diff_notebooks writes module-level state '
             '(memo tables keyed by object identity or cell ids, caches surviving the call) -- same analysis as C12 R12.1/R12.3', floor=8)
    ctx.rule('R01.5', 'file interface: the codec/escaping nbdiff --out writes the diff with is one nbpatch decodes identically under every locale', floor=1)
    _run_base(ctx)
    repo = ctx.repo
    hd = repo.func('nbdime.nbdiffapp:_handle_diff')
    mpf = repo.func('nbdime.nbpatchapp:main_patch')
    w_open = [w for w in walk_no_nested(hd) if isinstance(w, ast.With)]
    dump = None
    wenc = '<no open>'
    for w in w_open:
        for it in w.items:
            c = it.context_expr
            if isinstance(c, ast.Call) and dotted(c.func) in ('open', 'io.open') and len(c.args) >= 2 and 'w' in str(const_val(c.args[1])):
                ds = [d for d in calls_in(w) if dotted(d.func) in ('json.dump',)]
                if ds:
                    dump = ds[0]
                    wenc = _open_encoding(c)
    if dump is None:
        raise AnalysisError('_handle_diff: `with open(output, "w")` + json.dump not found')
    ascii_only = True
    for k in dump.keywords:
        if k.arg == 'ensure_ascii' and const_val(k.value) is not True:
            ascii_only = False
    renc = '<no open>'
    for w in walk_no_nested(mpf):
        if isinstance(w, ast.With):
            for it in w.items:
                c = it.context_expr
                if isinstance(c, ast.Call) and dotted(c.func) in ('open', 'io.open') and any(dotted(d.func) in ('json.load',) for d in calls_in(w)):
                    renc = _open_encoding(c)
    if renc == '<no open>':
        raise AnalysisError('main_patch: `with open(patch_filename)` + json.load not found')
    ok = (wenc is not None and wenc == renc) or (ascii_only and renc in ('utf8', 'ascii', None) and wenc in (None, 'utf8', 'ascii'))
    ctx.inst('R01.5', 'nbdime.nbdiffapp:_handle_diff', 'writer: encoding=%s, ensure_ascii=%s; reader (nbpatch): encoding=%s' % (wenc, ascii_only, renc), ok,
             'the bytes written decode to the same text in the reader under every locale' if ok else
             'the diff file is written with the locale codec (%s) and non-ASCII text unescaped, but read back as %s: under a non-UTF-8 locale '
             'nbdiff --out fails or nbpatch rebuilds different text' % (wenc, renc), dump)

    # ---------------------------------------------------------------- R01.6 (re-uses the effect analysis of C12)
    from . import c12
    from ..report import Ctx as _Ctx
    sub = _Ctx.__new__(_Ctx)
    sub.__dict__.update(ctx.__dict__)
    sub.instances, sub.findings, sub.notes, sub.floors, sub.rules, sub.extra = [], [], [], {}, {}, {}
    c12.run(sub)
    for i in sub.instances:
        if i['rule'] in ('R12.1', 'R12.3'):
            j = dict(i)
            j['rule'] = 'R01.6'
            ctx.instances.append(j)
            if j['verdict'] != 'ok':
                ctx.findings.append(j)
    from ..signatures import call_compat
    call_compat(ctx, 'R01.7', ['nbdime.diffing.', 'nbdime.patching', 'nbdime.diff_utils', 'nbdime.diff_format', 'nbdime.nbdiffapp', 'nbdime.nbpatchapp'] if ctx.tier == 'quick' else ['nbdime.'], 'diffing/patching a valid notebook aborts instead of round-tripping')
    from ..names import name_binding
    name_binding(ctx, 'R01.8', ['nbdime.diffing.', 'nbdime.patching', 'nbdime.diff_utils', 'nbdime.diff_format', 'nbdime.nbdiffapp', 'nbdime.nbpatchapp'] if ctx.tier == 'quick' else ['nbdime.'])
    from ..opfields import check_op_fields
    check_op_fields(ctx, 'R01.9', ['nbdime.diffing.', 'nbdime.patching', 'nbdime.diff_utils', 'nbdime.diff_format'])
    from ..reflexive import check_reflexive
    check_reflexive(ctx, 'R01.10')
    from ..trim import check_trims
    check_trims(ctx, 'R01.11', ['nbdime.diffing.'])


from .extra import with_extra  # noqa: E402
run = with_extra('C01', run)
