"""C08 -- merge command and git driver: exit status, output file, behaviour on failure."""
import ast

from ..core import AnalysisError, dotted, FuncTypes, walk_no_nested, find_pkg_file
from ..cfg import CFG, cond_guards
from ..util import calls_in, local_defs, depends_on, names_in, const_val, NOVAL
from .. import facts

ASSUMPTIONS = [
    'an uncaught Python exception makes the console-script exit non-zero; a returned None/0 exits zero (setuptools wrapper: sys.exit(main()))',
    'crash points inside the interpreter/OS (kill, OOM) are not enumerable statically; they terminate the process with a non-zero status by themselves',
    'partial content after an I/O error in the middle of the final write is not decided (the status is non-zero by R08.3)',
    'equality of the written file with the library result is nbformat.write\'s job (its serialise-before-open order is checked as a fact)',
]

APP = 'nbdime.nbmergeapp'
DRV = 'nbdime.vcs.git.mergedriver'


def _no_fallthrough(ctx, fid, rule):
    repo = ctx.repo
    fn = repo.func(fid)
    g = CFG(fn)
    bad = [n for n in g.nodes if g.EXIT in g.succ.get(n, ()) and not isinstance(n, ast.Return)
           and not str(n).startswith('finally')]
    live = g.reachable(g.ENTRY)
    bad = [n for n in bad if n in live]
    rets = [n for n in walk_no_nested(fn) if isinstance(n, ast.Return)]
    bare = [r for r in rets if r.value is None or (isinstance(r.value, ast.Constant) and r.value.value is None)]
    ok = not bad and not bare
    ctx.inst(rule, fid, 'every path ends in `return <status>` (no fall-through, no bare return)', ok,
             'no path can yield None (which the console-script wrapper turns into exit status 0)' if ok else
             ('a path falls off the end of the function: the process exits 0 whatever happened' if bad else
              'bare return: the process exits 0 whatever happened'),
             (bad[0] if bad and isinstance(bad[0], ast.AST) else (bare[0] if bare else fn)))
    return g


def _run_base(ctx):
    repo, cg = ctx.repo, ctx.cg
    ctx.rule('R08.1', 'exit status of main_merge is the conflict verdict (returned value derives from [d for d in decisions if d.conflict]); '
             'early zero only for agreed deletion', floor=3)
    ctx.rule('R08.2', 'status reaches the process: no fall-through/bare return on the script path, callee status returned, __main__ uses sys.exit(main())', floor=8)
    ctx.rule('R08.3', 'no except handler on the command path completes normally (error => non-zero exit)', floor=1)
    ctx.rule('R08.4', 'output location is touched last: every write/remove sink is dominated by the input reads and the merge', floor=4)
    ctx.rule('R08.5', 'driver writes where git reads: out := %A (local) before main_merge; positional order matches %O %A %B %L %P', floor=3)

    mm = repo.func(APP + ':main_merge')
    fid = APP + ':main_merge'
    g = _no_fallthrough(ctx, fid, 'R08.2')
    defs = local_defs(mm)
    merges = [c for c in calls_in(mm, nested=False)
              if ('func', 'nbdime.merging.notebooks:merge_notebooks') in cg.resolve(c.func, mm)]
    if len(merges) != 1:
        raise AnalysisError('main_merge: expected exactly one merge_notebooks call')
    mcall = merges[0]
    mst = repo.stmt_of(mcall)
    # ---------------------------------------------------------------- R08.1
    rets = [n for n in walk_no_nested(mm) if isinstance(n, ast.Return)]

    def conflict_filter(n):
        if isinstance(n, (ast.ListComp, ast.GeneratorExp)):
            for gen in n.generators:
                if any(isinstance(x, ast.Attribute) and x.attr == 'conflict' for i in gen.ifs for x in ast.walk(i)):
                    if depends_on(mm, gen.iter, lambda z: z is mcall, defs) is not None:
                        return True
        if isinstance(n, ast.Call) and isinstance(n.func, ast.Attribute) and n.func.attr in ('get_conflicted', 'has_conflicted'):
            return True
        return False

    def status_form(expr):
        """expr maps 'some conflicted' -> non-zero and 'none' -> 0 ?"""
        if isinstance(expr, ast.Name):
            vs = defs.get(expr.id, [])
            if len(vs) == 2 and all(isinstance(const_val(v), int) and not isinstance(const_val(v), bool) and k == 'assign' for v, k, s in vs):
                # statement form of `1 if conflicted else 0`: the two constants are assigned in the two arms of one `if`
                # whose test is the conflict verdict
                par = [repo.parent(s) for v, k, s in vs]
                if par[0] is par[1] and isinstance(par[0], ast.If):
                    node = par[0]
                    arm = [('body' if s in node.body else 'orelse' if s in node.orelse else None) for v, k, s in vs]
                    if set(arm) == {'body', 'orelse'}:
                        val = {a: const_val(v) for a, (v, k, s) in zip(arm, vs)}
                        test, b, o = node.test, val['body'], val['orelse']
                        while isinstance(test, ast.UnaryOp) and isinstance(test.op, ast.Not):
                            test, b, o = test.operand, o, b
                        return depends_on(mm, test, conflict_filter, defs) is not None and 0 < b < 256 and o == 0
                # default-then-override form: `rc = 0` ... `if conflicted: rc = 1`
                for (v1, k1, s1), (v2, k2, s2) in (vs, vs[::-1]):
                    node = repo.parent(s2)
                    if isinstance(node, ast.If) and s2 in node.body and not any(s1 is x for b in (node.body, node.orelse) for st in b for x in ast.walk(st)) \
                            and g.dominated_by(node, [s1]):
                        test, pos = node.test, True
                        while isinstance(test, ast.UnaryOp) and isinstance(test.op, ast.Not):
                            test, pos = test.operand, not pos
                        d, o = const_val(v1), const_val(v2)
                        if depends_on(mm, test, conflict_filter, defs) is not None:
                            return (pos and d == 0 and 0 < o < 256) or (not pos and o == 0 and 0 < d < 256)
                return False
            return len(vs) >= 1 and all(status_form(v) for v, k, s in vs)
        if isinstance(expr, ast.IfExp):
            b, o = const_val(expr.body), const_val(expr.orelse)
            dep = depends_on(mm, expr.test, conflict_filter, defs) is not None
            neg = isinstance(expr.test, ast.UnaryOp) and isinstance(expr.test.op, ast.Not)
            if neg:
                b, o = o, b
            return dep and isinstance(b, int) and b not in (0, False) and o == 0 and o is not False
        if isinstance(expr, ast.Call) and dotted(expr.func) in ('int', 'bool') and expr.args:
            # int(bool(x)) / bool(x) / int(bool(len(x))): a 0/1 value.  A bare count is NOT accepted:
            # exit statuses are taken modulo 256, so 256 conflicts would exit 0.
            inner = expr.args[0]
            if dotted(expr.func) == 'int' and not (isinstance(inner, ast.Call) and dotted(inner.func) == 'bool'):
                return False
            while isinstance(inner, ast.Call) and dotted(inner.func) in ('bool', 'len') and inner.args:
                inner = inner.args[0]
            return depends_on(mm, inner, conflict_filter, defs) is not None
        if isinstance(expr, ast.Call) and dotted(expr.func) == 'min' and len(expr.args) == 2:
            consts_ = [const_val(a) for a in expr.args if isinstance(const_val(a), int)]
            others = [a for a in expr.args if not isinstance(const_val(a), int)]
            return bool(consts_) and 0 < consts_[0] < 256 and bool(others) and depends_on(mm, others[0], conflict_filter, defs) is not None
        return False

    for r in rets:
        after = g.dominated_by(r, [mst])
        if after:
            ok = r.value is not None and status_form(r.value)
            ctx.inst('R08.1', fid, repo.norm(r), ok,
                     'status after the merge is non-zero iff some decision is conflicted' if ok else
                     'the status returned after the merge is not derived from the conflicted decisions', r)
        else:
            v = const_val(r.value) if r.value is not None else None
            if v == 0 or v is None or v is NOVAL:
                guards = cond_guards(g, r)
                ok = v == 0 and any(pol and isinstance(t, ast.Compare) and len(t.ops) == 2 and
                                    'EXPLICIT_MISSING_FILE' in names_in(t) and all(isinstance(o, ast.Eq) for o in t.ops)
                                    for t, pol in guards)
                ctx.inst('R08.1', fid, repo.norm(r) + '  [before the merge]', ok,
                         'success without merging only when local and remote are both the null file (agreed deletion)' if ok else
                         'the command can report success before any merge was computed', r)
            else:
                ctx.inst('R08.1', fid, repo.norm(r) + '  [before the merge]', True, 'early failure status (non-zero)', r)

    # ---------------------------------------------------------------- R08.2 script chain
    scripts = {}
    txt = repo.text('pyproject.toml')
    insec = False
    for line in txt.splitlines():
        if line.strip().startswith('['):
            insec = line.strip() == '[project.scripts]'
            continue
        if insec and '=' in line:
            k, v = line.split('=', 1)
            scripts[k.strip()] = v.strip().strip('"').strip("'")
    want = {'nbmerge': APP + ':main', 'git-nbmergedriver': DRV + ':main', 'nbdime': 'nbdime.__main__:main_dispatch'}
    for sname, target in want.items():
        ok = scripts.get(sname) == target
        ctx.inst('R08.2', 'pyproject.toml:[project.scripts]', '%s = %s' % (sname, scripts.get(sname)), ok,
                 'script target is the analysed entry function' if ok else 'script target changed; the analysed chain is not what runs', None)
        if not ok:
            continue
        _no_fallthrough(ctx, target, 'R08.2') if target != APP + ':main_merge' else None
    # callee status is what is returned
    chain = [
        (APP + ':main', [APP + ':main_merge']),
        (DRV + ':main', [APP + ':main_merge']),
    ]
    for caller, callees in chain:
        fn = repo.func(caller)
        for callee in callees:
            cs = [c for c in calls_in(fn, nested=False) if ('func', callee) in cg.resolve(c.func, fn)]
            if not cs:
                raise AnalysisError('%s no longer calls %s' % (caller, callee))
            for c in cs:
                p = repo.parent(c)
                ok = isinstance(p, ast.Return) and p.value is c
                ctx.inst('R08.2', caller, repo.norm(repo.stmt_of(c)), ok,
                         'the merge status is returned unchanged' if ok else
                         'the status of %s is dropped or replaced' % callee.split(':')[1], c)
    md = repo.func('nbdime.__main__:main_dispatch')
    last = md.body[-1]
    ok = isinstance(last, ast.Return) and isinstance(last.value, ast.Call) and dotted(last.value.func) == 'main'
    ctx.inst('R08.2', 'nbdime.__main__:main_dispatch', repo.norm(last), ok,
             'dispatcher returns the sub-command\'s status' if ok else 'dispatcher does not return the sub-command status', last)
    for modname in (APP, DRV, 'nbdime.__main__'):
        m = repo.mod(modname)
        guard = [s for s in m.tree.body if isinstance(s, ast.If) and '__name__' in names_in(s.test)]
        ok = False
        if guard:
            for c in calls_in(guard[0]):
                if dotted(c.func) == 'sys.exit' and c.args and isinstance(c.args[0], ast.Call):
                    ok = True
        ctx.inst('R08.2', modname + ':<module>', 'if __name__ == "__main__": sys.exit(<main>())', ok,
                 'python -m entry propagates the status' if ok else '__main__ guard does not pass the status to sys.exit', guard[0] if guard else m.tree)

    # ---------------------------------------------------------------- R08.3 handlers
    path_fns = [APP + ':main', APP + ':main_merge', APP + ':_handle_agreed_deletion', 'nbdime.utils:read_notebook', DRV + ':main']
    n_handlers = 0
    for f in path_fns:
        fn = repo.func(f)
        for tr in [n for n in walk_no_nested(fn) if isinstance(n, ast.Try)]:
            for h in tr.handlers:
                n_handlers += 1
                tname = 'BaseException' if h.type is None else (dotted(h.type) or ast.unparse(h.type))
                ok, why = _handler_fails(h)
                if not ok and f == 'nbdime.utils:read_notebook' and tname.endswith('NotJSONError'):
                    # named exemption: suppression only when the caller asked for it (on_empty) and the file is empty
                    first = h.body[0] if h.body else None
                    if isinstance(first, ast.If) and 'on_empty' in names_in(first.test) and \
                            any(isinstance(s, ast.Raise) and s.exc is None for s in first.body):
                        reraise_nonempty = any(isinstance(s, ast.Raise) and s.exc is None
                                               for s in ast.walk(h) if s not in first.body)
                        ok = reraise_nonempty
                        why = 'named exemption: re-raised unless the caller passed on_empty and the file is empty (git\'s empty base)'
                ctx.inst('R08.3', f, 'except %s' % tname, ok, why if ok else
                         'handler for %s completes normally: a failed step is followed by a success status' % tname, h)
    # swallowing via contextlib.suppress / broad with-blocks
    for f in path_fns:
        fn = repo.func(f)
        for c in calls_in(fn, nested=False):
            if (dotted(c.func) or '').endswith('suppress'):
                ctx.inst('R08.3', f, repo.norm(c), False, 'contextlib.suppress swallows a failure on the command path', c)
    if n_handlers == 0:
        ctx.inst('R08.3', APP + ':main_merge', '<no handlers on the command path>', True, 'nothing can swallow an exception', mm, nontrivial=False)

    # ---------------------------------------------------------------- R08.4 output touched last
    reads = [c for c in calls_in(mm, nested=False) if ('func', 'nbdime.utils:read_notebook') in cg.resolve(c.func, mm)]
    argnames = [dotted(c.args[0]) for c in reads if c.args]
    srcs = set()
    for a in argnames:
        for v, k, s in defs.get(a, []):
            srcs.add(dotted(v))
    ok = len(reads) == 3 and srcs == {'args.base', 'args.local', 'args.remote'} and \
        all(g.dominated_by(mst, [repo.stmt_of(c)]) for c in reads)
    ctx.inst('R08.4', fid, 'read base, local, remote -> merge_notebooks', ok,
             'all three inputs are read before the merge is computed' if ok else
             'the merge does not consume exactly the three input files read before it', mst)
    sinks = facts.fs_sinks(repo, cg, mm)
    # sinks inside helpers of the same module count at the call site, with the helper's path parameter mapped to the argument
    for c in calls_in(mm, nested=False):
        for t in cg.resolve(c.func, mm):
            if t[0] == 'func' and t[1].startswith(APP + ':') and t[1] not in (APP + ':main_merge', APP + ':_handle_agreed_deletion'):
                hf = repo.functions[t[1]]
                hparams = [a.arg for a in hf.args.args]
                for hc, hwhat, hpaths in facts.fs_sinks(repo, cg, hf):
                    mapped = []
                    for hp in hpaths:
                        nm = dotted(hp)
                        if nm in hparams and hparams.index(nm) < len(c.args):
                            mapped.append(c.args[hparams.index(nm)])
                        else:
                            mapped.append(hp)
                    sinks.append((c, '%s (in %s)' % (hwhat, t[1].split(':')[1]), mapped))
    if len(sinks) < 1:
        raise AnalysisError('main_merge: no output sink found (anchor moved)')
    out_names = {n for n, vs in defs.items() for v, k, s in vs if dotted(v) == 'args.out'}
    for call, what, paths in sinks:
        st = repo.stmt_of(call)
        dom = g.dominated_by(st, [mst])
        is_out = all(dotted(p) in out_names or dotted(p) == 'sys.stdout' for p in paths)
        ctx.inst('R08.4', fid, '%s path=%s' % (what, '; '.join(repo.norm(p) for p in paths)), dom and is_out,
                 'output opened/written only after the merge result exists, and only at args.out' if dom and is_out else
                 ('the output location is touched before the merge has been computed: a failure leaves a clobbered file' if not dom
                  else 'writes somewhere other than the designated output'), call)
    # stdout writes count too
    for c in calls_in(mm, nested=False):
        if ('ext', 'nbformat.write') in cg.resolve(c.func, mm) and len(c.args) > 1 and dotted(c.args[1]) == 'sys.stdout':
            st = repo.stmt_of(c)
            ok = g.dominated_by(st, [mst])
            ctx.inst('R08.4', fid, repo.norm(c), ok, 'stdout output after the merge' if ok else 'stdout written before the merge', c)
    # nothing after the final write but logging / return
    for call, what, paths in sinks:
        st = repo.stmt_of(call)
        top = st
        while repo.parent(top) is not mm and not isinstance(repo.parent(top), ast.If):
            top = repo.parent(top)
        blk = _block_of(repo, top)
        after = blk[blk.index(top) + 1:]
        bad = [s for s in after if not _is_logging(s)]
        ctx.inst('R08.4', fid, 'after %s: %s' % (what, '; '.join(repo.norm(s)[:40] for s in after) or '<nothing>'), not bad,
                 'only logging follows the write in its arm' if not bad else
                 'work that can fail follows the write: the output exists but the command may still fail/alter it', bad[0] if bad else st)
    had = repo.func(APP + ':_handle_agreed_deletion')
    hg = CFG(had)
    hreads = [c for c in calls_in(had, nested=False) if ('func', 'nbdime.utils:read_notebook') in cg.resolve(c.func, had)]
    for call, what, paths in facts.fs_sinks(repo, cg, had):
        st = repo.stmt_of(call)
        ok = bool(hreads) and all(hg.dominated_by(st, [repo.stmt_of(r)]) for r in hreads) and \
            all(dotted(p) == had.args.args[1].arg for p in paths)
        ctx.inst('R08.4', APP + ':_handle_agreed_deletion', '%s path=%s' % (what, '; '.join(repo.norm(p) for p in paths)), ok,
                 'output removed only after base was read successfully' if ok else 'output removed before base was validated / wrong path', call)
    # dependency fact: nbformat.write serialises before it opens
    p = find_pkg_file('nbformat', '__init__.py')
    with open(p, encoding='utf8') as fh:
        tree = ast.parse(fh.read())
    wf = [n for n in tree.body if isinstance(n, ast.FunctionDef) and n.name == 'write']
    if not wf:
        raise AnalysisError('nbformat.write not found in installed nbformat')
    ser = [n.lineno for n in ast.walk(wf[0]) if isinstance(n, ast.Call) and dotted(n.func) == 'writes']
    opn = [n.lineno for n in ast.walk(wf[0]) if isinstance(n, ast.Call) and isinstance(n.func, ast.Attribute) and n.func.attr == 'open'
           or isinstance(n, ast.Call) and dotted(n.func) == 'open']
    wr = [n.lineno for n in ast.walk(wf[0]) if isinstance(n, ast.Call) and isinstance(n.func, ast.Attribute) and n.func.attr == 'write']
    ok = bool(ser) and all(min(ser) < x for x in opn + wr)
    ctx.inst('R08.4', 'nbformat:write (installed dependency, read as data)', 'writes(nb) precedes open()/write()', ok,
             'serialisation (and validation) failures happen before the output is opened' if ok else
             'installed nbformat opens the file before serialising', None)

    # ---------------------------------------------------------------- R08.5 driver
    dm = repo.func(DRV + ':main')
    dg = CFG(dm)
    dcalls = [c for c in calls_in(dm, nested=False) if ('func', APP + ':main_merge') in cg.resolve(c.func, dm)]
    dst = repo.stmt_of(dcalls[0])
    outs = [n for n in walk_no_nested(dm) if isinstance(n, ast.Assign) and isinstance(n.targets[0], ast.Attribute)
            and n.targets[0].attr == 'out']
    ok = len(outs) == 1 and isinstance(outs[0].value, ast.Attribute) and outs[0].value.attr == 'local' and \
        dotted(outs[0].value.value) == dotted(outs[0].targets[0].value) and dg.dominated_by(dst, [outs[0]])
    ctx.inst('R08.5', DRV + ':main', '; '.join(repo.norm(o) for o in outs) or '<no out assignment>', ok,
             'the merged result replaces the %A (local) file, unconditionally, before main_merge' if ok else
             'the driver does not (only) redirect output to the local (%A) file', outs[0] if outs else dm)
    decs = [n for n in walk_no_nested(dm) if isinstance(n, ast.Assign) and isinstance(n.targets[0], ast.Attribute)
            and n.targets[0].attr == 'decisions']
    ok = len(decs) == 1 and const_val(decs[0].value) is False and dg.dominated_by(dst, [decs[0]])
    ctx.inst('R08.5', DRV + ':main', '; '.join(repo.norm(o) for o in decs) or '<no decisions assignment>', ok,
             'driver always writes the notebook, never the decisions listing' if ok else 'decisions flag not forced to False', decs[0] if decs else dm)
    # positional order vs registered command
    en = repo.func(DRV + ':enable')
    cmdstr = None
    for c in calls_in(en):
        for s in [x.value for x in ast.walk(c) if isinstance(x, ast.Constant) and isinstance(x.value, str)]:
            if s.startswith('git-nbmergedriver'):
                cmdstr = s
    if cmdstr is None:
        raise AnalysisError('driver command string not found in mergedriver.enable')
    toks = cmdstr.split()
    placeholders = toks[2:]
    positional = []
    # the sub-parser of the `merge` subcommand: whatever local holds subparsers.add_parser('merge', ...)
    mp_names = {nm for nm, ds in local_defs(dm).items() for v, k, st_ in ds
                if isinstance(v, ast.Call) and isinstance(v.func, ast.Attribute) and v.func.attr == 'add_parser' and v.args and const_val(v.args[0]) == 'merge'}
    if not mp_names:
        raise AnalysisError('mergedriver.main: sub-parser of the merge subcommand not found')
    for c in calls_in(dm, nested=False):
        if isinstance(c.func, ast.Attribute) and c.func.attr == 'add_argument' and dotted(c.func.value) in mp_names and c.args:
            v = const_val(c.args[0])
            if isinstance(v, str) and not v.startswith('-'):
                positional.append((c.lineno, [v]))
        if ('func', 'nbdime.args:add_filename_args') in cg.resolve(c.func, dm) and len(c.args) > 1 and \
                dotted(c.args[0]) in mp_names and isinstance(c.args[1], (ast.List, ast.Tuple)):
            positional.append((c.lineno, [const_val(e) for e in c.args[1].elts]))
    order = [n for _, names in sorted(positional) for n in names]
    meaning = {'%O': 'base', '%A': 'local', '%B': 'remote', '%L': 'marker', '%P': 'out'}
    ok = toks[:2] == ['git-nbmergedriver', 'merge'] and [meaning.get(p) for p in placeholders] == order
    ctx.inst('R08.5', DRV + ':enable', '%r vs positionals %s' % (cmdstr, order), ok,
             'git\'s placeholders land in the parser positions of the same meaning' if ok else
             'placeholder order and parser positional order disagree: the driver would overwrite/merge the wrong files', en)


def _handler_fails(h):
    body = h.body
    if not body:
        return False, ''
    last = body[-1]
    if isinstance(last, ast.Raise):
        return True, 're-raises'
    if isinstance(last, ast.Return) and last.value is not None and isinstance(const_val(last.value), int) and \
            const_val(last.value) not in (0, False):
        return True, 'returns a non-zero status'
    if isinstance(last, ast.Expr) and isinstance(last.value, ast.Call) and dotted(last.value.func) in ('sys.exit', 'exit'):
        a = last.value.args
        if a and const_val(a[0]) not in (0, None, False):
            return True, 'exits non-zero'
    if isinstance(last, ast.If) and last.orelse:
        a = _handler_fails(ast.ExceptHandler(type=None, name=None, body=last.body))
        b = _handler_fails(ast.ExceptHandler(type=None, name=None, body=last.orelse))
        if a[0] and b[0]:
            return True, 'every branch fails'
    return False, ''


def _is_logging(s):
    if isinstance(s, ast.Expr) and isinstance(s.value, ast.Call):
        d = dotted(s.value.func) or ''
        return d.split('.')[0] in ('logger', 'logging', 'log') or '.log.' in d or d.startswith('nbdime.log')
    return isinstance(s, (ast.Return, ast.Pass))


def _block_of(repo, st):
    p = repo.parent(st)
    for field in ('body', 'orelse', 'finalbody'):
        b = getattr(p, field, None)
        if isinstance(b, list) and st in b:
            return b
    for h in getattr(p, 'handlers', []):
        if st in h.body:
            return h.body
    return [st]


def run(ctx):
    """R08.6: without --out the designated output is stdout, so nothing but the result may be written there.
    Log records are the one other thing the command emits on every run: the logging set-up must keep them on stderr."""
    ctx.rule('R08.9', 'name binding: every global name a function refers to is bound at module level or builtin, and every local is assigned on every path before it is read', floor=4)
    ctx.rule('R08.8', 'every exactly resolved call binds against its callee\'s signature (no missing/unknown/surplus argument on any arm)', floor=3)
    ctx.rule('R08.7', 'read_notebook substitutes an empty notebook for an unreadable input only if the file is empty (pure emptiness test before the fallback)', floor=1)
    ctx.rule('R08.6', 'log records never go to stdout (where the merged notebook is written when no --out is given): logging is configured '
             'with the default stderr stream', floor=1)
    _run_base(ctx)
    repo = ctx.repo
    n = 0
    for fid, fn in sorted(repo.functions.items()):
        for c in calls_in(fn, nested=False):
            d = dotted(c.func) or ''
            if d.endswith('basicConfig') or d.endswith('StreamHandler') or d.endswith('FileHandler'):
                n += 1
                kw = {k.arg: k.value for k in c.keywords}
                stream = kw.get('stream') if d.endswith('basicConfig') else (c.args[0] if c.args else kw.get('stream'))
                bad = stream is not None and 'stdout' in ast.unparse(stream)
                ctx.inst('R08.6', fid, repo.norm(c), not bad,
                         'records go to stderr (logging default) / a stream that is not stdout' if not bad else
                         'log records are written to stdout: with --log-level DEBUG/INFO and no --out they precede the merged notebook, '
                         'which is then not well-formed JSON although the exit status reports success', c)
    if n == 0:
        raise AnalysisError('no logging configuration call found in the package (nbdime.log.init_logging moved?)')

    from ..util import empty_file_fallback_sites, pure_emptiness_test
    rn = repo.func('nbdime.utils:read_notebook')
    hs = empty_file_fallback_sites(rn)
    if not hs:
        # emptiness decided up front instead of after a failed parse: by what?
        g_ = CFG(rn)
        subs = [r for r in walk_no_nested(rn) if isinstance(r, ast.Return) and r.value is not None and
                (isinstance(r.value, ast.Dict) and not r.value.keys or (isinstance(r.value, ast.Call) and (dotted(r.value.func) or '').endswith('new_notebook')))]
        judged = False
        for r in subs:
            names = set()
            for t, pol in cond_guards(g_, r):
                for c in ast.walk(t):
                    if isinstance(c, ast.Call):
                        names.add(dotted(c.func) or '')
                        for tt in ctx.cg.resolve(c.func, rn):
                            if tt[0] == 'func' and tt[1] in repo.functions:
                                names |= {dotted(x.func) or '' for x in ast.walk(repo.functions[tt[1]]) if isinstance(x, ast.Call)}
            by_size = sorted(n for n in names if n.split('.')[-1] in ('getsize', 'stat', 'fstat', 'lstat'))
            if by_size:
                judged = True
                ctx.inst('R08.7', 'nbdime.utils:read_notebook', 'substitute %s guarded by %s' % (repo.norm(r), by_size), False,
                         'whether the input is empty is decided from the file SIZE (%s): a pipe, /dev/fd/N or procfs file has size 0 and content -- such a base is never read and '
                         'is replaced by an empty notebook, the merge runs as a double insertion and exits 0' % ', '.join(by_size), r)
        if not judged:
            raise AnalysisError('utils.read_notebook: no NotJSONError handler found')
        hs = []
    for h, sites in hs:
        if not sites:
            always = bool(h.body) and isinstance(h.body[-1], ast.Raise)
            ctx.inst('R08.7', 'nbdime.utils:read_notebook', 'except NotJSONError without a content test', always,
                     'unreadable input is always an error' if always else
                     'any non-JSON input is replaced by an empty notebook without looking at its content', h)
        for x in sites:
            ok = pure_emptiness_test(x.test)
            ctx.inst('R08.7', 'nbdime.utils:read_notebook', 'if %s: raise' % repo.norm(x.test), ok,
                     'only a 0-byte input is replaced by an empty notebook' if ok else
                     'a corrupt (non-empty) input can be replaced by an empty notebook: the command then reports success on a merge of the wrong content', x)
    from ..signatures import call_compat
    call_compat(ctx, 'R08.8', ['nbdime.nbmergeapp', 'nbdime.vcs.git.mergedriver', 'nbdime.utils', 'nbdime.args'] if ctx.tier == 'quick' else ['nbdime.'], 'the command dies with a traceback (non-zero, but for a reason unrelated to conflicts)')
    from ..names import name_binding
    name_binding(ctx, 'R08.9', ['nbdime.nbmergeapp', 'nbdime.vcs.git.mergedriver', 'nbdime.utils', 'nbdime.args'] if ctx.tier == 'quick' else ['nbdime.'])


from .extra import with_extra  # noqa: E402
run = with_extra('C08', run)
